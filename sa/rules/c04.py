"""C04 - discrete conservation: sign and pairing structure of the balance equations.

The method bodies that build the mass / energy / component balances are symbolically executed
(straight-line substitution of locals, conditionals kept as tagged terms, parameters bound to the
caller's arguments, callables / functools.partial / getattr(self, "interface_" + name) resolved)
and normalised to *signed sums of products over named atoms*.  The rules are stated on that normal
form, i.e. on the dataflow, never on statement positions or local names.
"""
from __future__ import annotations

import ast
import copy
from dataclasses import dataclass, field
from typing import Optional

from ..core.astutil import u, dotted, call_name, kwarg, methods, walk_local
from ..core.loader import AnchorError, Undecided
from ..core.report import Ctx

ABS = "src/porepy/models/abstract_equations.py"
FMB = "src/porepy/models/fluid_mass_balance.py"
EB = "src/porepy/models/energy_balance.py"
CL = "src/porepy/models/constitutive_laws.py"
CF = "src/porepy/models/compositional_flow.py"
FPL = "src/porepy/models/fluid_property_library.py"
TD = "src/porepy/numerics/ad/time_derivatives.py"
GO = "src/porepy/numerics/ad/grid_operators.py"
WORLD = [ABS, FMB, EB, CL, CF, FPL]

PROJ_TO_GRID = {"mortar_to_primary_int", "mortar_to_primary_avg", "mortar_to_secondary_int", "mortar_to_secondary_avg"}
PROJ_TO_MORTAR = {"primary_to_mortar_int", "primary_to_mortar_avg", "secondary_to_mortar_int", "secondary_to_mortar_avg"}
# discretisation matrices that carry a prescribed (Neumann) face flux into the face-flux vector
NEUMANN_SLOTS = {"bound_transport_neu": "upwind: prescribed advective flux on Neumann/internal faces",
                 "bound_flux": "tpfa/mpfa: boundary-condition to flux map (sign on Neumann/internal faces)"}
# discretisation matrices that are certainly *not* a Neumann slot
NOT_NEUMANN = {"bound_transport_dir", "upwind", "flux", "vector_source", "bound_pressure_face", "bound_pressure_cell",
               "upwind_primary", "upwind_secondary"}
MAX_TERMS = 4000

META = {
    "explanation": (
        "Sign and pairing structure of the discrete balance equations, decided on a normal form (signed sums of products "
        "over named atoms) obtained by symbolic execution of the model methods' ASTs. R1: BalanceEquation.balance_equation "
        "is +dt(accumulation, ad_time_step) + Divergence(subdomains, dim) @ surface_term - source, each parameter exactly "
        "once; dt = time_increment/time_step and time_increment = op - op.previous_timestep(). R2: every method that calls "
        "balance_equation (mass, energy, component; each also in the context of its overriding subclasses) passes a "
        "surface term that expands to a face flux containing a mortar_to_primary coupling and a source that expands to a "
        "mortar_to_secondary coupling. R3 (source side): every projected interface flux in a *_source is "
        "+ mortar_to_secondary_int() @ F(interfaces) with the projection built on the same interface list F is called on; "
        "well (codim 2) fluxes appear as the pair + secondary_int, - primary_int of the same flux; never _avg. R4 (flux "
        "side): every projected interface flux in a face-flux expression is mortar_to_primary_int() @ F(interfaces) (same "
        "interface list), sits directly behind a Neumann slot (bound_transport_neu / bound_flux) with sign +, never behind "
        "a Dirichlet/upwind matrix, never _avg. R5 (duality): per balance and class context, the set of interface fluxes "
        "projected into the source equals the set projected into the face flux, after resolving pure forwarding overrides "
        "(MassicPressureEquations.interface_fluid_flux -> interface_darcy_flux) in that context's MRO. R6: where the "
        "coefficient of the projected interface flux is local filter algebra (AdTpfaFlux), at least one of its terms must "
        "be able to be non-zero on internal boundaries, i.e. not every term may carry an external_boundary_filters factor "
        "(D14, known finding). R7: buoyancy: the interface coupling expression projected with bound_transport_neu @ "
        "mortar_to_primary_int in __entity_buoyancy_flux is term-for-term the one projected with mortar_to_secondary_int in "
        "__entity_buoyancy_jump, and X_buoyancy on the flux side is accompanied by X_buoyancy_jump on the source side. "
        "R8 (sweep; thorough: all of models/examples/applications): wherever one of the extensive interface/well fluxes found "
        "above is the right factor of a mortar_to_* projection, the projection is an integrated one. "
        "Not decided: that the values of bound_flux / bound_transport_neu make the two contributions cancel; the numerical "
        "identity itself; inter-cell cancellation (cell_faces signs, C21)."),
    "rule_text": "one obligation per (balance_equation parameter | balance method x context | projected interface flux term | "
                 "interface flux in the duality set | filtered coefficient | buoyancy pair)",
    "trusted_base": ["python ast", "sa.core (loader, astutil)", "own symbolic executor/normaliser (this module)"],
    "assumptions": ["self.<method> resolves in the context class' MRO (by name, over the anchored modules); a method the context "
                    "does not define is a mixin slot and every definition of that name in the anchored modules is checked",
                    "mortar_to_*_int preserves the sum of an extensive mortar quantity (C26/C27)",
                    "bound_flux / bound_transport_neu put +/- the prescribed flux on Neumann and internal faces (numerical, not decided)"],
    "technique": "symbolic execution to signed sum-of-products normal form + set/sign comparison",
}
MIN_INSTANCES = {"R1": 6, "R2": 12, "R3": 13, "R4": 5, "R5": 12, "R6": 1, "R7": 7, "R8": 8}


# ========================================================================================
# symbolic execution of a method body to substituted expressions
# ========================================================================================

def _mk_call(name: str, *args: ast.expr) -> ast.Call:
    return ast.Call(func=ast.Name(id=name, ctx=ast.Load()), args=list(args), keywords=[])


class _Sub(ast.NodeTransformer):
    """Replace loaded Names by the expression bound in env (shared, never mutated afterwards);
    strips typing.cast; folds constant string concatenation; resolves getattr(self, "const")."""

    def __init__(self, env: dict):
        self.env = env

    def visit_Name(self, n: ast.Name):
        if isinstance(n.ctx, ast.Load) and n.id in self.env:
            return self.env[n.id]
        return n

    def visit_Lambda(self, n):
        return n

    def visit_ListComp(self, n):
        return self._comp(n)

    def visit_GeneratorExp(self, n):
        return self._comp(n)

    def _comp(self, n):
        bound = {t.id for g in n.generators for t in ast.walk(g.target) if isinstance(t, ast.Name)}
        saved = {k: self.env[k] for k in bound if k in self.env}
        for k in saved:
            del self.env[k]
        try:
            return self.generic_visit(n)
        finally:
            self.env.update(saved)

    def visit_Call(self, n: ast.Call):
        n = self.generic_visit(n)
        d = dotted(n.func) or ""
        if d.split(".")[-1] == "cast" and len(n.args) == 2 and not n.keywords:
            return n.args[1]
        if d == "getattr" and len(n.args) == 2 and isinstance(n.args[0], ast.Name) and n.args[0].id == "self" \
                and isinstance(n.args[1], ast.Constant) and isinstance(n.args[1].value, str):
            return ast.Attribute(value=n.args[0], attr=n.args[1].value, ctx=ast.Load())
        return n

    def visit_BinOp(self, n: ast.BinOp):
        n = self.generic_visit(n)
        if isinstance(n.op, ast.Add) and isinstance(n.left, ast.Constant) and isinstance(n.right, ast.Constant) \
                and isinstance(n.left.value, str) and isinstance(n.right.value, str):
            return ast.Constant(value=n.left.value + n.right.value)
        return n


def _subst(e: ast.expr, env: dict) -> ast.expr:
    return _Sub(env).visit(copy.deepcopy(e))


@dataclass
class _Exec:
    returns: list = field(default_factory=list)     # (conds, expr)
    appended: dict = field(default_factory=dict)    # list name -> [(conds, expr)]


def symexec(fn: ast.FunctionDef, bind: dict) -> _Exec:
    out = _Exec()

    def assign(env, target, value_expr):
        if isinstance(target, ast.Name):
            env[target.id] = value_expr
        elif isinstance(target, (ast.Tuple, ast.List)):
            for i, t in enumerate(target.elts):
                if isinstance(t, ast.Starred):
                    assign(env, t.value, _mk_call("__opaque__", ast.Constant(value=u(t.value))))
                else:
                    assign(env, t, _mk_call("__item__", value_expr, ast.Constant(value=i)))
        # attribute / subscript stores do not affect local dataflow

    def kill(env, stmt):
        for n in ast.walk(stmt):
            if isinstance(n, ast.Name) and isinstance(n.ctx, ast.Store):
                env[n.id] = _mk_call("__opaque__", ast.Constant(value=n.id))

    def run(stmts, env, conds) -> bool:
        for s in stmts:
            if isinstance(s, ast.Assign):
                v = _subst(s.value, env)
                for t in s.targets:
                    assign(env, t, v)
            elif isinstance(s, ast.AnnAssign):
                if s.value is not None:
                    assign(env, s.target, _subst(s.value, env))
            elif isinstance(s, ast.AugAssign):
                if isinstance(s.target, ast.Name) and isinstance(s.op, (ast.Add, ast.Sub)):
                    old = env.get(s.target.id, ast.Name(id=s.target.id, ctx=ast.Load()))
                    env[s.target.id] = ast.BinOp(left=old, op=s.op, right=_subst(s.value, env))
                elif isinstance(s.target, ast.Name):
                    env[s.target.id] = _mk_call("__opaque__", ast.Constant(value=s.target.id))
            elif isinstance(s, ast.Return):
                out.returns.append((conds, _subst(s.value, env) if s.value is not None else ast.Constant(value=None)))
                return True
            elif isinstance(s, ast.Raise):
                return True
            elif isinstance(s, ast.Expr):
                c = s.value
                if isinstance(c, ast.Call) and isinstance(c.func, ast.Attribute) and c.func.attr == "append" \
                        and isinstance(c.func.value, ast.Name) and len(c.args) == 1:
                    out.appended.setdefault(c.func.value.id, []).append((conds, _subst(c.args[0], env)))
            elif isinstance(s, ast.If):
                test = u(_subst(s.test, env))
                env_t, env_f = dict(env), dict(env)
                term_t = run(s.body, env_t, conds + (test,))
                term_f = run(s.orelse, env_f, conds + (f"not ({test})",))
                if term_t and term_f:
                    return True
                if term_t:
                    env.clear(); env.update(env_f)
                elif term_f:
                    env.clear(); env.update(env_t)
                else:
                    merged = {}
                    for name in set(env_t) | set(env_f):
                        a, b, old = env_t.get(name), env_f.get(name), env.get(name)
                        if a is b:
                            merged[name] = a
                            continue
                        a = a if a is not None else ast.Name(id=name, ctx=ast.Load())
                        b = b if b is not None else ast.Name(id=name, ctx=ast.Load())
                        ea, eb = _augment_of(a, old), _augment_of(b, old)
                        if old is not None and ea is not None and b is old:
                            merged[name] = ast.BinOp(left=old, op=ast.Add(), right=_mk_call("__cond__", ast.Constant(value=test), ea))
                        elif old is not None and eb is not None and a is old:
                            merged[name] = ast.BinOp(left=old, op=ast.Add(),
                                                     right=_mk_call("__cond__", ast.Constant(value=f"not ({test})"), eb))
                        else:
                            merged[name] = _mk_call("__phi__", ast.Constant(value=test), a, b)
                    env.clear(); env.update(merged)
            elif isinstance(s, ast.For) and isinstance(s.iter, (ast.Tuple, ast.List)) and isinstance(s.target, ast.Name) \
                    and not s.orelse and not any(isinstance(n, (ast.Break, ast.Continue, ast.Return)) for n in ast.walk(s)) \
                    and not any(isinstance(x, ast.Starred) for x in s.iter.elts):
                # a loop over a literal sequence is unrolled
                for el in s.iter.elts:
                    env[s.target.id] = _subst(el, env)
                    run(s.body, env, conds)
            elif isinstance(s, (ast.For, ast.While, ast.Try, ast.With, ast.AsyncFor, ast.AsyncWith, ast.Match)):
                kill(env, s)
                # list accumulation inside loops is recorded with an opaque condition
                for c in [n for n in ast.walk(s) if isinstance(n, ast.Call)]:
                    if isinstance(c.func, ast.Attribute) and c.func.attr == "append" and isinstance(c.func.value, ast.Name) \
                            and len(c.args) == 1:
                        out.appended.setdefault(c.func.value.id, []).append((conds + ("<loop>",), _subst(c.args[0], env)))
            # assert / pass / nested defs / global: no effect on the dataflow of interest
        return False

    run([s for s in fn.body], dict(bind), ())
    return out


def _augment_of(new: ast.expr, old: Optional[ast.expr]) -> Optional[ast.expr]:
    """If new is `old + X` / `old - X` (old by identity) return +X / -X, else None."""
    if old is None or not isinstance(new, ast.BinOp) or new.left is not old:
        return None
    if isinstance(new.op, ast.Add):
        return new.right
    if isinstance(new.op, ast.Sub):
        return ast.UnaryOp(op=ast.USub(), operand=new.right)
    return None


# ========================================================================================
# normal form: signed sum of products over atoms
# ========================================================================================

@dataclass(frozen=True)
class Atom:
    kind: str            # proj | selfcall | supercall | call | item | name | opaque
    name: str            # method / attribute / function name
    text: str            # normalised full text
    args: tuple = ()     # normalised argument texts (selfcall: bound partial arguments first)
    recv: str = ""       # proj: receiver text; call: receiver text
    recv_args: tuple = ()  # proj: texts of the constructor arguments of the receiver
    origin: str = ""     # item: attribute name of the call the tuple element was unpacked from
    node: Optional[ast.AST] = field(default=None, compare=False, hash=False)


@dataclass(frozen=True)
class Term:
    sign: int
    factors: tuple
    conds: tuple = ()


def _atom(e: ast.expr) -> Atom:
    if isinstance(e, ast.Call):
        f = e.func
        argt = tuple(u(a) for a in e.args) + tuple(f"{k.arg}={u(k.value)}" for k in e.keywords)
        if isinstance(f, ast.Name) and f.id == "__item__":
            src = e.args[0]
            org = call_name(src) if isinstance(src, ast.Call) else ""
            return Atom("item", f"{org}[{e.args[1].value}]", f"{u(src)}[{e.args[1].value}]", origin=org or "", node=e)
        if isinstance(f, ast.Name) and f.id == "__opaque__":
            return Atom("opaque", str(e.args[0].value), f"<{e.args[0].value}>", node=e)
        # partial(self.m, a, b)(c)  ->  self.m(a, b, c)
        if isinstance(f, ast.Call) and (dotted(f.func) or "").split(".")[-1] == "partial" and f.args:
            inner = ast.Call(func=f.args[0], args=list(f.args[1:]) + list(e.args), keywords=list(f.keywords) + list(e.keywords))
            return _atom(inner)
        if isinstance(f, ast.Attribute):
            if isinstance(f.value, ast.Name) and f.value.id == "self":
                return Atom("selfcall", f.attr, u(e), args=argt, node=e)
            if isinstance(f.value, ast.Call) and isinstance(f.value.func, ast.Name) and f.value.func.id == "super":
                return Atom("supercall", f.attr, u(e), args=argt, node=e)
            if f.attr in PROJ_TO_GRID | PROJ_TO_MORTAR and not e.args and not e.keywords:
                rv = f.value
                ra = ()
                if isinstance(rv, ast.Call):
                    ra = tuple(u(a) for a in rv.args) + tuple(f"{k.arg}={u(k.value)}" for k in rv.keywords)
                return Atom("proj", f.attr, u(e), recv=u(rv), recv_args=ra, node=e)
            return Atom("call", f.attr, u(e), args=argt, recv=u(f.value), node=e)
        return Atom("call", (dotted(f) or u(f)).split(".")[-1], u(e), args=argt, node=e)
    if isinstance(e, ast.Name):
        return Atom("name", e.id, e.id, node=e)
    return Atom("other", type(e).__name__, u(e), node=e)


def normalise(e: ast.expr) -> list[Term]:
    """Distribute +, -, unary -, * and @ (both kept as ordered, non-commutative products)."""
    if isinstance(e, ast.BinOp):
        if isinstance(e.op, (ast.Add, ast.Sub)):
            a, b = normalise(e.left), normalise(e.right)
            if isinstance(e.op, ast.Sub):
                b = [Term(-t.sign, t.factors, t.conds) for t in b]
            return a + b
        if isinstance(e.op, (ast.Mult, ast.MatMult)):
            a, b = normalise(e.left), normalise(e.right)
            if len(a) * len(b) > MAX_TERMS:
                raise Undecided(f"normal form exceeds {MAX_TERMS} terms")
            return [Term(x.sign * y.sign, x.factors + y.factors, x.conds + y.conds) for x in a for y in b]
    if isinstance(e, ast.UnaryOp) and isinstance(e.op, ast.USub):
        return [Term(-t.sign, t.factors, t.conds) for t in normalise(e.operand)]
    if isinstance(e, ast.UnaryOp) and isinstance(e.op, ast.UAdd):
        return normalise(e.operand)
    if isinstance(e, ast.Call) and isinstance(e.func, ast.Name):
        if e.func.id == "__cond__":
            c = e.args[0].value
            return [Term(t.sign, t.factors, (c,) + t.conds) for t in normalise(e.args[1])]
        if e.func.id == "__phi__":
            c = e.args[0].value
            return [Term(t.sign, t.factors, (c,) + t.conds) for t in normalise(e.args[1])] + \
                   [Term(t.sign, t.factors, (f"not ({c})",) + t.conds) for t in normalise(e.args[2])]
    if isinstance(e, ast.Call) and (dotted(e.func) or "").split(".")[-1] in ("sum_operator_list", "sum") and e.args:
        elts = _unrolled(e.args[0])
        if elts is not None and elts:
            out: list[Term] = []
            for el in elts:
                out += normalise(el)
            return out
    return [Term(+1, (_atom(e),), ())]


def _unrolled(seq: ast.expr) -> Optional[list]:
    """Elements of a literal list/tuple, or of a comprehension over a literal list/tuple (unrolled)."""
    if isinstance(seq, (ast.List, ast.Tuple)):
        if any(isinstance(x, ast.Starred) for x in seq.elts):
            return None
        return list(seq.elts)
    if isinstance(seq, (ast.ListComp, ast.GeneratorExp)) and len(seq.generators) == 1 and not seq.generators[0].ifs \
            and isinstance(seq.generators[0].iter, (ast.List, ast.Tuple)) and isinstance(seq.generators[0].target, ast.Name):
        g = seq.generators[0]
        return [_subst(seq.elt, {g.target.id: it}) for it in g.iter.elts]
    return None


# ========================================================================================
# class world, method lookup, expansion of self calls
# ========================================================================================

@dataclass
class MethodDef:
    rel: str
    cls: ast.ClassDef
    fn: ast.FunctionDef

    @property
    def qual(self) -> str:
        return f"{self.cls.name}.{self.fn.name}"


class World:
    def __init__(self, ctx: Ctx):
        self.ctx = ctx
        self.classes: dict[str, tuple[str, ast.ClassDef]] = {}
        for rel in WORLD:
            m = ctx.repo.module(rel)
            for s in m.tree.body:
                if isinstance(s, ast.ClassDef):
                    self.classes[s.name] = (rel, s)
        self._memo: dict = {}
        self._consts: dict[str, dict] = {}
        self._mentions: dict = {}

    def consts(self, rel: str) -> dict:
        """Module-level simple constants (strings, numbers, lists/tuples of them) usable as substitutions."""
        if rel not in self._consts:
            env = {}
            for st in self.ctx.repo.module(rel).tree.body:
                tgt, val = None, None
                if isinstance(st, ast.Assign) and len(st.targets) == 1 and isinstance(st.targets[0], ast.Name):
                    tgt, val = st.targets[0].id, st.value
                elif isinstance(st, ast.AnnAssign) and isinstance(st.target, ast.Name) and st.value is not None:
                    tgt, val = st.target.id, st.value
                if tgt and (isinstance(val, ast.Constant) or (isinstance(val, (ast.List, ast.Tuple)) and all(
                        isinstance(x, ast.Constant) for x in val.elts))):
                    env[tgt] = val
            self._consts[rel] = env
        return self._consts[rel]

    def exec(self, d: "MethodDef", bind: Optional[dict] = None) -> "_Exec":
        env = dict(self.consts(d.rel))
        # parameters and locals shadow module constants
        for a in d.fn.args.args + d.fn.args.kwonlyargs:
            env.pop(a.arg, None)
        env.update(bind or {})
        return symexec(d.fn, env)

    def mentions_grid_projection(self, ctxcls: str, name: str, defining: Optional[str], depth: int = 0) -> bool:
        """Does self.<name> (transitively, through self calls, bounded) build a mortar_to_* projection?"""
        key = (ctxcls, name, defining)
        if key in self._mentions:
            return self._mentions[key]
        self._mentions[key] = False
        res = False
        for d in self.lookup(ctxcls, name, defining=defining):
            for n in ast.walk(d.fn):
                if isinstance(n, ast.Attribute) and n.attr in PROJ_TO_GRID:
                    res = True
                elif depth < 3 and isinstance(n, ast.Call) and isinstance(n.func, ast.Attribute) \
                        and isinstance(n.func.value, ast.Name) and n.func.value.id == "self" and n.func.attr != name:
                    if n.func.attr.startswith("_") and self.mentions_grid_projection(ctxcls, n.func.attr, d.cls.name, depth + 1):
                        res = True
            if res:
                break
        self._mentions[key] = res
        return res

    def meths(self, cd: ast.ClassDef) -> dict:
        k = id(cd)
        if k not in self._memo:
            self._memo[k] = methods(cd)
        return self._memo[k]

    def bases(self, cname: str) -> list[str]:
        if cname not in self.classes:
            return []
        return [(dotted(b) or u(b)).split(".")[-1] for b in self.classes[cname][1].bases]

    def mro(self, cname: str) -> list[str]:
        out, stack = [], [cname]
        while stack:
            c = stack.pop(0)
            if c in out or c not in self.classes:
                continue
            out.append(c)
            stack = self.bases(c) + stack
        return out

    def subclasses(self, cname: str) -> list[str]:
        return [c for c in self.classes if c != cname and cname in self.mro(c)]

    @staticmethod
    def _real(fn: ast.FunctionDef) -> bool:
        return not any((dotted(d) or "").endswith("abstractmethod") for d in fn.decorator_list)

    def lookup(self, ctxcls: str, name: str, defining: Optional[str] = None, is_super: bool = False) -> list[MethodDef]:
        """Definitions self.<name> may denote in context class ctxcls (super(): after `defining` in its MRO)."""
        if is_super:
            order = self.mro(defining)[1:] if defining else []
        else:
            order = self.mro(ctxcls)
        for c in order:
            rel, cd = self.classes[c]
            mm = self.meths(cd)
            if name in mm and self._real(mm[name]):
                return [MethodDef(rel, cd, mm[name])]
        if is_super:
            return []
        # name-mangled private helper: belongs to the defining class only
        if name.startswith("__") and not name.endswith("__") and defining and defining in self.classes:
            rel, cd = self.classes[defining]
            mm = self.meths(cd)
            return [MethodDef(rel, cd, mm[name])] if name in mm else []
        out = []
        for c, (rel, cd) in self.classes.items():
            mm = self.meths(cd)
            if name in mm and self._real(mm[name]):
                out.append(MethodDef(rel, cd, mm[name]))
        return out

    # -- binding of call arguments to parameters -------------------------------------------
    @staticmethod
    def bind(fn: ast.FunctionDef, call: ast.Call, extra_leading: int = 0) -> dict:
        params = [a.arg for a in fn.args.args]
        if params and params[0] == "self":
            params = params[1:]
        env: dict = {}
        for p, a in zip(params, call.args):
            if isinstance(a, ast.Starred):
                raise Undecided(f"star-argument in call {u(call)[:80]}")
            env[p] = a
        for k in call.keywords:
            if k.arg is None:
                raise Undecided(f"**kwargs in call {u(call)[:80]}")
            env[k.arg] = k.value
        # defaults for unbound parameters
        defaults = fn.args.defaults
        for p, d in zip(params[len(params) - len(defaults):], defaults):
            env.setdefault(p, d)
        return env


@dataclass
class Coupling:
    """One term that contains a mortar_to_{primary,secondary}_* projection."""
    sign: int
    left: tuple          # atoms left of the projection
    proj: Atom
    right: tuple         # atoms right of the projection
    conds: tuple
    where: MethodDef     # method in whose body the term was assembled
    term: Term


@dataclass
class Expansion:
    couplings: list
    opaque: list         # (sign, Atom, conds): single-factor self calls that could not be expanded / carry no coupling
    visited: list        # MethodDef quals expanded
    alt_mismatch: list = field(default_factory=list)   # (Atom, {qual: sorted flux names}) for disagreeing mixin alternatives
    loose: set = field(default_factory=set)            # names of self calls that are factors of products without a projection


def _irregular_projection(a: Atom) -> bool:
    """The factor is not a plain `P.mortar_to_X_k()` call but involves a projection (to-mortar direction,
    `.T`, `.transpose()`, wrapped): an idiom this rule does not interpret."""
    if a.kind == "proj":
        return a.name in PROJ_TO_MORTAR
    if a.kind in ("selfcall", "supercall", "name", "item", "opaque") or a.node is None:
        return False
    target = a.node
    if isinstance(a.node, ast.Call) and (dotted(a.node.func) or "").split(".")[-1] in ("MortarProjections", "dt", "Divergence"):
        target = a.node.func
    return any(isinstance(n, ast.Attribute) and n.attr in PROJ_TO_GRID | PROJ_TO_MORTAR for n in ast.walk(target))


class _InlineLinear(ast.NodeTransformer):
    """Macro-expand `self.helper(..)` where it is an operand of a matrix product (`A @ self.h(..)` /
    `self.h(..) @ x`) and the helper (transitively) builds a mortar_to_* projection: extracting part of a
    source / flux expression into a method must not hide its terms.  Elementwise factors (`q * (...)`) are
    left alone: they are weights, not linear carriers of the interface flux."""

    def __init__(self, world: World, ctxcls: str, where: MethodDef, stack: tuple):
        self.world, self.ctxcls, self.where, self.stack = world, ctxcls, where, stack

    def _inline(self, e: ast.expr) -> ast.expr:
        if not (isinstance(e, ast.Call) and isinstance(e.func, ast.Attribute) and isinstance(e.func.value, ast.Name)
                and e.func.value.id == "self"):
            return e
        name = e.func.attr
        if name in self.stack or len(self.stack) > 4:
            return e
        if not self.world.mentions_grid_projection(self.ctxcls, name, self.where.cls.name):
            return e
        defs = self.world.lookup(self.ctxcls, name, defining=self.where.cls.name)
        if len(defs) != 1:
            return e
        ex = self.world.exec(defs[0], World.bind(defs[0].fn, e))
        if len(ex.returns) != 1 or ex.returns[0][0]:
            raise Undecided(f"{defs[0].rel}:{defs[0].qual}: helper used as operand of a matrix product has several / conditional returns")
        sub = _InlineLinear(self.world, self.ctxcls, defs[0], self.stack + (name,))
        return sub.visit(ex.returns[0][1])

    def visit_BinOp(self, n: ast.BinOp):
        n = self.generic_visit(n)
        if isinstance(n.op, ast.MatMult):
            l, r = self._inline(n.left), self._inline(n.right)
            if l is not n.left or r is not n.right:
                return ast.BinOp(left=l, op=n.op, right=r)
        return n

    def visit_Call(self, n: ast.Call):
        # do not descend into the arguments of model calls (they are other expressions, not this product)
        if isinstance(n.func, ast.Name) and n.func.id in ("__cond__", "__phi__"):
            return self.generic_visit(n)
        if (dotted(n.func) or "").split(".")[-1] in ("sum_operator_list", "sum"):
            return self.generic_visit(n)
        return n

    def visit_Lambda(self, n):
        return n


def expand(world: World, ctxcls: str, expr: ast.expr, where: MethodDef, depth: int = 0, stack: tuple = ()) -> Expansion:
    def _cand(n) -> bool:
        return (isinstance(n, ast.Call) and isinstance(n.func, ast.Attribute) and isinstance(n.func.value, ast.Name)
                and n.func.value.id == "self" and world.mentions_grid_projection(ctxcls, n.func.attr, where.cls.name))
    if any(isinstance(n, ast.BinOp) and isinstance(n.op, ast.MatMult) and (_cand(n.left) or _cand(n.right)) for n in ast.walk(expr)):
        expr = _InlineLinear(world, ctxcls, where, ()).visit(copy.deepcopy(expr))
    terms = normalise(expr)
    out = Expansion([], [], [])
    for t in terms:
        if len(t.factors) == 1 and t.factors[0].kind == "opaque":
            raise Undecided(f"{where.rel}:{where.qual}: a balance term is accumulated in a loop / unsupported statement "
                            f"(`{t.factors[0].name}`): cannot enumerate its summands")
        projs = [i for i, a in enumerate(t.factors) if a.kind == "proj" and a.name in PROJ_TO_GRID]
        odd = [x for x in t.factors if _irregular_projection(x)]
        if odd:
            raise Undecided(f"{where.rel}:{where.qual}: unrecognised use of a mortar projection in a balance term: {odd[0].text[:120]}")
        if projs:
            if len(projs) > 1:
                raise Undecided(f"{where.rel}:{where.qual}: two grid projections in one product: {' @ '.join(a.text for a in t.factors)[:200]}")
            i = projs[0]
            out.couplings.append(Coupling(t.sign, t.factors[:i], t.factors[i], t.factors[i + 1:], t.conds, where, t))
            continue
        if len(t.factors) > 1:
            out.loose |= {x.name for x in t.factors if x.kind in ("selfcall", "supercall")}
        if len(t.factors) == 1 and t.factors[0].kind in ("selfcall", "supercall"):
            a = t.factors[0]
            defs = world.lookup(ctxcls, a.name, defining=where.cls.name, is_super=(a.kind == "supercall"))
            key = (a.kind, a.name, where.cls.name if a.kind == "supercall" else "")
            if not defs or depth >= 7 or key in stack:
                out.opaque.append((t.sign, a, t.conds, where))
                continue
            found_any = False
            per_alt: dict = {}
            for d in defs:
                ex = world.exec(d, World.bind(d.fn, a.node))
                for conds, rexpr in ex.returns:
                    sub = expand(world, ctxcls, rexpr, d, depth + 1, stack + (key,))
                    out.alt_mismatch += sub.alt_mismatch
                    out.loose |= sub.loose
                    per_alt.setdefault(d.qual, set()).update(
                        (c.proj.name.rsplit("_", 1)[0], c.right[0].name if c.right else "?") for c in sub.couplings)
                    for c in sub.couplings:
                        out.couplings.append(Coupling(c.sign * t.sign, c.left, c.proj, c.right, t.conds + conds + c.conds, c.where, c.term))
                        found_any = True
                    for (s, oa, oc, ow) in sub.opaque:
                        out.opaque.append((s * t.sign, oa, t.conds + conds + oc, ow))
                    out.visited += [d.qual] + sub.visited
            if len(defs) > 1 and len({frozenset(v) for v in per_alt.values()}) > 1:
                out.alt_mismatch.append((a, {q: sorted(f"{p} @ {n}" for p, n in v) for q, v in per_alt.items()}))
            if not found_any:
                out.opaque.append((t.sign, a, t.conds, where))
    return out


def _is_forwarder(d: MethodDef, world: Optional[World] = None) -> Optional[str]:
    """Name m if the method is `return self.m(<its own parameters, unchanged>)`."""
    ex = symexec(d.fn, dict(world.consts(d.rel)) if world is not None else {})
    if len(ex.returns) != 1 or ex.returns[0][0]:
        return None
    ts = normalise(ex.returns[0][1])
    if len(ts) != 1 or ts[0].sign != 1 or len(ts[0].factors) != 1 or ts[0].factors[0].kind != "selfcall":
        return None
    a = ts[0].factors[0]
    params = [p.arg for p in d.fn.args.args if p.arg != "self"]
    return a.name if list(a.args) == params else None


def canonical(world: World, ctxcls: str, atom: Atom) -> tuple:
    """(method name, leading bound arguments) of an interface-flux atom, pure forwarders resolved in ctxcls."""
    name, seen = atom.name, set()
    ck = ("canon", ctxcls, atom.name)
    if ck in world._memo:
        name = world._memo[ck]
        seen.add(name)
    while name not in seen:
        seen.add(name)
        defs = world.lookup(ctxcls, name)
        if len(defs) != 1:
            break
        nxt = _is_forwarder(defs[0], world)
        if nxt is None:
            break
        name = nxt
    world._memo[ck] = name
    lead = [a for a in atom.args if not a.startswith("interfaces=")]
    if len(lead) == len(atom.args):
        lead = lead[:-1]
    return (name, tuple(_argval(a) for a in lead))


def _argval(text: str) -> str:
    """`name=value` -> `value` (an argument passed by keyword is the same argument)."""
    import re
    m = re.match(r"^[A-Za-z_]\w*=(?!=)(.*)$", text, re.S)
    return m.group(1) if m else text


def _last_arg(F: Atom) -> Optional[str]:
    for a in F.args:
        if a.startswith("interfaces="):
            return _argval(a)
    return _argval(F.args[-1]) if F.args else None


def _intf_arg_of_proj(p: Atom) -> Optional[str]:
    """Text of the interface-list argument of the MortarProjections(...) the projection belongs to."""
    pos = [a for a in p.recv_args if "=" not in a.split("(")[0]]
    for a in p.recv_args:
        if a.startswith("interfaces="):
            return a[len("interfaces="):]
    return pos[2] if len(pos) >= 3 else None


def _codims(text: Optional[str]) -> Optional[list]:
    if text is None:
        return None
    try:
        e = ast.parse(text, mode="eval").body
    except SyntaxError:
        return None
    if isinstance(e, ast.Call) and call_name(e) == "subdomains_to_interfaces":
        arg = e.args[1] if len(e.args) > 1 else kwarg(e, "codims")
        if isinstance(arg, (ast.List, ast.Tuple)) and all(isinstance(x, ast.Constant) for x in arg.elts):
            return [x.value for x in arg.elts]
    return None


# ========================================================================================
# the rules
# ========================================================================================

def _r1(ctx: Ctx, world: World) -> ast.FunctionDef:
    rel, cd = world.classes.get("BalanceEquation", (None, None))
    if cd is None or "balance_equation" not in methods(cd):
        raise AnchorError(f"{ABS}: BalanceEquation.balance_equation not found")
    fn = methods(cd)["balance_equation"]
    q = "BalanceEquation.balance_equation"
    params = [a.arg for a in fn.args.args]
    for p in ("accumulation", "surface_term", "source", "subdomains", "dim"):
        if p not in params:
            raise AnchorError(f"{q}: parameter {p} missing")
    ex = symexec(fn, {})
    if len(ex.returns) != 1:
        raise Undecided(f"{q}: expected one return, found {len(ex.returns)}")
    terms = normalise(ex.returns[0][1])

    def mentions(t: Term, p: str) -> bool:
        return any(a.node is not None and any(isinstance(n, ast.Name) and n.id == p for n in ast.walk(a.node)) for a in t.factors)

    facts = {"normal_form": [("+" if t.sign > 0 else "-") + " @ ".join(a.text for a in t.factors) for t in terms]}
    ctx.sample({"rule": "R1", **facts})
    for p, want_sign in (("accumulation", +1), ("surface_term", +1), ("source", -1)):
        hit = [t for t in terms if mentions(t, p)]
        ok, msg = True, ""
        if len(hit) != 1:
            ok, msg = False, f"parameter `{p}` occurs in {len(hit)} terms of the balance (must be exactly one)"
        else:
            t = hit[0]
            if t.conds:
                raise Undecided(f"{q}: term of `{p}` is conditional")
            if t.sign != want_sign:
                ok, msg = False, f"`{p}` enters the balance with sign {'+' if t.sign > 0 else '-'} (must be {'+' if want_sign > 0 else '-'})"
            elif p == "source":
                ok = len(t.factors) == 1 and t.factors[0].kind == "name"
                msg = "" if ok else "source must enter unscaled"
            elif p == "surface_term":
                ok = (len(t.factors) == 2 and t.factors[1].kind == "name" and t.factors[0].kind == "call"
                      and t.factors[0].name == "Divergence" and _argval(t.factors[0].args[0]) == "subdomains"
                      and len(t.factors[0].args) == 2 and _argval(t.factors[0].args[1]) == "dim")
                msg = "" if ok else "surface term must enter as Divergence(subdomains, dim=dim) @ surface_term"
            else:
                a = t.factors[0]
                head = a.text.split("(")[0]
                ok = (len(t.factors) == 1 and a.kind == "call" and a.name == "dt"
                      and (head.endswith("time_derivatives.dt") or head in ("pp.ad.dt", "dt", "ad.dt"))
                      and tuple(_argval(x) for x in a.args) == ("accumulation", "self.ad_time_step"))
                msg = "" if ok else "accumulation must enter as pp.ad.time_derivatives.dt(accumulation, self.ad_time_step)"
        ctx.check("R1", ok, rel, q, fn, msg or f"`{p}` enters the balance once with sign {'+' if want_sign > 0 else '-'}",
                  construct=f"balance_equation: role of {p}: " + "; ".join(facts["normal_form"]), facts=facts)
    extra = [t for t in terms if not any(mentions(t, p) for p in ("accumulation", "surface_term", "source"))]
    if extra:
        raise Undecided(f"{q}: additional terms in the balance: {[a.text for t in extra for a in t.factors]}")

    # time derivative: dt = time_increment(op) / time_step ; time_increment = op - op.previous_timestep()
    td = ctx.repo.module(TD)
    f_dt, f_inc = td.func("dt"), td.func("time_increment")
    r = symexec(f_dt, {}).returns
    okdt = (len(r) == 1 and isinstance(r[0][1], ast.BinOp) and isinstance(r[0][1].op, ast.Div)
            and u(r[0][1].left) == f"time_increment({f_dt.args.args[0].arg})" and u(r[0][1].right) == f_dt.args.args[1].arg)
    ctx.check("R1", okdt, td, "dt", f_dt, "dt(op, time_step) must be time_increment(op) / time_step",
              construct="dt: " + (u(r[0][1]) if r else "?"))
    r = symexec(f_inc, {}).returns
    p0 = f_inc.args.args[0].arg
    nf = sorted((t.sign, " @ ".join(a.text for a in t.factors)) for t in normalise(r[0][1])) if len(r) == 1 else []
    ctx.check("R1", nf == [(-1, f"{p0}.previous_timestep()"), (1, p0)], td, "time_increment", f_inc,
              "time_increment(op) must be op - op.previous_timestep() (new minus old)", construct=f"time_increment: {nf}",
              facts={"normal_form": nf})
    # Divergence.parse: block of sd.divergence(dim=self.dim) over self.subdomains, in that order
    go = ctx.repo.module(GO)
    parse = go.func("Divergence.parse")
    comps = [n for n in ast.walk(parse) if isinstance(n, ast.ListComp)]
    okdiv = any(u(c.elt) == f"{u(c.generators[0].target)}.divergence(dim=self.dim)" and u(c.generators[0].iter) == "self.subdomains"
                and not c.generators[0].ifs for c in comps)
    ctx.check("R1", okdiv, go, "Divergence.parse", parse, "Divergence must assemble sd.divergence(dim=self.dim) for every sd of self.subdomains",
              construct="Divergence.parse blocks")
    return fn


def _fmt(c: Coupling) -> str:
    return ("+" if c.sign > 0 else "-") + " @ ".join(a.name if a.kind in ("call", "proj", "item") else a.text[:60]
                                                     for a in c.left + (c.proj,) + c.right)


def run(ctx: Ctx) -> None:
    world = World(ctx)
    bal_fn = _r1(ctx, world)
    bal_params = [a.arg for a in bal_fn.args.args if a.arg != "self"]

    # ---- discover the balances: every world method that calls self.balance_equation(...) ----------
    balances: list[tuple[MethodDef, ast.Call]] = []
    for cname, (rel, cd) in world.classes.items():
        for name, fn in methods(cd).items():
            if cname == "BalanceEquation":
                continue
            for c in [n for n in walk_local(fn) if isinstance(n, ast.Call)]:
                if isinstance(c.func, ast.Attribute) and c.func.attr == "balance_equation" and u(c.func.value) == "self":
                    balances.append((MethodDef(rel, cd, fn), c))
    if len(balances) < 3:
        raise AnchorError(f"expected at least 3 callers of balance_equation in {WORLD}, found {len(balances)}")

    seen_r3: set = set()
    seen_r4: set = set()
    seen_r6: set = set()
    extensive: set[str] = set()     # interface / well flux method names found in the balances (derived, not listed)
    csites: dict[str, list] = {}    # flux name -> projection sites seen as couplings of a balance (feeds R8's per-flux tally)
    for md, _call in balances:
        contexts = [md.cls.name] + world.subclasses(md.cls.name)
        for cx in contexts:
            # a context is only of interest if it differs from its parent in a method reachable from the balance;
            # checking every subclass is sound (over-approximation) and cheap
            ex = world.exec(md)
            calls = []
            for conds, r in ex.returns:
                for n in ast.walk(r):
                    if isinstance(n, ast.Call) and isinstance(n.func, ast.Attribute) and n.func.attr == "balance_equation":
                        calls.append(n)
            # set_name on the result: the returned expression is the local; find the substituted call
            if not calls:
                raise Undecided(f"{md.rel}:{md.qual}: balance_equation call does not reach the return value")
            call = calls[0]
            b = World.bind(bal_fn, call)
            if "surface_term" not in b or "source" not in b:
                raise Undecided(f"{md.rel}:{md.qual}: cannot bind surface_term/source of balance_equation")
            fx = expand(world, cx, b["surface_term"], md)
            sx = expand(world, cx, b["source"], md)
            where_q = f"{md.qual}[{cx}]" if cx != md.cls.name else md.qual

            # ---- R2: roles ---------------------------------------------------------------------
            f_prim = [c for c in fx.couplings if c.proj.name.startswith("mortar_to_primary")]
            s_sec = [c for c in sx.couplings if c.proj.name.startswith("mortar_to_secondary")]
            f_bad = [c for c in fx.couplings if c.proj.name.startswith("mortar_to_secondary")]
            ok = bool(f_prim) and bool(s_sec)
            if not ok and not fx.couplings and not sx.couplings:
                raise Undecided(f"{md.rel}:{md.qual}: neither the surface term nor the source expands to a projected interface flux "
                                "(expression form not understood)")
            ctx.check("R2", ok, md.rel, where_q, call,
                      "surface-term argument must expand to a face flux (mortar_to_primary coupling behind a Neumann slot) and the "
                      "source argument to a cell source (mortar_to_secondary coupling)",
                      construct=f"balance_equation(surface_term={u(b['surface_term'])[:80]}, source={u(b['source'])[:80]})",
                      facts={"flux_couplings": [_fmt(c) for c in fx.couplings][:12], "source_couplings": [_fmt(c) for c in sx.couplings][:12]})
            ctx.sample({"rule": "R2", "balance": where_q, "flux_side": sorted({_fmt(c) for c in fx.couplings})[:8],
                        "source_side": sorted({_fmt(c) for c in sx.couplings})[:8]})

            # ---- R3: source side --------------------------------------------------------------------
            groups: dict[str, list[Coupling]] = {}
            for c in sx.couplings:
                groups.setdefault(c.proj.recv, []).append(c)
            src_set: dict[tuple, Coupling] = {}
            _multiplicity(ctx, "R3", sx.couplings, seen_r3, cx, "source")
            for recv, cs in groups.items():
                intf = _intf_arg_of_proj(cs[0].proj)
                cod = _codims(intf)
                buoy = all("buoyancy" in c.where.fn.name for c in cs)
                if buoy:
                    continue  # R7
                for c in cs:
                    if len(c.right) != 1 or c.right[0].kind not in ("selfcall",):
                        raise Undecided(f"{c.where.rel}:{c.where.qual}: projected quantity is not a single interface-flux call: "
                                        f"{' @ '.join(a.text for a in c.right)[:160]}")
                    F = c.right[0]
                    kind = c.proj.name
                    msg = None
                    extensive.update({F.name, canonical(world, cx, F)[0]})
                    csites.setdefault(F.name, []).append((c.where.rel, c.where.qual, kind, kind.endswith("_int")))
                    if kind.endswith("_avg"):
                        msg = (f"extensive interface flux {F.name} is projected with {kind}: averaged projections do not preserve the "
                               "total flux (they coincide with _int only on matching grids)")
                    elif F.args and intf is not None and _last_arg(F) != intf:
                        msg = (f"{F.name} is evaluated on `{(_last_arg(F) or '')[:60]}` but the projection is built for `{intf[:60]}`")
                    elif cod is None:
                        raise Undecided(f"{c.where.rel}:{c.where.qual}: cannot determine the codimension of the interfaces of `{recv[:80]}`")
                    elif cod == [1]:
                        if kind != "mortar_to_secondary_int":
                            msg = f"codimension-1 interface flux {F.name} enters a source through {kind} (must be mortar_to_secondary_int)"
                        elif c.sign != +1:
                            msg = f"interface flux {F.name} enters the lower-dimensional source with sign - (inflow must be +)"
                    else:
                        want = +1 if kind == "mortar_to_secondary_int" else -1
                        if c.sign != want:
                            msg = (f"well flux {F.name} through {kind} has sign {'+' if c.sign > 0 else '-'}: wells must enter as "
                                   "+ mortar_to_secondary_int - mortar_to_primary_int")
                    if (c.where.rel, c.where.qual, _fmt(c)) not in seen_r3 or msg:
                        seen_r3.add((c.where.rel, c.where.qual, _fmt(c)))
                        ctx.check("R3", msg is None, c.where.rel, c.where.qual, c.proj.node,
                                  msg or f"{'+' if c.sign > 0 else '-'} {kind} @ {F.name}(..) on codim {cod}",
                                  construct=f"source term {_fmt(c)}", facts={"context": cx, "codims": cod, "interfaces": intf})
                    if cod == [1] and kind.startswith("mortar_to_secondary"):
                        src_set[canonical(world, cx, F)] = c
                if cod is not None and cod != [1]:
                    sec = sorted(c.right[0].text for c in cs if c.proj.name.startswith("mortar_to_secondary"))
                    pri = sorted(c.right[0].text for c in cs if c.proj.name.startswith("mortar_to_primary"))
                    k = (cs[0].where.rel, cs[0].where.qual, "pair", tuple(sec), tuple(pri))
                    if k not in seen_r3 or sec != pri:
                        seen_r3.add(k)
                        ctx.check("R3", sec == pri, cs[0].where.rel, cs[0].where.qual, cs[0].proj.node,
                                  "every well flux must be added on its secondary side and removed on its primary side "
                                  f"(secondary: {[s[:50] for s in sec]}, primary: {[s[:50] for s in pri]})",
                                  construct=f"well pair secondary={sec} primary={pri}", facts={"context": cx})

            # ---- R4 / R6: flux side -------------------------------------------------------------------
            flx_set: dict[tuple, Coupling] = {}
            local_coeff: dict[tuple, list[Coupling]] = {}
            _multiplicity(ctx, "R4", [c for c in fx.couplings if c.left and c.left[-1].kind == "call"], seen_r4, cx, "face flux")
            for c in fx.couplings:
                if "buoyancy" in c.where.fn.name:
                    continue  # R7
                if len(c.right) != 1 or c.right[0].kind != "selfcall":
                    raise Undecided(f"{c.where.rel}:{c.where.qual}: projected quantity is not a single interface-flux call: "
                                    f"{' @ '.join(a.text for a in c.right)[:160]}")
                F = c.right[0]
                kind = c.proj.name
                intf = _intf_arg_of_proj(c.proj)
                L = c.left[-1] if c.left else None
                msg = None
                local = False
                if kind.endswith("_avg"):
                    msg = f"extensive interface flux {F.name} is projected to the faces with {kind} (must be mortar_to_primary_int)"
                elif not kind.startswith("mortar_to_primary"):
                    msg = f"interface flux {F.name} enters a face flux through {kind} (must be mortar_to_primary_int)"
                elif F.args and intf is not None and _last_arg(F) != intf:
                    msg = f"{F.name} is evaluated on `{(_last_arg(F) or '')[:60]}` but the projection is built for `{intf[:60]}`"
                elif L is None:
                    raise Undecided(f"{c.where.rel}:{c.where.qual}: projected interface flux without a boundary discretisation factor")
                elif L.kind == "call" and L.name in NEUMANN_SLOTS:
                    if c.sign != +1:
                        msg = f"{L.name} @ {kind} @ {F.name} enters the face flux with sign - (must be +; the sign convention lives in {L.name})"
                elif L.kind == "call" and L.name in NOT_NEUMANN:
                    msg = f"projected interface flux {F.name} is multiplied by {L.name}(), which is not the Neumann (prescribed-flux) slot"
                elif L.kind in ("item", "name", "call", "other", "opaque"):
                    local = True
                else:
                    raise Undecided(f"{c.where.rel}:{c.where.qual}: unclassified factor `{L.text[:80]}` in front of the projection")
                if local:
                    local_coeff.setdefault((c.where.rel, c.where.qual, "interface flux"), []).append(c)
                else:
                    k = (c.where.rel, c.where.qual, _fmt(c))
                    if k not in seen_r4 or msg:
                        seen_r4.add(k)
                        ctx.check("R4", msg is None, c.where.rel, c.where.qual, c.proj.node,
                                  msg or f"+ {L.name} @ {kind} @ {F.name}(..)", construct=f"flux term {_fmt(c)}",
                                  facts={"context": cx, "interfaces": intf})
                extensive.update({F.name, canonical(world, cx, F)[0]})
                csites.setdefault(F.name, []).append((c.where.rel, c.where.qual, kind, kind.endswith("_int")))
                if msg is None and kind == "mortar_to_primary_int":
                    flx_set[canonical(world, cx, F)] = c
            for (rel, qual, _), cs in local_coeff.items():
                ext_only = [any(a.kind == "item" and a.origin == "external_boundary_filters" for a in c.left) for c in cs]
                k = (rel, qual)
                if k in seen_r6:
                    continue
                seen_r6.add(k)
                ok = not all(ext_only)
                ctx.check("R6", ok, rel, qual, cs[0].proj.node,
                          "the projected interface flux is multiplied by a coefficient every term of which is filtered to *external* "
                          "boundary faces (external_boundary_filters): it vanishes on internal (fracture) faces, so the interface "
                          "flux leaves the lower-dimensional source but never the higher-dimensional face flux",
                          construct=("coefficient of mortar_to_primary_int() @ <interface flux>: every term carries an external_boundary_filters "
                                     f"factor {sorted({a.name for c in cs for a in c.left if a.kind == 'item' and a.origin == 'external_boundary_filters'})}")
                          if not ok else "coefficient of mortar_to_primary_int() @ <interface flux> has an internal-boundary term",
                          facts={"terms": [_fmt(c) for c in cs][:12], "context": cx})

            # ---- R5: duality ---------------------------------------------------------------------------
            for key in sorted(set(src_set) | set(flx_set)):
                in_s, in_f = key in src_set, key in flx_set
                c = src_set.get(key) or flx_set.get(key)
                lacking = fx if in_s and not in_f else sx if in_f and not in_s else None
                if lacking is not None and ({key[0], c.right[0].name} & lacking.loose):
                    raise Undecided(f"{md.rel}:{where_q}: {key[0]} occurs on the {'face-flux' if lacking is fx else 'source'} side only as "
                                    "a factor of a product without a recognisable mortar projection (unknown idiom)")
                ctx.check("R5", in_s and in_f, md.rel, where_q, c.proj.node,
                          (f"interface flux {key[0]}{list(key[1]) if key[1] else ''} is projected into the "
                           f"{'source' if in_s else 'face flux'} ({c.where.qual}) but not into the "
                           f"{'face flux' if in_s else 'source'} of the same balance: what leaves one side never arrives on the other")
                          if not (in_s and in_f) else f"{key[0]} appears on both sides",
                          construct=f"{where_q}: duality of {key[0]}{list(key[1]) if key[1] else ''}",
                          facts={"source_side": sorted(k[0] for k in src_set), "flux_side": sorted(k[0] for k in flx_set), "context": cx})

            for (a, alts) in fx.alt_mismatch + sx.alt_mismatch:
                ctx.check("R5", False, md.rel, where_q, a.node,
                          f"the interchangeable (mixin) definitions of self.{a.name} disagree on the interface fluxes they couple: {alts}; "
                          "with one of them the flux leaves the source side only",
                          construct=f"alternatives of {a.name}: {alts}", facts={"context": cx})

            # ---- R7b: buoyancy flux <-> jump ------------------------------------------------------------
            bf = {a.name for (s, a, cnd, w) in fx.opaque if a.name.endswith("_buoyancy")} | \
                 {c.where.fn.name for c in fx.couplings if c.where.fn.name.endswith("_buoyancy")}
            bs = {a.name[:-len("_jump")] for (s, a, cnd, w) in sx.opaque if a.name.endswith("_buoyancy_jump")} | \
                 {c.where.fn.name[:-len("_jump")] for c in sx.couplings if c.where.fn.name.endswith("_buoyancy_jump")}
            neg = [a.name for (s, a, cnd, w) in fx.opaque + sx.opaque if "buoyancy" in a.name and s < 0]
            if bf or bs:
                ctx.check("R7", bf == bs and not neg, md.rel, where_q, call,
                          f"buoyancy flux terms {sorted(bf)} on the flux side must be matched by their *_jump on the source side "
                          f"({sorted(bs)}), both added with +", construct=f"{where_q}: buoyancy flux/jump pairing",
                          facts={"flux": sorted(bf), "source": sorted(bs)})

    _r7_buoyancy(ctx, world)
    _r8_sweep(ctx, extensive, world, csites)


def _r8_sweep(ctx: Ctx, extensive: set, world: World, csites: dict) -> None:
    """Wherever one of the extensive interface / well fluxes found in the balances is projected by a
    mortar_to_* matrix, the projection is an integrated one.  Decided on the normal form of every expression a
    function returns (locals substituted, sums distributed), so temporaries and regrouping do not matter.
    One passing obligation per flux (all its projection sites), one finding per offending site.
    quick: anchored modules; thorough: all of src/porepy/models, examples, applications."""
    if not extensive:
        raise AnchorError("no extensive interface flux identified in the balances")
    rels = list(WORLD)
    if ctx.tier == "thorough":
        for sub in ("src/porepy/models", "src/porepy/examples", "src/porepy/applications"):
            rels += [r for r in ctx.repo.all_py(sub) if r not in rels]
    sites: dict[str, list] = {k: list(v) for k, v in csites.items()}   # _avg couplings were already reported by R3/R4
    reported: set = set()
    for rel in rels:
        m = ctx.repo.module(rel)
        consts = world.consts(rel)
        for q, fn in m.functions():
            if not any(isinstance(n, ast.Attribute) and n.attr in PROJ_TO_GRID for n in ast.walk(fn)):
                continue
            env = {k: v for k, v in consts.items() if k not in {a.arg for a in fn.args.args}}
            ex = symexec(fn, env)
            exprs = [e for _, e in ex.returns] + [e for lst in ex.appended.values() for _, e in lst]
            for e in exprs:
                for root in _arith_roots(e):
                    for t in normalise(root):
                        for i, a in enumerate(t.factors):
                            if a.kind != "proj" or a.name not in PROJ_TO_GRID:
                                continue
                            names = set()
                            for r_ in t.factors[i + 1:]:
                                if r_.kind == "selfcall":
                                    names.add(r_.name)
                                if r_.node is not None:
                                    for c in [n for n in ast.walk(r_.node) if isinstance(n, ast.Call)]:
                                        if isinstance(c.func, ast.Attribute) and isinstance(c.func.value, ast.Name) and c.func.value.id == "self":
                                            names.add(c.func.attr)
                            for fx in sorted(names & extensive):
                                ok = a.name.endswith("_int")
                                sites.setdefault(fx, []).append((rel, q, a.name, ok))
                                if not ok and (rel, q, a.name, fx) not in reported:
                                    reported.add((rel, q, a.name, fx))
                                    ctx.check("R8", False, m, q, fn,
                                              f"extensive flux {fx} is projected with {a.name}: only integrated projections preserve totals "
                                              "(averaged ones coincide with them on matching grids only)",
                                              construct=f"{a.name}() @ {fx}", facts={"flux": fx})
    for fx in sorted(sites):
        good = sorted({f"{q}:{p}" for (rel, q, p, ok) in sites[fx] if ok})
        if all(ok for (_, _, _, ok) in sites[fx]):
            ctx.check("R8", True, WORLD[1], "<sweep>", None, f"every projection of {fx} is integrated ({len(good)} sites)",
                      construct=f"projections of {fx}", facts={"sites": good})
    missing = sorted(extensive - set(sites))
    if missing:
        ctx.note(f"R8: no direct projection site for {missing} (reached only through callable parameters / getattr; covered by R3/R4)")


def _arith_roots(e: ast.expr) -> list:
    """Maximal arithmetic sub-expressions of e (also inside call arguments and the executor's markers)."""
    roots = []

    def visit(n, parent_arith: bool):
        is_arith = isinstance(n, (ast.BinOp, ast.UnaryOp))
        if is_arith and not parent_arith:
            roots.append(n)
        for ch in ast.iter_child_nodes(n):
            visit(ch, is_arith)
    visit(e, False)
    return roots


def _multiplicity(ctx: Ctx, rule: str, couplings: list, seen: set, cx: str, side: str) -> None:
    """An interface flux must be projected into one expression exactly once per assembling method
    (a second copy doubles the transfer on one side only)."""
    from collections import Counter
    cnt: Counter = Counter()
    first: dict = {}
    for c in couplings:
        if "buoyancy" in c.where.fn.name:
            continue
        k = (c.where.rel, c.where.qual, c.sign, tuple(a.text for a in c.left), c.proj.text, tuple(a.text for a in c.right), c.conds)
        cnt[k] += 1
        first.setdefault(k, c)
    for k, n in cnt.items():
        if n > 1:
            c = first[k]
            kk = (k[0], k[1], "mult", _fmt(c))
            if kk in seen:
                continue
            seen.add(kk)
            ctx.check(rule, False, c.where.rel, c.where.qual, c.proj.node,
                      f"the same projected interface flux term occurs {n} times in the {side} assembled by {c.where.qual}",
                      construct=f"{n} x {_fmt(c)}", facts={"context": cx})


def _r7_buoyancy(ctx: Ctx, world: World) -> None:
    """__entity_buoyancy_flux / __entity_buoyancy_jump project the same interface coupling expression."""
    owner = None
    for cname, (rel, cd) in world.classes.items():
        mm = methods(cd)
        f = [n for n in mm if n.endswith("entity_buoyancy_flux")]
        j = [n for n in mm if n.endswith("entity_buoyancy_jump")]
        if f and j:
            owner = (rel, cd, mm[f[0]], mm[j[0]])
    if owner is None:
        raise AnchorError(f"{FPL}: *entity_buoyancy_flux / *entity_buoyancy_jump pair not found")
    rel, cd, ffn, jfn = owner

    def couplings(fn):
        ex = symexec(fn, dict(world.consts(rel)))
        ret_names = set()
        for r in [n for n in walk_local(fn) if isinstance(n, ast.Return) and isinstance(n.value, ast.Name)]:
            ret_names.add(r.value.id)
        out = []
        for name in ret_names:
            for conds, e in ex.appended.get(name, []):
                for t in normalise(e):
                    pr = [i for i, a in enumerate(t.factors) if a.kind == "proj" and a.name in PROJ_TO_GRID]
                    if len(pr) == 1:
                        i = pr[0]
                        out.append((t.sign, t.factors[:i], t.factors[i], t.factors[i + 1:], conds))
                    elif pr:
                        raise Undecided(f"{rel}:{cd.name}.{fn.name}: several projections in one term")
        return out

    cf, cj = couplings(ffn), couplings(jfn)
    if not cf or not cj:
        raise AnchorError(f"{rel}: no projected interface coupling found in {ffn.name} / {jfn.name}")
    qf, qj = f"{cd.name}.{ffn.name}", f"{cd.name}.{jfn.name}"
    badf = [c for c in cf if c[2].name != "mortar_to_primary_int" or not c[1] or c[1][-1].name not in NEUMANN_SLOTS or c[0] != 1]
    ctx.check("R7", not badf, rel, qf, cf[0][2].node,
              "buoyancy interface coupling must enter the face flux as + bound_transport_neu() @ mortar_to_primary_int() @ coupling",
              construct="buoyancy flux: projection of the interface coupling",
              facts={"terms": sorted({("+" if c[0] > 0 else "-") + " @ ".join(a.name for a in c[1] + (c[2],)) for c in cf})})
    badj = [c for c in cj if c[2].name != "mortar_to_secondary_int" or c[1] or c[0] != 1]
    ctx.check("R7", not badj, rel, qj, cj[0][2].node,
              "buoyancy interface coupling must enter the jump (source) as + mortar_to_secondary_int() @ coupling",
              construct="buoyancy jump: projection of the interface coupling",
              facts={"terms": sorted({("+" if c[0] > 0 else "-") + " @ ".join(a.name for a in c[1] + (c[2],)) for c in cj})})

    def strip_recv(a: Atom) -> str:
        return a.text

    sf = sorted((c[0], tuple(strip_recv(a) for a in c[3])) for c in cf)
    sj = sorted((c[0], tuple(strip_recv(a) for a in c[3])) for c in cj)
    same = sf == sj and {c[2].recv for c in cf} == {c[2].recv for c in cj} and {c[4] for c in cf} == {c[4] for c in cj}
    ctx.check("R7", same, rel, qj, cj[0][2].node,
              "the interface coupling projected to the higher-dimensional faces (flux) and to the lower-dimensional cells (jump) "
              "must be the same expression, on the same projection object, under the same condition",
              construct="buoyancy flux/jump project the same interface coupling",
              facts={"n_terms_flux": len(sf), "n_terms_jump": len(sj),
                     "only_in_flux": [" @ ".join(x[1])[:200] for x in sf if x not in sj][:3],
                     "only_in_jump": [" @ ".join(x[1])[:200] for x in sj if x not in sf][:3]})


# ========================================================================================
# mutants
# ========================================================================================

def _m(name, file, old, new, rule, control=False, count=1):
    return dict(name=name, file=file, old=old, new=new, rule=rule, control=control, count=count)


MUTANTS = [
    # DESIGN section 9
    _m("fluid-source-int-to-avg", FMB, "source = projection.mortar_to_secondary_int() @ self.interface_fluid_flux(",
       "source = projection.mortar_to_secondary_avg() @ self.interface_fluid_flux(", "R3", control=True),
    _m("balance-plus-source", ABS, "return dt_operator(accumulation, dt) + div @ surface_term - source",
       "return dt_operator(accumulation, dt) + div @ surface_term + source", "R1", control=True),
    _m("energy-source-projects-darcy-flux", EB, "flux = self.interface_enthalpy_flux(interfaces) + self.interface_fourier_flux(\n            interfaces\n        )",
       "flux = self.interface_enthalpy_flux(interfaces) + self.interface_darcy_flux(\n            interfaces\n        )", "R5"),
    # own
    _m("fluid-source-from-darcy-flux", FMB, "source = projection.mortar_to_secondary_int() @ self.interface_fluid_flux(",
       "source = projection.mortar_to_secondary_int() @ self.interface_darcy_flux(", "R5"),
    _m("well-flux-sign", FMB, ") - well_projection.mortar_to_primary_int() @ self.well_fluid_flux(",
       ") + well_projection.mortar_to_primary_int() @ self.well_fluid_flux(", "R3"),
    _m("well-both-secondary", CF, "            - well_projection.mortar_to_primary_int()\n            @ self.well_component_flux(component, well_interfaces)",
       "            - well_projection.mortar_to_secondary_int()\n            @ self.well_component_flux(component, well_interfaces)", "R3"),
    _m("well-flux-on-codim1-projection", EB, "            well_projection.mortar_to_secondary_int()\n            @ self.well_enthalpy_flux(well_interfaces)",
       "            projection.mortar_to_secondary_int()\n            @ self.well_enthalpy_flux(well_interfaces)", "R3"),
    _m("energy-source-drops-fourier", EB, "flux = self.interface_enthalpy_flux(interfaces) + self.interface_fourier_flux(\n            interfaces\n        )",
       "flux = self.interface_enthalpy_flux(interfaces)", "R5"),
    _m("advective-flux-primary-avg", CL, "                @ mortar_projection.mortar_to_primary_int()\n                @ interface_flux(interfaces)",
       "                @ mortar_projection.mortar_to_primary_avg()\n                @ interface_flux(interfaces)", "R4"),
    _m("advective-flux-dirichlet-slot", CL, "                discr.bound_transport_neu()\n                @ mortar_projection.mortar_to_primary_int()",
       "                discr.bound_transport_dir()\n                @ mortar_projection.mortar_to_primary_int()", "R4"),
    _m("fourier-flux-minus-interface", CL, "                boundary_operator_fourier\n                + projection.mortar_to_primary_int()",
       "                boundary_operator_fourier\n                - projection.mortar_to_primary_int()", "R4"),
    _m("time-increment-reversed", TD, "    return op - op.previous_timestep()", "    return op.previous_timestep() - op", "R1"),
    _m("energy-balance-args-swapped", EB, "eq = self.balance_equation(subdomains, accumulation, flux, source, dim=1)",
       "eq = self.balance_equation(subdomains, accumulation, source, flux, dim=1)", "R2"),
    _m("massic-interface-flux-forwards-well-flux", CF,
       "        return self.interface_darcy_flux(interfaces)\n\n    def well_fluid_flux", "        return self.well_flux(interfaces)\n\n    def well_fluid_flux", "R5"),
    _m("component-flux-couples-total-flux", CF, "                partial(self.interface_component_flux, component),\n            ),\n        )\n        flux.set_name(f\"component_flux_",
       "                self.interface_fluid_flux,\n            ),\n        )\n        flux.set_name(f\"component_flux_", "R5"),
    _m("fluid-flux-couples-darcy-flux", FMB, "            self.boundary_fluid_flux(domains),\n            self.interface_fluid_flux,\n",
       "            self.boundary_fluid_flux(domains),\n            self.interface_darcy_flux,\n", "R5"),
    _m("fourier-flux-drops-interface-term", CL, "                boundary_operator_fourier\n                + projection.mortar_to_primary_int()\n                @ self.interface_fourier_flux(interfaces)\n",
       "                boundary_operator_fourier\n", "R5"),
    _m("cf-energy-source-without-super", CF, "        source = super().energy_source(subdomains)\n", "        source = pp.ad.Scalar(0.0) * self.enthalpy_buoyancy_jump(subdomains)\n", "R5"),
    _m("fluid-source-doubled", FMB, '        source.set_name("interface_fluid_flux_source")', '        source += source\n        source.set_name("interface_fluid_flux_source")', "R3"),
    _m("pressure-trace-projects-flux-avg", CL, "                projection.mortar_to_primary_int()\n                @ self.interface_darcy_flux(interfaces)",
       "                projection.mortar_to_primary_avg()\n                @ self.interface_darcy_flux(interfaces)", "R8"),
    _m("buoyancy-jump-other-coupling", FPL,
       "            interface_coupling_intf = (\n                gamma_interface * delta_interface\n            ) * intf_w_flux_gamma_delta\n            b_flux_jump_gamma_delta",
       "            interface_coupling_intf = (\n                gamma_interface * gamma_interface\n            ) * intf_w_flux_gamma_delta\n            b_flux_jump_gamma_delta", "R7"),
    _m("buoyancy-jump-avg", FPL, "                mortar_projection.mortar_to_secondary_int() @ interface_coupling_intf",
       "                mortar_projection.mortar_to_secondary_avg() @ interface_coupling_intf", "R7"),
    _m("component-source-drops-buoyancy-jump", CF, "            source += self.component_buoyancy_jump(component, subdomains)",
       "            pass", "R7"),
]
