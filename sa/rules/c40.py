"""C40 - tensors: symmetric off-diagonal stores, symmetric literal basis matrices, copy()
freshness and component agreement, restrict_to_cells completeness, rotation contraction pattern."""
from __future__ import annotations

import ast

from ..core.astutil import (u, dotted, walk_local, calls_in, call_name, kwarg, methods, names_in, stmts_local,
                            assigned_targets, body_nodoc, inline_locals, single_assign_value)
from ..core.loader import AnchorError, Undecided
from ..core.report import Ctx
from .c36 import Normalizer  # refactoring-tolerant normalisation (helper inlining, alias/constant propagation, idioms)

TEN = "src/porepy/params/tensor.py"

META = {
    "explanation": (
        "Structural analysis of params/tensor.py. R1: in SecondOrderTensor.__init__ the last store into each off-diagonal "
        "entry (i, j) of the array that becomes self.values has the same right-hand side as the last store into (j, i), with "
        "no re-binding of that right-hand side between the two stores. R2: every literal basis matrix in "
        "FourthOrderTensor.__init__ (ast.literal_eval) is symmetric (major symmetry C_ijkl = C_klij) and has equal rows/"
        "columns for the index pairs (i,j)/(j,i) (minor symmetry). R3 copy(): constructor parameters that __init__ keeps by "
        "reference (self.X = p, setattr(self, k, p)) receive fresh arrays in copy() (X.copy(), np.array/np.copy, deepcopy, "
        "arithmetic), taken from the attribute that stores that parameter; anything copy() assigns on the new object is "
        "fresh; the basis matrices shared through _other_matrices are never written in place; every extra field is passed "
        "on; for SecondOrderTensor each constructor argument is read from a component (i, j) that __init__ writes that very "
        "parameter to, and every parameter is passed. R4 restrict_to_cells: works on self.copy(), restricts every name in "
        "constitutive_parameters on axis 0 and values on the last axis with the `cells` argument, returns the copy; every "
        "per-cell array FourthOrderTensor.__init__ stores is listed in constitutive_parameters. R5 rotate: index calculus "
        "over the nested np.tensordot / np.einsum shows the result is K' = R K R^T (both R factors contracted through their "
        "column index with the two tensor indices of K, up to a transposition that is immaterial for symmetric K); R^T K R "
        "(the inverse rotation: x^T K x != (Rx)^T K' (Rx)) and mixed contractions are findings. Not decided: numerical "
        "eigenvalue preservation, positive-definiteness guards, user-supplied other_fields matrices."),
    "rule_text": "one obligation per (off-diagonal pair | literal matrix x symmetry | constructor argument | stored object | restriction step | contraction)",
    "trusted_base": ["python ast / ast.literal_eval", "sa.core (loader, astutil)", "numpy semantics of basic-index stores, tensordot axes"],
    "assumptions": ["X.copy(), np.array(X), np.copy(X), copy.deepcopy(X) and arithmetic results do not share memory with X",
                    "storing into a slice of a freshly allocated array copies the data",
                    "tensor attributes are only assigned inside the class bodies analysed"],
    "technique": "AST normalisation (one-level helper inlining, copy propagation, loop->comprehension); last-store table per matrix entry; literal evaluation; by-reference parameter analysis; Einstein-index calculus for tensordot/einsum",
}
MIN_INSTANCES = {"R1": 3, "R2": 4, "R3": 14, "R4": 8, "R5": 1}


def _params(fn) -> list[str]:
    a = fn.args
    return [x.arg for x in a.posonlyargs + a.args + a.kwonlyargs]


# ----------------------------------------------------------------------------------------
# fresh / by-reference classification
# ----------------------------------------------------------------------------------------

def _fresh_source(e: ast.expr):
    """-> (is_fresh, inner expression the data comes from)."""
    if isinstance(e, ast.Call):
        if isinstance(e.func, ast.Attribute) and e.func.attr == "copy" and not e.args:
            return True, e.func.value
        if dotted(e.func) in ("np.array", "np.copy", "numpy.array", "numpy.copy", "copy.deepcopy", "copy.copy") and e.args:
            cp = kwarg(e, "copy")
            if cp is not None and isinstance(cp, ast.Constant) and cp.value is False:
                return False, e.args[0]
            return True, e.args[0]
        if dotted(e.func) in ("np.asarray", "np.atleast_1d", "np.ravel") and e.args:
            return False, e.args[0]
        if call_name(e) == "cast" and len(e.args) == 2:
            return _fresh_source(e.args[1])
    if isinstance(e, (ast.BinOp, ast.UnaryOp)):
        return True, e
    return False, e


def _self_attr(e: ast.expr) -> str | None:
    if isinstance(e, ast.Attribute) and isinstance(e.value, ast.Name) and e.value.id == "self":
        return e.attr
    if isinstance(e, ast.Call) and isinstance(e.func, ast.Name) and e.func.id == "getattr" and len(e.args) == 2 and u(e.args[0]) == "self":
        return f"<getattr:{u(e.args[1])}>"
    return None


def _ctor_args(call: ast.Call, init) -> dict[str, ast.expr]:
    ps = _params(init)[1:]
    out: dict[str, ast.expr] = {}
    for i, a in enumerate(call.args):
        if isinstance(a, ast.Starred) or i >= len(ps):
            raise Undecided("constructor call with *args")
        out[ps[i]] = a
    for k in call.keywords:
        if k.arg is None:
            raise Undecided("constructor call with **kwargs")
        out[k.arg] = k.value
    return out


def _find_ctor(fn, clsname: str):
    """-> (bound name or None, call)."""
    for s in stmts_local(fn):
        v = getattr(s, "value", None)
        if isinstance(s, (ast.Assign, ast.AnnAssign)) and isinstance(v, ast.Call) and (u(v.func) in (clsname, "type(self)", "self.__class__")):
            t = assigned_targets(s)
            if len(t) == 1 and isinstance(t[0], ast.Name):
                return t[0].id, v
        if isinstance(s, ast.Return) and isinstance(v, ast.Call) and u(v.func) in (clsname, "type(self)", "self.__class__"):
            return None, v
    return None


# ----------------------------------------------------------------------------------------

def run(ctx: Ctx) -> None:
    mod = ctx.repo.module(TEN)
    T, S2, S4 = mod.cls("Tensor"), mod.cls("SecondOrderTensor"), mod.cls("FourthOrderTensor")
    norm = Normalizer(mod)
    # methods as deep copies with private helpers inlined (one level), aliases / constants propagated, tuple and
    # chained assignments split, list/dict building loops turned into comprehensions
    M = {c.name: norm.methods(c, inline=True) for c in (T, S2, S4)}
    stores2 = _r1_symmetric_stores(ctx, mod, M["SecondOrderTensor"])
    _r2_literals(ctx, mod, S4)
    _r3_copy_second(ctx, mod, M["SecondOrderTensor"], stores2)
    _r3_copy_fourth(ctx, mod, M["FourthOrderTensor"], S4)
    _r4_restrict(ctx, mod, M["Tensor"], M["FourthOrderTensor"])
    _r5_rotate(ctx, mod, M["SecondOrderTensor"])


# ---------------- R1 ---------------------------------------------------------------------------

def _const_int(e: ast.expr):
    return e.value if isinstance(e, ast.Constant) and isinstance(e.value, int) and not isinstance(e.value, bool) else None


def _r1_symmetric_stores(ctx: Ctx, mod, m2) -> dict[tuple[int, int], str]:
    init = m2.get("__init__")
    if init is None:
        raise AnchorError(f"{TEN}:SecondOrderTensor.__init__ missing")
    q = "SecondOrderTensor.__init__"
    vals = [s for s in stmts_local(init) if isinstance(s, ast.Assign) and any(u(t) == "self.values" for t in s.targets)]
    if len(vals) != 1 or not isinstance(vals[0].value, ast.Name):
        raise Undecided(f"{q}: self.values is not assigned once from a local array")
    arr = vals[0].value.id
    alloc = single_assign_value(init, arr)
    fresh = isinstance(alloc, ast.Call) and call_name(alloc) in ("zeros", "empty", "ones", "full") and arr not in _params(init)
    if not fresh:
        raise Undecided(f"{q}: `{arr}` is not a freshly allocated array")
    body = body_nodoc(init)
    final: dict[tuple[int, int], tuple[str, int]] = {}
    for pos, s in enumerate(body):
        inner = [x for x in ast.walk(s) if isinstance(x, (ast.Assign, ast.AugAssign)) for t in assigned_targets(x)
                 if isinstance(t, ast.Subscript) and u(t.value) == arr]
        if not inner:
            continue
        if not (isinstance(s, ast.Assign) and set(map(id, inner)) == {id(s)}
                and all(isinstance(t, ast.Subscript) and u(t.value) == arr for t in s.targets)):
            raise Undecided(f"{q}: conditional/augmented store into `{arr}`: {u(s)[:70]}")
        for tgt in s.targets:   # chained assignment: every target receives the same right-hand side
            sl = tgt.slice
            elts = sl.elts if isinstance(sl, ast.Tuple) else [sl]
            if len(elts) < 2 or _const_int(elts[0]) is None or _const_int(elts[1]) is None:
                raise Undecided(f"{q}: store `{u(s)}` does not address one (i, j) entry")
            if any(not (isinstance(e, ast.Slice) and e.lower is None and e.upper is None) for e in elts[2:]):
                raise Undecided(f"{q}: store `{u(s)}` addresses a subset of the cells")
            final[(elts[0].value, elts[1].value)] = (u(s.value), pos)
    offd = sorted({tuple(sorted(k)) for k in final if k[0] != k[1]})
    if not offd:
        raise AnchorError(f"{q}: no off-diagonal stores found")
    for i, j in offd:
        a, b = final.get((i, j)), final.get((j, i))
        if a is None or b is None:
            have = (i, j) if a is not None else (j, i)
            miss = (j, i) if a is not None else (i, j)
            ctx.check("R1", False, mod, q, init,
                      f"{arr}[{have[0]}, {have[1]}] is set to {final[have][0]} but {arr}[{miss[0]}, {miss[1]}] is never written "
                      f"(stays 0): the tensor is not symmetric", construct=f"{arr}[{i},{j}] / {arr}[{j},{i}]: one side missing")
            continue
        ok = a[0] == b[0]
        if ok:
            lo, hi = sorted((a[1], b[1]))
            rhs_names = {n.id for n in ast.walk(ast.parse(a[0], mode="eval")) if isinstance(n, ast.Name)}
            between = [s for s in body[lo + 1:hi] for x in ast.walk(s) if isinstance(x, ast.stmt)
                       for t in assigned_targets(x) if isinstance(t, ast.Name) and t.id in rhs_names]
            if between:
                raise Undecided(f"{q}: `{a[0]}` is re-bound between the stores into ({i},{j}) and ({j},{i})")
        ctx.check("R1", ok, mod, q, body[a[1]],
                  f"{arr}[{i}, {j}] = {a[0]} but {arr}[{j}, {i}] = {b[0]}: off-diagonal entries must be stored in transposed pairs "
                  f"with the same right-hand side", construct=f"{arr}[{i},{j}]={a[0]} / {arr}[{j},{i}]={b[0]}",
                  desc=f"{arr}[{i},{j}] and {arr}[{j},{i}] receive the same right-hand side ({a[0]})")
    ctx.sample({"rule": "R1", "final_stores": {f"{k[0]},{k[1]}": v[0] for k, v in sorted(final.items())}})
    return {k: v[0] for k, v in final.items()}


# ---------------- R2 ---------------------------------------------------------------------------

def _r2_literals(ctx: Ctx, mod, S4) -> None:
    init = methods(S4).get("__init__")
    if init is None:
        raise AnchorError(f"{TEN}:FourthOrderTensor.__init__ missing")
    n = 0
    quals = {id(node): qn for qn, node in mod.qualnames().items()}
    # literal square matrices: in __init__, or moved to class / module level
    owners: list[tuple[str, ast.stmt]] = []
    for scope, qn in [(mod.tree, "<module>")] + [(node, qn) for qn, node in mod.qualnames().items()]:
        body = getattr(scope, "body", [])
        for s in (stmts_local(scope) if isinstance(scope, ast.FunctionDef) else body):
            if isinstance(s, (ast.Assign, ast.AnnAssign)) and isinstance(getattr(s, "value", None), ast.Call):
                owners.append((qn, s))
    seen = set()
    for q, s in owners:
        if id(s) in seen:
            continue
        seen.add(id(s))
        c = s.value
        if not (dotted(c.func) in ("np.array", "numpy.array", "np.asarray") and c.args and isinstance(c.args[0], ast.List)):
            continue
        try:
            M = ast.literal_eval(c.args[0])
        except (ValueError, SyntaxError):
            continue  # not a pure literal
        if not (M and all(isinstance(r, list) and len(r) == len(M) for r in M)):
            continue  # not a square matrix
        name = u(assigned_targets(s)[0])
        n += 1
        N = len(M)
        asym = [(i, j) for i in range(N) for j in range(i + 1, N) if M[i][j] != M[j][i]]
        ctx.check("R2", not asym, mod, q, s,
                  f"basis matrix {name} is not symmetric at {asym[:4]} (major symmetry C_ijkl = C_klij of the stiffness tensor)",
                  construct=f"{name}: major symmetry" + ("" if not asym else f" broken at {asym[:4]}"),
                  desc=f"literal basis matrix {name} ({N}x{N}) is symmetric")
        d = round(N ** 0.5)
        if d * d == N:
            bad = []
            for i in range(d):
                for j in range(i + 1, d):
                    p, r = d * i + j, d * j + i
                    if M[p] != M[r] or [row[p] for row in M] != [row[r] for row in M]:
                        bad.append((p, r))
            ctx.check("R2", not bad, mod, q, s,
                      f"basis matrix {name}: rows/columns of the index pairs {bad[:3]} differ (minor symmetry C_ijkl = C_jikl = C_ijlk)",
                      construct=f"{name}: minor symmetry" + ("" if not bad else f" broken at {bad[:3]}"),
                      desc=f"literal basis matrix {name} has the minor symmetries")
        ctx.sample({"rule": "R2", "matrix": name, "size": N})
    if n < 2:
        raise AnchorError(f"{TEN}: literal basis matrices of the fourth order tensor not found")


# ---------------- R3 (second order) ---------------------------------------------------------------

def _component(e: ast.expr):
    """self.values[i, j] (optionally wrapped in a fresh-making call) -> (i, j, fresh)."""
    fresh, inner = _fresh_source(e)
    if isinstance(inner, ast.Subscript) and u(inner.value) == "self.values":
        sl = inner.slice
        elts = sl.elts if isinstance(sl, ast.Tuple) else [sl]
        if len(elts) >= 2 and _const_int(elts[0]) is not None and _const_int(elts[1]) is not None and \
                all(isinstance(x, ast.Slice) and x.lower is None and x.upper is None for x in elts[2:]):
            return elts[0].value, elts[1].value, fresh
    return None


def _byref_params(init) -> dict[str, str]:
    """constructor parameter -> attribute it is kept in by reference (`self.X = p`)."""
    ps = _params(init)[1:]
    out = {}
    for s in stmts_local(init):
        if isinstance(s, (ast.Assign, ast.AnnAssign)) and getattr(s, "value", None) is not None:
            for t in assigned_targets(s):
                if isinstance(t, ast.Attribute) and u(t.value) == "self" and isinstance(s.value, ast.Name) and s.value.id in ps:
                    out[s.value.id] = t.attr
    return out


def _expand_star_kwargs(mod, fn: ast.FunctionDef, call: ast.Call) -> ast.Call:
    """`Cls(**{name: E(i, j) for name, (i, j) in TABLE.items()})` with a literal TABLE (local or module level)
    -> the equivalent call with one explicit keyword per table row."""
    stars = [k for k in call.keywords if k.arg is None]
    if not stars:
        return call
    if len(stars) != 1:
        raise Undecided("constructor call with several ** arguments")
    d = stars[0].value
    if isinstance(d, ast.Name):
        d = single_assign_value(fn, d.id)
    if not (isinstance(d, ast.DictComp) and len(d.generators) == 1 and not d.generators[0].ifs):
        raise Undecided("constructor call with **kwargs that are not a dict comprehension over a literal table")
    gen = d.generators[0]
    it = gen.iter
    if not (isinstance(it, ast.Call) and call_name(it) == "items" and isinstance(it.func, ast.Attribute)):
        raise Undecided("**kwargs comprehension does not iterate <table>.items()")
    tab = it.func.value
    if isinstance(tab, ast.Name):
        local = single_assign_value(fn, tab.id)
        if local is None:
            defs = [st for st in mod.tree.body if isinstance(st, (ast.Assign, ast.AnnAssign)) and getattr(st, "value", None) is not None
                    and [u(t) for t in assigned_targets(st)] == [tab.id]]
            local = defs[0].value if len(defs) == 1 else None
        tab = local
    if not isinstance(tab, ast.Dict) or not all(isinstance(k, ast.Constant) and isinstance(k.value, str) for k in tab.keys):
        raise Undecided("**kwargs comprehension iterates something that is not a literal table")
    tgt = gen.target
    if not (isinstance(tgt, ast.Tuple) and len(tgt.elts) == 2 and isinstance(tgt.elts[0], ast.Name) and u(d.key) == tgt.elts[0].id):
        raise Undecided("**kwargs comprehension does not use the table key as keyword")
    from ..core.astutil import subst
    kws = [k for k in call.keywords if k.arg is not None]
    for k, v in zip(tab.keys, tab.values):
        vt = tgt.elts[1]
        mapping: dict[str, ast.AST] = {}
        if isinstance(vt, ast.Name):
            mapping[vt.id] = v
        elif isinstance(vt, ast.Tuple) and isinstance(v, ast.Tuple) and len(vt.elts) == len(v.elts) and all(isinstance(x, ast.Name) for x in vt.elts):
            mapping = {x.id: y for x, y in zip(vt.elts, v.elts)}
        else:
            raise Undecided("**kwargs comprehension: table rows do not match the loop target")
        kws.append(ast.keyword(arg=k.value, value=subst(d.value, mapping)))
    new = ast.Call(func=call.func, args=list(call.args), keywords=kws)
    return ast.copy_location(new, call)


def _r3_copy_second(ctx: Ctx, mod, meths, stores2) -> None:
    init, cp = meths["__init__"], meths.get("copy")
    if cp is None:
        raise AnchorError(f"{TEN}:SecondOrderTensor.copy missing")
    q = "SecondOrderTensor.copy"
    byref = _byref_params(init)
    fc = _find_ctor(cp, "SecondOrderTensor")
    if fc is None:
        raise Undecided(f"{q}: constructor call not found")
    new, call = fc
    call = _expand_star_kwargs(mod, cp, call)
    args = _ctor_args(call, init)
    where: dict[str, set] = {}
    for (i, j), rhs in stores2.items():
        where.setdefault(rhs, set()).add((i, j))
    ps = _params(init)[1:]
    ctx.check("R3", not byref, mod, "SecondOrderTensor.__init__", init,
              f"__init__ keeps parameter(s) {sorted(byref)} by reference; copy() must then pass fresh arrays",
              construct="SecondOrderTensor state built from a fresh array" if not byref else f"by-reference parameters {sorted(byref)}",
              desc="SecondOrderTensor.__init__ copies its arguments into a freshly allocated array (no parameter kept by reference)")
    for p in ps:
        if p not in where:
            raise Undecided(f"{q}: __init__ never stores parameter {p} into values")
        e = args.get(p)
        if e is None:
            ctx.check("R3", False, mod, q, call, f"copy() does not pass `{p}`; the copy gets the default instead of the stored component "
                      f"{sorted(where[p])}", construct=f"copy {p} <- missing")
            continue
        e = inline_locals(cp, e, stop={"self"})
        comp = _component(e)
        if comp is None:
            raise Undecided(f"{q}: argument {p}={u(e)} is not a component of self.values")
        i, j, fresh = comp
        ok = (i, j) in where[p] and (fresh or p not in byref)
        ctx.check("R3", ok, mod, q, call,
                  f"copy() passes {p} = {u(e)}; __init__ writes `{p}` to component(s) {sorted(where[p])}"
                  + ("" if fresh or p not in byref else " and keeps it by reference (needs a fresh array)"),
                  construct=f"copy {p} <- values[{i},{j}]" + ("" if fresh else " (not copied)"),
                  desc=f"copy() reads {p} from a component __init__ writes it to")
    # anything assigned on the new object afterwards must be fresh
    if new is not None:
        _post_stores_fresh(ctx, mod, q, cp, new)


def _post_stores_fresh(ctx: Ctx, mod, q, cp, new) -> None:
    for s in stmts_local(cp):
        if isinstance(s, ast.Assign):
            for t in s.targets:
                if isinstance(t, ast.Attribute) and isinstance(t.value, ast.Name) and t.value.id == new:
                    fresh, inner = _fresh_source(inline_locals(cp, s.value, stop={"self"}))
                    src = _self_attr(inner)
                    if not fresh and src is None:
                        raise Undecided(f"{q}: `{u(s)}` assigns something that is neither fresh nor an attribute of self")
                    ctx.check("R3", fresh and (src is None or src == t.attr), mod, q, s,
                              f"copy() sets {new}.{t.attr} = {u(s.value)}: " + ("the new tensor shares this array with the original"
                                                                            if not fresh else f"taken from self.{src}"),
                              construct=u(s), desc=f"{new}.{t.attr} assigned a fresh copy of self.{t.attr}")


# ---------------- R3 (fourth order) -----------------------------------------------------------------

def _extra_fields(init: ast.FunctionDef):
    """How __init__ stores the dict-valued parameter of per-key (matrix, field) pairs:
    -> (dict parameter, key, matrix, field names, attribute holding the matrices, loop)."""
    ps = _params(init)
    loops = []
    for lp in [x for x in stmts_local(init) if isinstance(x, ast.For)]:
        it = lp.iter
        if isinstance(it, ast.Call) and call_name(it) == "items" and isinstance(it.func, ast.Attribute) and isinstance(it.func.value, ast.Name) \
                and it.func.value.id in ps:
            loops.append((lp, it.func.value.id, "items"))
        elif isinstance(it, ast.Name) and it.id in ps:
            loops.append((lp, it.id, "keys"))
        elif isinstance(it, ast.Call) and call_name(it) == "keys" and isinstance(it.func, ast.Attribute) and isinstance(it.func.value, ast.Name) \
                and it.func.value.id in ps:
            loops.append((lp, it.func.value.id, "keys"))
    if len(loops) != 1:
        raise Undecided("FourthOrderTensor.__init__: loop over the extra fields not found")
    loop, dparam, how = loops[0]
    tg = loop.target
    key = mat = field = None
    body = list(loop.body)
    if how == "items" and isinstance(tg, ast.Tuple) and len(tg.elts) == 2 and isinstance(tg.elts[0], ast.Name):
        key = tg.elts[0].id
        second = tg.elts[1]
        if isinstance(second, ast.Tuple) and len(second.elts) == 2 and all(isinstance(x, ast.Name) for x in second.elts):
            mat, field = second.elts[0].id, second.elts[1].id
        elif isinstance(second, ast.Name):
            pair = second.id
            for st in body:   # mat, field = pair   /   mat = pair[0]; field = pair[1]
                if isinstance(st, ast.Assign) and len(st.targets) == 1 and isinstance(st.targets[0], ast.Tuple) and u(st.value) == pair \
                        and len(st.targets[0].elts) == 2 and all(isinstance(x, ast.Name) for x in st.targets[0].elts):
                    mat, field = st.targets[0].elts[0].id, st.targets[0].elts[1].id
                if isinstance(st, ast.Assign) and len(st.targets) == 1 and isinstance(st.targets[0], ast.Name) and isinstance(st.value, ast.Subscript) \
                        and u(st.value.value) == pair and isinstance(st.value.slice, ast.Constant):
                    if st.value.slice.value == 0:
                        mat = st.targets[0].id
                    elif st.value.slice.value == 1:
                        field = st.targets[0].id
    elif how == "keys" and isinstance(tg, ast.Name):
        key = tg.id
        for st in body:       # mat, field = other_fields[key]
            if isinstance(st, ast.Assign) and len(st.targets) == 1 and isinstance(st.targets[0], ast.Tuple) and u(st.value) == f"{dparam}[{key}]" \
                    and len(st.targets[0].elts) == 2 and all(isinstance(x, ast.Name) for x in st.targets[0].elts):
                mat, field = st.targets[0].elts[0].id, st.targets[0].elts[1].id
    if None in (key, mat, field):
        raise Undecided(f"FourthOrderTensor.__init__: loop `for {u(tg)} in {u(loop.iter)}` does not unpack key, (matrix, field)")
    set_field = [c for c in calls_in(loop) if isinstance(c.func, ast.Name) and c.func.id == "setattr" and [u(a) for a in c.args] == ["self", key, field]]
    mats_attr = None
    for st in ast.walk(loop):
        if isinstance(st, ast.Assign) and isinstance(st.targets[0], ast.Subscript) and _self_attr(st.targets[0].value) \
                and u(st.targets[0].slice) == key and u(st.value) == mat:
            mats_attr = _self_attr(st.targets[0].value)          # self.<mats>[key] = mat
        if isinstance(st, ast.Call) and isinstance(st.func, ast.Attribute) and st.func.attr == "update" and _self_attr(st.func.value) \
                and len(st.args) == 1 and isinstance(st.args[0], ast.Dict) and [u(k) for k in st.args[0].keys] == [key] \
                and [u(v) for v in st.args[0].values] == [mat]:
            mats_attr = _self_attr(st.func.value)                  # self.<mats>.update({key: mat})
    if len(set_field) != 1 or mats_attr is None:
        raise Undecided("FourthOrderTensor.__init__: extra fields are not stored as setattr(self, key, field) / self.<mats>[key] = mat")
    return dparam, key, mat, field, mats_attr, loop


def _r3_copy_fourth(ctx: Ctx, mod, meths, S4) -> None:
    init, cp = meths["__init__"], meths.get("copy")
    if cp is None:
        raise AnchorError(f"{TEN}:FourthOrderTensor.copy missing")
    q = "FourthOrderTensor.copy"
    byref = _byref_params(init)
    if not byref:
        raise AnchorError("FourthOrderTensor.__init__: no parameter kept by reference (mu/lmbda expected)")
    fc = _find_ctor(cp, "FourthOrderTensor")
    if fc is None:
        raise Undecided(f"{q}: constructor call not found")
    new, call = fc
    args = _ctor_args(call, init)
    for p, attr in sorted(byref.items()):
        e = args.get(p)
        if e is None:
            ctx.check("R3", False, mod, q, call, f"copy() does not pass `{p}`", construct=f"copy {p} <- missing")
            continue
        e = inline_locals(cp, e, stop={"self"})
        fresh, inner = _fresh_source(e)
        src = _self_attr(inner)
        if src is None and not fresh:
            raise Undecided(f"{q}: argument {p}={u(e)} not recognised")
        if src is None:
            raise Undecided(f"{q}: argument {p}={u(e)} is not taken from an attribute of self")
        ok = fresh and src == attr
        why = ("the copy's " + attr + " is the very array of the original (in-place edits and restrict_to_cells leak)" if not fresh
               else f"taken from self.{src}, but __init__ keeps `{p}` in self.{attr}")
        ctx.check("R3", ok, mod, q, call, f"copy() passes {p} = {u(e)}: {why}",
                  construct=f"copy {p} <- {u(e)}", desc=f"copy() passes a fresh copy of self.{attr} for `{p}`")
    dparam, key, mat, field, mats_attr, _ = _extra_fields(init)
    # copy(): dict built from self.<mats>.items() (comprehension, or a loop filling a local dict)
    d_arg = args.get(dparam)
    if d_arg is None:
        ctx.check("R3", False, mod, q, call, f"copy() does not pass `{dparam}`: the extra constitutive fields are lost",
                  construct=f"copy {dparam} <- missing")
    else:
        node = d_arg
        if isinstance(d_arg, ast.Name):
            node = single_assign_value(cp, d_arg.id)
        it = tgt = kexpr = vexpr = None
        where: ast.AST = call
        if isinstance(node, ast.DictComp) and len(node.generators) == 1 and not node.generators[0].ifs:
            it, tgt, kexpr, vexpr, where = node.generators[0].iter, node.generators[0].target, node.key, node.value, node
        elif isinstance(d_arg, ast.Name):
            dn = d_arg.id
            cl = [x for x in stmts_local(cp) if isinstance(x, ast.For) and any(isinstance(y, ast.Assign) and isinstance(y.targets[0], ast.Subscript)
                                                                            and u(y.targets[0].value) == dn for y in x.body)]
            if len(cl) == 1:
                st = [y for y in cl[0].body if isinstance(y, ast.Assign) and isinstance(y.targets[0], ast.Subscript) and u(y.targets[0].value) == dn]
                if len(st) == 1:
                    it, tgt, kexpr, vexpr, where = cl[0].iter, cl[0].target, st[0].targets[0].slice, st[0].value, st[0]
        if it is None:
            raise Undecided(f"{q}: `{dparam}={u(d_arg)}` is not built by one comprehension / loop")
        it_ok = u(it) == f"self.{mats_attr}.items()" and isinstance(tgt, ast.Tuple) and len(tgt.elts) == 2
        if not it_ok and f"self.{mats_attr}" not in u(it):
            raise Undecided(f"{q}: extra fields are collected from {u(it)}")
        ctx.check("R3", it_ok, mod, q, where, f"copy() must pass every extra field on: iterate self.{mats_attr}.items() (found {u(it)})",
                  construct=f"extra fields loop over {u(it)}", desc="copy() passes every extra field on")
        if it_ok:
            k2, m2 = u(tgt.elts[0]), u(tgt.elts[1])
            if u(kexpr) != k2 or not (isinstance(vexpr, ast.Tuple) and len(vexpr.elts) == 2):
                raise Undecided(f"{q}: entries of `{dparam}` are not key: (matrix, field) pairs")
            me, fe = vexpr.elts
            fresh, inner = _fresh_source(fe)
            src = _self_attr(inner)
            if src is None:
                raise Undecided(f"{q}: field expression {u(fe)} not recognised")
            ctx.check("R3", fresh and src == f"<getattr:{k2}>", mod, q, where,
                      f"copy() passes the field {u(fe)} for key {k2}: " + ("it is kept by reference (setattr(self, key, field)), so the copy "
                                                                          "shares the array with the original" if not fresh else f"taken from {src}"),
                      construct=f"extra field <- {u(fe)}", desc="copy() passes a fresh copy of each extra field")
            ctx.check("R3", u(me) == m2, mod, q, where, f"copy() pairs key {k2} with {u(me)} instead of its own basis matrix {m2}",
                      construct=f"extra matrix <- {u(me)}", desc="copy() pairs each extra field with its own basis matrix")
    # whitelist: the shared basis matrices are never written in place
    writes = []
    for s in ast.walk(S4):
        if isinstance(s, (ast.Assign, ast.AugAssign)):
            for t in assigned_targets(s):
                root = t
                depth = 0
                while isinstance(root, ast.Subscript):
                    root, depth = root.value, depth + 1
                if (isinstance(root, ast.Name) and root.id == mat and (depth >= 1 or isinstance(s, ast.AugAssign))) or \
                        (_self_attr(root) == mats_attr and depth >= 2):
                    writes.append(s)
    ctx.check("R3", not writes, mod, "FourthOrderTensor", writes[0] if writes else S4,
              f"a basis matrix shared between a tensor and its copies through self.{mats_attr} is written in place",
              construct=u(writes[0]) if writes else f"self.{mats_attr} matrices are read-only",
              desc=f"basis matrices shared through self.{mats_attr} are never written in place")
    if new is not None:
        _post_stores_fresh(ctx, mod, q, cp, new)


# ---------------- R4 ---------------------------------------------------------------------------

def _r4_restrict(ctx: Ctx, mod, mT, m4) -> None:
    fn = mT.get("restrict_to_cells")
    if fn is None:
        raise AnchorError(f"{TEN}:Tensor.restrict_to_cells missing")
    q = "Tensor.restrict_to_cells"
    ps = _params(fn)
    if len(ps) != 2:
        raise AnchorError(f"{q}: expected (self, cells)")
    cells = ps[1]
    binds = [s for s in body_nodoc(fn) if isinstance(s, ast.Assign) and len(s.targets) == 1 and isinstance(s.targets[0], ast.Name)
             and any(isinstance(c, ast.Call) for c in [s.value]) or (isinstance(s, ast.Assign) and u(s.value) == "self")]
    tmp = None
    tmp_stmt = None
    for s in binds:
        if u(s.value) in ("self.copy()", "copy.deepcopy(self)", "self"):
            tmp, tmp_stmt = s.targets[0].id, s
    # what is mutated?
    mutated = set()
    for s in stmts_local(fn):
        if isinstance(s, ast.Assign):
            for t in s.targets:
                if isinstance(t, ast.Attribute) and isinstance(t.value, ast.Name):
                    mutated.add(t.value.id)
        for c in (calls_in(s) if isinstance(s, ast.Expr) else []):
            if isinstance(c.func, ast.Name) and c.func.id == "setattr" and c.args and isinstance(c.args[0], ast.Name):
                mutated.add(c.args[0].id)
    if not mutated:
        raise Undecided(f"{q}: no attribute is restricted")
    on_copy = tmp is not None and u(tmp_stmt.value) != "self" and mutated == {tmp}
    ctx.check("R4", on_copy, mod, q, tmp_stmt or fn,
              f"restrict_to_cells mutates {sorted(mutated)}; it must work on `self.copy()` only (the original tensor is used again "
              f"for other sub-grids)", construct=f"restrict works on {u(tmp_stmt.value) if tmp_stmt is not None else sorted(mutated)}",
              desc="restrict_to_cells works on self.copy()")
    obj = tmp if tmp is not None else sorted(mutated)[0]
    # loop over all constitutive parameters
    loops = [s for s in body_nodoc(fn) if isinstance(s, ast.For)]
    if len(loops) != 1 or not isinstance(loops[0].target, ast.Name):
        raise Undecided(f"{q}: expected one loop over the constitutive parameters")
    lp = loops[0]
    fld = lp.target.id
    it_ok = u(lp.iter) in (f"{obj}.constitutive_parameters", "self.constitutive_parameters")
    if not it_ok and "constitutive_parameters" not in u(lp.iter):
        raise Undecided(f"{q}: loop iterates {u(lp.iter)}")
    ctx.check("R4", it_ok, mod, q, lp, f"every constitutive parameter must be restricted; loop iterates {u(lp.iter)}",
              construct=f"restrict loop over {u(lp.iter)}", desc="loop covers all constitutive parameters")
    sets = [c for c in calls_in(lp) if isinstance(c.func, ast.Name) and c.func.id == "setattr"]
    if len(sets) != 1 or len(sets[0].args) != 3:
        raise Undecided(f"{q}: expected one setattr in the loop")
    sa = sets[0]
    val = sa.args[2]
    env = {}
    for s in lp.body:
        if isinstance(s, ast.Assign) and len(s.targets) == 1 and isinstance(s.targets[0], ast.Name):
            env[s.targets[0].id] = s.value
    ok = False
    got = u(val)
    if isinstance(val, ast.Name) and val.id in env:
        val = env[val.id]
    if isinstance(val, ast.Subscript):
        base = val.value
        if isinstance(base, ast.Name) and base.id in env:
            base = env[base.id]
        while isinstance(base, ast.Call) and call_name(base) == "cast" and len(base.args) == 2:
            base = base.args[1]
        got = f"{u(base)}[{u(val.slice)}]"
        ok = (u(sa.args[0]) == obj and u(sa.args[1]) == fld and u(val.slice) == cells
              and u(base) in (f"getattr({obj}, {fld})", f"getattr(self, {fld})"))
    else:
        raise Undecided(f"{q}: restricted value {u(val)} is not a subscript")
    ctx.check("R4", ok, mod, q, sa, f"each parameter must be replaced by itself restricted to `{cells}` on its only axis; found "
              f"setattr({u(sa.args[0])}, {u(sa.args[1])}, {got})", construct=f"restrict field: setattr({u(sa.args[0])}, {u(sa.args[1])}, {got})",
              desc="each constitutive parameter is replaced by itself[cells]")
    # values on the last axis
    vs = [s for s in body_nodoc(fn) if isinstance(s, ast.Assign) and any(isinstance(t, ast.Attribute) and t.attr == "values" for t in s.targets)]
    if len(vs) != 1:
        ctx.check("R4", False, mod, q, fn, "the `values` array is not restricted", construct="restrict values <- missing")
    else:
        v = vs[0].value
        from ..core.astutil import arg_or_kw
        if isinstance(v, ast.Call) and call_name(v) == "take":
            # np.take(values, cells, axis=2) / values.take(cells, axis=-1)
            fnc = dotted(v.func) in ("np.take", "numpy.take")
            base = v.args[0] if fnc and v.args else (v.func.value if isinstance(v.func, ast.Attribute) else None)
            idx = arg_or_kw(v, 1 if fnc else 0, "indices")
            ax = arg_or_kw(v, 2 if fnc else 1, "axis")
            if base is None or idx is None:
                raise Undecided(f"{q}: {u(v)} not understood")
            last_axis = u(idx) == cells and ax is not None and u(ax) in ("2", "-1")
            base_ok = u(base) in (f"{obj}.values", "self.values")
        elif not isinstance(v, ast.Subscript):
            raise Undecided(f"{q}: {u(vs[0])} is not a subscript")
        else:
            sl = v.slice
            elts = sl.elts if isinstance(sl, ast.Tuple) else [sl]
            full = lambda e: isinstance(e, ast.Slice) and e.lower is None and e.upper is None  # noqa: E731
            last_axis = (len(elts) == 3 and full(elts[0]) and full(elts[1]) and u(elts[2]) == cells) or \
                        (len(elts) == 2 and isinstance(elts[0], ast.Constant) and elts[0].value is Ellipsis and u(elts[1]) == cells)
            base_ok = u(v.value) in (f"{obj}.values", "self.values")
        ctx.check("R4", last_axis and base_ok, mod, q, vs[0],
                  f"values has shape (n, n, num_cells): it must be restricted as values[:, :, {cells}]; found {u(v)}",
                  construct=f"restrict values: {u(v)}", desc="values restricted on the cell (last) axis")
    rets = [s for s in stmts_local(fn) if isinstance(s, ast.Return)]
    ctx.check("R4", len(rets) == 1 and u(rets[0].value) == obj and obj != "self", mod, q, rets[0] if rets else fn,
              "the restricted copy must be returned", construct=f"restrict returns {u(rets[0].value) if rets else None}")
    # completeness of constitutive_parameters for FourthOrderTensor
    init = m4["__init__"]
    prop = m4.get("constitutive_parameters")
    if prop is None:
        raise AnchorError("FourthOrderTensor.constitutive_parameters missing")
    pr = [s for s in stmts_local(prop) if isinstance(s, ast.Return)]
    lst_attr = _self_attr(pr[0].value) if len(pr) == 1 and pr[0].value is not None else None
    if lst_attr is None:
        raise Undecided("FourthOrderTensor.constitutive_parameters does not return an attribute of self")
    lits = [s for s in stmts_local(init) if isinstance(s, (ast.Assign, ast.AnnAssign)) and getattr(s, "value", None) is not None
            and any(u(t) == f"self.{lst_attr}" for t in assigned_targets(s))]
    if len(lits) != 1:
        raise Undecided(f"FourthOrderTensor.__init__: self.{lst_attr} is not assigned exactly once")
    lv = lits[0].value
    lists = [n for n in ast.walk(lv) if isinstance(n, ast.List)]
    if not lists:
        raise Undecided(f"FourthOrderTensor.__init__: self.{lst_attr} = {u(lv)[:60]} is not built from a list literal")
    listed = {e.value for L in lists for e in L.elts if isinstance(e, ast.Constant)}
    dparam, key, mat, field, mats_attr, loop = _extra_fields(init)
    q4 = "FourthOrderTensor.__init__"
    for p, attr in sorted(_byref_params(init).items()):
        ctx.check("R4", attr in listed, mod, q4, lits[0],
                  f"per-cell array self.{attr} is stored but not listed in constitutive_parameters {sorted(listed)}: restrict_to_cells "
                  f"leaves it at full size", construct=f"constitutive parameter {attr} listed: {attr in listed}",
                  desc=f"self.{attr} is listed in constitutive_parameters")
    # every extra field name reaches the list: all keys at once (`[..., *other_fields]`), or one by one in the loop
    all_at_once = dparam in names_in(lv)
    one_by_one = False
    mentions = False
    for st in ast.walk(loop):
        if isinstance(st, ast.Call) and isinstance(st.func, ast.Attribute) and _self_attr(st.func.value) == lst_attr:
            mentions = True
            if st.func.attr == "append" and [u(a) for a in st.args] == [key]:
                one_by_one = True
            if st.func.attr == "extend" and len(st.args) == 1 and isinstance(st.args[0], (ast.List, ast.Tuple)) and [u(a) for a in st.args[0].elts] == [key]:
                one_by_one = True
        if isinstance(st, ast.AugAssign) and _self_attr(st.target) == lst_attr:
            mentions = True
            if isinstance(st.op, ast.Add) and isinstance(st.value, (ast.List, ast.Tuple)) and [u(a) for a in st.value.elts] == [key]:
                one_by_one = True
    for st in stmts_local(init):
        if st is not lits[0] and st not in list(ast.walk(loop)) and any(
                (isinstance(n, ast.Attribute) and _self_attr(n) == lst_attr) for n in ast.walk(st)) and dparam in names_in(st):
            mentions = True
    if not (all_at_once or one_by_one) and mentions:
        raise Undecided(f"FourthOrderTensor.__init__: self.{lst_attr} is extended in a way that is not recognised")
    ok = all_at_once or one_by_one
    ctx.check("R4", ok, mod, q4, loop,
              f"extra field setattr(self, {key}, ...) is not added to self.{lst_attr}: restrict_to_cells leaves it at full size",
              construct=f"extra field {key} added to {lst_attr}: {ok}",
              desc="every extra field is added to constitutive_parameters")


# ---------------- R5 ---------------------------------------------------------------------------

class _Labels:
    def __init__(self):
        self.n = 0

    def new(self) -> int:
        self.n += 1
        return self.n


def _axis(e: ast.expr):
    """literal axis: 1 / [1] / (1,) -> 1"""
    if isinstance(e, (ast.List, ast.Tuple)) and len(e.elts) == 1:
        e = e.elts[0]
    if isinstance(e, ast.UnaryOp) and isinstance(e.op, ast.USub) and _const_int(e.operand) is not None:
        return -e.operand.value
    return _const_int(e)


def _term(e: ast.expr, R: str, lab: _Labels, fn=None, depth: int = 0):
    """-> (factors: list[(name, [labels])], free: [labels])."""
    if isinstance(e, ast.Name) and e.id == R:
        a, b = lab.new(), lab.new()
        return [("R", [a, b])], [a, b]
    if isinstance(e, ast.Attribute) and e.attr == "T" and isinstance(e.value, ast.Name) and e.value.id == R:
        a, b = lab.new(), lab.new()
        return [("R", [a, b])], [b, a]
    if u(e) == "self.values":
        i, j, c = lab.new(), lab.new(), lab.new()
        return [("K", [i, j, c])], [i, j, c]
    if isinstance(e, ast.Name) and fn is not None and depth < 6:
        v = single_assign_value(fn, e.id)
        if v is not None:
            return _term(v, R, lab, fn, depth + 1)
    if isinstance(e, ast.Call) and call_name(e) == "tensordot" and len(e.args) >= 2:
        ax = e.args[2] if len(e.args) > 2 else kwarg(e, "axes")
        if not (isinstance(ax, (ast.Tuple, ast.List)) and len(ax.elts) == 2 and all(_axis(x) is not None for x in ax.elts)):
            raise Undecided(f"tensordot axes {u(ax) if ax is not None else None} are not a pair of literal axes")
        p, qx = _axis(ax.elts[0]), _axis(ax.elts[1])
        fa, xa = _term(e.args[0], R, lab, fn, depth + 1)
        fb, xb = _term(e.args[1], R, lab, fn, depth + 1)
        if not (-len(xa) <= p < len(xa) and -len(xb) <= qx < len(xb)):
            raise Undecided("tensordot axis out of range")
        la, lb = xa[p], xb[qx]
        fb = [(n, [la if x == lb else x for x in ix]) for n, ix in fb]
        xb2 = [x for k, x in enumerate(xb) if k != qx % len(xb)]
        xa2 = [x for k, x in enumerate(xa) if k != p % len(xa)]
        return fa + fb, xa2 + xb2
    if isinstance(e, ast.Call) and call_name(e) == "einsum" and e.args and isinstance(e.args[0], ast.Constant) and isinstance(e.args[0].value, str):
        spec = e.args[0].value.replace(" ", "")
        if "->" not in spec or "." in spec:
            raise Undecided(f"einsum specification {spec!r} without explicit output / with ellipsis")
        ins, outp = spec.split("->")
        subs = ins.split(",")
        if len(subs) != len(e.args) - 1:
            raise Undecided(f"einsum specification {spec!r} does not match its operands")
        letters: dict[str, int] = {}
        factors = []
        for sub, opnd in zip(subs, e.args[1:]):
            f1, x1 = _term(opnd, R, lab, fn, depth + 1)
            if len(f1) != 1 or len(sub) != len(x1):
                raise Undecided(f"einsum operand {u(opnd)} / subscripts {sub!r} not understood")
            ren = {}
            for ch, l0 in zip(sub, x1):
                ren[l0] = letters.setdefault(ch, lab.new())
            factors.append((f1[0][0], [ren[x] for x in f1[0][1]]))
        if any(ch not in letters for ch in outp):
            raise Undecided(f"einsum output {outp!r} uses unknown subscripts")
        # a subscript that is neither in the output nor repeated would be summed on its own: not a contraction we model
        for ch in letters:
            if ch not in outp and sum(sub.count(ch) for sub in subs) != 2:
                raise Undecided(f"einsum subscript {ch!r} is summed without a partner")
        return factors, [letters[ch] for ch in outp]
    raise Undecided(f"rotation expression `{u(e)[:60]}` is not a nest of np.tensordot / np.einsum over R, R.T and self.values")


def _r5_rotate(ctx: Ctx, mod, m2) -> None:
    fn = m2.get("rotate")
    if fn is None:
        raise AnchorError(f"{TEN}:SecondOrderTensor.rotate missing")
    q = "SecondOrderTensor.rotate"
    ps = _params(fn)
    if len(ps) != 2:
        raise AnchorError(f"{q}: expected (self, R)")
    R = ps[1]
    st = [s for s in stmts_local(fn) if isinstance(s, ast.Assign) and any(u(t) == "self.values" for t in s.targets)]
    if len(st) != 1:
        raise Undecided(f"{q}: self.values is not assigned exactly once")
    factors, free = _term(st[0].value, R, _Labels(), fn)
    Rs = [ix for n, ix in factors if n == "R"]
    Ks = [ix for n, ix in factors if n == "K"]
    problems = []
    if len(Rs) != 2 or len(Ks) != 1:
        problems.append(f"{len(Rs)} rotation factors and {len(Ks)} tensor factors (need R, R and K)")
    else:
        i, j, c = Ks[0]
        sides = []
        used = set()
        for ix in Rs:
            hit = [(pos, lab) for pos, lab in enumerate(ix) if lab in (i, j)]
            if len(hit) != 1:
                problems.append("a rotation factor is not contracted with exactly one tensor index of K")
                continue
            sides.append(hit[0][0])
            used.add(hit[0][1])
            other = ix[1 - hit[0][0]]
            if other not in free:
                problems.append("the uncontracted index of a rotation factor is not an output index")
        if used != {i, j} and not problems:
            problems.append("both rotation factors are contracted with the same index of K (or one index of K is left over)")
        if len(sides) == 2 and sides[0] != sides[1]:
            problems.append("one factor is contracted through its rows and the other through its columns: the result is R K R "
                            "(or R^T K R^T), not a similarity transform")
        elif len(sides) == 2 and sides[0] == 0:
            problems.append("both factors are contracted through their ROW index: the result is R^T K R, the rotation by the inverse "
                            "of R (symmetry and eigenvalues survive, but x^T K x != (R x)^T K' (R x): principal directions turn the "
                            "wrong way); K' = R K R^T contracts the column index of both factors")
        if c not in free or free[-1] != c or len(free) != 3:
            problems.append(f"the cell axis must stay the last of three output axes (output has {len(free)} axes)")
    ctx.check("R5", not problems, mod, q, st[0],
              "rotation by R must give K' = R K R^T cell by cell: " + "; ".join(problems),
              construct="rotate: " + ("K' = R K R^T" if not problems else "; ".join(problems)),
              facts={"factors": [(n, ix) for n, ix in factors], "free": free},
              desc="rotate contracts the column index of both rotation factors with the two tensor indices: K' = R K R^T")


# ----------------------------------------------------------------------------------------
def _m(name, old, new, rule, control=False, count=1):
    return dict(name=name, file=TEN, old=old, new=new, rule=rule, control=control, count=count)


MUTANTS = [
    _m("perm01-store-removed", "        perm[1, 0, ::] = kxy\n        perm[0, 1, ::] = kxy\n", "        perm[1, 0, ::] = kxy\n", "R1", control=True),
    _m("perm02-stores-kyz", "        perm[0, 2, ::] = kxz\n", "        perm[0, 2, ::] = kyz\n", "R1"),
    _m("perm12-negated", "        perm[1, 2, ::] = kyz\n", "        perm[1, 2, ::] = -kyz\n", "R1"),
    _m("mu-basis-asymmetric", "                [2, 0, 0, 0, 0, 0, 0, 0, 0],\n                [0, 1, 0, 1, 0, 0, 0, 0, 0],\n",
       "                [2, 0, 0, 0, 0, 0, 0, 0, 0],\n                [0, 1, 0, 0, 0, 0, 0, 0, 0],\n", "R2"),
    _m("lmbda-basis-asymmetric", "        lmbda_mat = np.array(\n            [\n                [1, 0, 0, 0, 1, 0, 0, 0, 1],\n",
       "        lmbda_mat = np.array(\n            [\n                [1, 0, 0, 0, 1, 0, 0, 0, 0],\n", "R2"),
    _m("mu-basis-minor-symmetry-broken",
       "                [0, 1, 0, 1, 0, 0, 0, 0, 0],\n                [0, 0, 1, 0, 0, 0, 1, 0, 0],\n                [0, 1, 0, 1, 0, 0, 0, 0, 0],\n",
       "                [0, 2, 0, 0, 0, 0, 0, 0, 0],\n                [0, 0, 1, 0, 0, 0, 1, 0, 0],\n                [0, 0, 0, 2, 0, 0, 0, 0, 0],\n", "R2"),
    _m("copy4-passes-self-mu", "            mu=self.mu.copy(), lmbda=self.lmbda.copy(), other_fields=extra_params\n",
       "            mu=self.mu, lmbda=self.lmbda.copy(), other_fields=extra_params\n", "R3", control=True),
    _m("copy4-mu-from-lmbda", "            mu=self.mu.copy(), lmbda=self.lmbda.copy(), other_fields=extra_params\n",
       "            mu=self.lmbda.copy(), lmbda=self.lmbda.copy(), other_fields=extra_params\n", "R3"),
    _m("copy4-extra-field-aliased", "            extra_params[key] = (mat, getattr(self, key).copy())\n", "            extra_params[key] = (mat, getattr(self, key))\n", "R3"),
    _m("copy4-values-aliased", "        C.values = self.values.copy()\n", "        C.values = self.values\n", "R3"),
    _m("copy4-drops-extra-fields", "            mu=self.mu.copy(), lmbda=self.lmbda.copy(), other_fields=extra_params\n",
       "            mu=self.mu.copy(), lmbda=self.lmbda.copy()\n", "R3"),
    _m("copy2-kxz-from-wrong-component", "        kxz = self.values[2, 0].copy()\n", "        kxz = self.values[2, 1].copy()\n", "R3"),
    _m("copy2-drops-kyz", "kxy=kxy, kxz=kxz, kyy=kyy, kyz=kyz, kzz=kzz)", "kxy=kxy, kxz=kxz, kyy=kyy, kzz=kzz)", "R3"),
    _m("copy2-kxy-kxz-crossed", "kxy=kxy, kxz=kxz, kyy=kyy, kyz=kyz, kzz=kzz)", "kxy=kxz, kxz=kxy, kyy=kyy, kyz=kyz, kzz=kzz)", "R3"),
    _m("init4-writes-basis-in-place", "            c += mat[:, :, np.newaxis] * field\n", "            mat *= 1.0\n            c += mat[:, :, np.newaxis] * field\n", "R3"),
    _m("restrict-on-self", "        tmp_tensor = self.copy()\n", "        tmp_tensor = self\n", "R4"),
    _m("restrict-values-wrong-axis", "        tmp_tensor.values = tmp_tensor.values[::, ::, cells]\n", "        tmp_tensor.values = tmp_tensor.values[::, cells]\n", "R4"),
    _m("restrict-skips-first-parameter", "        for field in tmp_tensor.constitutive_parameters:\n", "        for field in tmp_tensor.constitutive_parameters[1:]:\n", "R4"),
    _m("restrict-values-dropped", "        tmp_tensor.values = tmp_tensor.values[::, ::, cells]\n", "", "R4"),
    _m("lmbda-not-listed", "        self._constitutive_parameters = [\"mu\", \"lmbda\"]\n", "        self._constitutive_parameters = [\"mu\"]\n", "R4"),
    _m("extra-field-not-listed", "            self._constitutive_parameters.append(key)\n", "", "R4"),
    _m("rotate-mixed-sides", "np.tensordot(R, self.values, (1, 0)), (0, 1))", "np.tensordot(R, self.values, (0, 0)), (0, 1))", "R5"),
    _m("rotate-without-transpose", "np.tensordot(R.T, np.tensordot(R, self.values, (1, 0)), (0, 1))", "np.tensordot(R, np.tensordot(R, self.values, (1, 0)), (0, 1))", "R5"),
    _m("seed-rotate-inverse-rotation", "np.tensordot(R.T, np.tensordot(R, self.values, (1, 0)), (0, 1))",
       "np.tensordot(R.T, np.tensordot(R, self.values, (0, 0)), (1, 1))", "R5", control=True),
    _m("rotate-same-index-twice", "np.tensordot(R, self.values, (1, 0)), (0, 1))", "np.tensordot(R, self.values, (1, 0)), (0, 0))", "R5"),
]
