"""C40 - tensors: symmetric off-diagonal stores, symmetric literal basis matrices, copy()
freshness and component agreement, restrict_to_cells completeness, rotation contraction pattern."""
from __future__ import annotations

import ast

from ..core.astutil import (u, dotted, walk_local, calls_in, call_name, kwarg, methods, names_in, stmts_local,
                            assigned_targets, body_nodoc, inline_locals, single_assign_value)
from ..core.loader import AnchorError, Undecided
from ..core.report import Ctx

TEN = "src/porepy/params/tensor.py"

META = {
    "explanation": (
        "Structural analysis of params/tensor.py. R1: in SecondOrderTensor.__init__ the last store into each off-diagonal "
        "entry (i, j) of the array that becomes self.values has the same right-hand side as the last store into (j, i), with "
        "no re-binding of that right-hand side between the two stores. R2: every literal basis matrix in "
        "FourthOrderTensor.__init__ (ast.literal_eval) is symmetric (major symmetry C_ijkl = C_klij) and has equal rows/"
        "columns for the index pairs (i,j)/(j,i) (minor symmetry). R3 copy(): constructor parameters that __init__ keeps by "
        "reference (self.X = p, setattr(self, k, p)) receive fresh arrays in copy() (X.copy(), np.array/np.copy, deepcopy, "
        "arithmetic), taken from the attribute that stores that parameter; anything copy() assigns on the new object is "
        "fresh; the basis matrices shared through _other_matrices are never written in place; every extra field is passed "
        "on; for SecondOrderTensor each constructor argument is read from a component (i, j) that __init__ writes that very "
        "parameter to, and every parameter is passed. R4 restrict_to_cells: works on self.copy(), restricts every name in "
        "constitutive_parameters on axis 0 and values on the last axis with the `cells` argument, returns the copy; every "
        "per-cell array FourthOrderTensor.__init__ stores is listed in constitutive_parameters. R5 rotate: index calculus "
        "over the nested np.tensordot shows the result is R K R^T or R^T K R (both R factors contracted on the same side "
        "with the two tensor indices of K), i.e. a similarity transform for orthogonal R. Not decided: numerical "
        "eigenvalue preservation, positive-definiteness guards, user-supplied other_fields matrices."),
    "rule_text": "one obligation per (off-diagonal pair | literal matrix x symmetry | constructor argument | stored object | restriction step | contraction)",
    "trusted_base": ["python ast / ast.literal_eval", "sa.core (loader, astutil)", "numpy semantics of basic-index stores, tensordot axes"],
    "assumptions": ["X.copy(), np.array(X), np.copy(X), copy.deepcopy(X) and arithmetic results do not share memory with X",
                    "storing into a slice of a freshly allocated array copies the data",
                    "tensor attributes are only assigned inside the class bodies analysed"],
    "technique": "last-store table per matrix entry; literal evaluation; by-reference parameter analysis; Einstein-index calculus for tensordot",
}
MIN_INSTANCES = {"R1": 3, "R2": 4, "R3": 14, "R4": 8, "R5": 1}


def _params(fn) -> list[str]:
    a = fn.args
    return [x.arg for x in a.posonlyargs + a.args + a.kwonlyargs]


# ----------------------------------------------------------------------------------------
# fresh / by-reference classification
# ----------------------------------------------------------------------------------------

def _fresh_source(e: ast.expr):
    """-> (is_fresh, inner expression the data comes from)."""
    if isinstance(e, ast.Call):
        if isinstance(e.func, ast.Attribute) and e.func.attr == "copy" and not e.args:
            return True, e.func.value
        if dotted(e.func) in ("np.array", "np.copy", "numpy.array", "numpy.copy", "copy.deepcopy", "copy.copy") and e.args:
            cp = kwarg(e, "copy")
            if cp is not None and isinstance(cp, ast.Constant) and cp.value is False:
                return False, e.args[0]
            return True, e.args[0]
        if dotted(e.func) in ("np.asarray", "np.atleast_1d", "np.ravel") and e.args:
            return False, e.args[0]
        if call_name(e) == "cast" and len(e.args) == 2:
            return _fresh_source(e.args[1])
    if isinstance(e, (ast.BinOp, ast.UnaryOp)):
        return True, e
    return False, e


def _self_attr(e: ast.expr) -> str | None:
    if isinstance(e, ast.Attribute) and isinstance(e.value, ast.Name) and e.value.id == "self":
        return e.attr
    if isinstance(e, ast.Call) and isinstance(e.func, ast.Name) and e.func.id == "getattr" and len(e.args) == 2 and u(e.args[0]) == "self":
        return f"<getattr:{u(e.args[1])}>"
    return None


def _ctor_args(call: ast.Call, init) -> dict[str, ast.expr]:
    ps = _params(init)[1:]
    out: dict[str, ast.expr] = {}
    for i, a in enumerate(call.args):
        if isinstance(a, ast.Starred) or i >= len(ps):
            raise Undecided("constructor call with *args")
        out[ps[i]] = a
    for k in call.keywords:
        if k.arg is None:
            raise Undecided("constructor call with **kwargs")
        out[k.arg] = k.value
    return out


def _find_ctor(fn, clsname: str):
    """-> (bound name or None, call)."""
    for s in stmts_local(fn):
        v = getattr(s, "value", None)
        if isinstance(s, (ast.Assign, ast.AnnAssign)) and isinstance(v, ast.Call) and (u(v.func) in (clsname, "type(self)", "self.__class__")):
            t = assigned_targets(s)
            if len(t) == 1 and isinstance(t[0], ast.Name):
                return t[0].id, v
        if isinstance(s, ast.Return) and isinstance(v, ast.Call) and u(v.func) in (clsname, "type(self)", "self.__class__"):
            return None, v
    return None


# ----------------------------------------------------------------------------------------

def run(ctx: Ctx) -> None:
    mod = ctx.repo.module(TEN)
    T, S2, S4 = mod.cls("Tensor"), mod.cls("SecondOrderTensor"), mod.cls("FourthOrderTensor")
    stores2 = _r1_symmetric_stores(ctx, mod, S2)
    _r2_literals(ctx, mod, S4)
    _r3_copy_second(ctx, mod, S2, stores2)
    _r3_copy_fourth(ctx, mod, S4)
    _r4_restrict(ctx, mod, T, S4)
    _r5_rotate(ctx, mod, S2)


# ---------------- R1 ---------------------------------------------------------------------------

def _const_int(e: ast.expr):
    return e.value if isinstance(e, ast.Constant) and isinstance(e.value, int) and not isinstance(e.value, bool) else None


def _r1_symmetric_stores(ctx: Ctx, mod, S2) -> dict[tuple[int, int], str]:
    init = methods(S2).get("__init__")
    if init is None:
        raise AnchorError(f"{TEN}:SecondOrderTensor.__init__ missing")
    q = "SecondOrderTensor.__init__"
    vals = [s for s in stmts_local(init) if isinstance(s, ast.Assign) and any(u(t) == "self.values" for t in s.targets)]
    if len(vals) != 1 or not isinstance(vals[0].value, ast.Name):
        raise Undecided(f"{q}: self.values is not assigned once from a local array")
    arr = vals[0].value.id
    alloc = single_assign_value(init, arr)
    fresh = isinstance(alloc, ast.Call) and call_name(alloc) in ("zeros", "empty", "ones", "full") and arr not in _params(init)
    if not fresh:
        raise Undecided(f"{q}: `{arr}` is not a freshly allocated array")
    body = body_nodoc(init)
    final: dict[tuple[int, int], tuple[str, int]] = {}
    for pos, s in enumerate(body):
        inner = [x for x in ast.walk(s) if isinstance(x, (ast.Assign, ast.AugAssign)) for t in assigned_targets(x)
                 if isinstance(t, ast.Subscript) and u(t.value) == arr]
        if not inner:
            continue
        if not (isinstance(s, ast.Assign) and len(s.targets) == 1 and inner == [s]):
            raise Undecided(f"{q}: conditional/augmented store into `{arr}`: {u(s)[:70]}")
        sl = s.targets[0].slice
        elts = sl.elts if isinstance(sl, ast.Tuple) else [sl]
        if len(elts) < 2 or _const_int(elts[0]) is None or _const_int(elts[1]) is None:
            raise Undecided(f"{q}: store `{u(s)}` does not address one (i, j) entry")
        if any(not (isinstance(e, ast.Slice) and e.lower is None and e.upper is None) for e in elts[2:]):
            raise Undecided(f"{q}: store `{u(s)}` addresses a subset of the cells")
        final[(elts[0].value, elts[1].value)] = (u(s.value), pos)
    offd = sorted({tuple(sorted(k)) for k in final if k[0] != k[1]})
    if not offd:
        raise AnchorError(f"{q}: no off-diagonal stores found")
    for i, j in offd:
        a, b = final.get((i, j)), final.get((j, i))
        if a is None or b is None:
            have = (i, j) if a is not None else (j, i)
            miss = (j, i) if a is not None else (i, j)
            ctx.check("R1", False, mod, q, init,
                      f"{arr}[{have[0]}, {have[1]}] is set to {final[have][0]} but {arr}[{miss[0]}, {miss[1]}] is never written "
                      f"(stays 0): the tensor is not symmetric", construct=f"{arr}[{i},{j}] / {arr}[{j},{i}]: one side missing")
            continue
        ok = a[0] == b[0]
        if ok:
            lo, hi = sorted((a[1], b[1]))
            rhs_names = {n.id for n in ast.walk(ast.parse(a[0], mode="eval")) if isinstance(n, ast.Name)}
            between = [s for s in body[lo + 1:hi] for x in ast.walk(s) if isinstance(x, ast.stmt)
                       for t in assigned_targets(x) if isinstance(t, ast.Name) and t.id in rhs_names]
            if between:
                raise Undecided(f"{q}: `{a[0]}` is re-bound between the stores into ({i},{j}) and ({j},{i})")
        ctx.check("R1", ok, mod, q, body[a[1]],
                  f"{arr}[{i}, {j}] = {a[0]} but {arr}[{j}, {i}] = {b[0]}: off-diagonal entries must be stored in transposed pairs "
                  f"with the same right-hand side", construct=f"{arr}[{i},{j}]={a[0]} / {arr}[{j},{i}]={b[0]}",
                  desc=f"{arr}[{i},{j}] and {arr}[{j},{i}] receive the same right-hand side ({a[0]})")
    ctx.sample({"rule": "R1", "final_stores": {f"{k[0]},{k[1]}": v[0] for k, v in sorted(final.items())}})
    return {k: v[0] for k, v in final.items()}


# ---------------- R2 ---------------------------------------------------------------------------

def _r2_literals(ctx: Ctx, mod, S4) -> None:
    init = methods(S4).get("__init__")
    if init is None:
        raise AnchorError(f"{TEN}:FourthOrderTensor.__init__ missing")
    q = "FourthOrderTensor.__init__"
    n = 0
    for s in stmts_local(init):
        if not (isinstance(s, (ast.Assign, ast.AnnAssign)) and isinstance(getattr(s, "value", None), ast.Call)):
            continue
        c = s.value
        if not (dotted(c.func) in ("np.array", "numpy.array", "np.asarray") and c.args and isinstance(c.args[0], ast.List)):
            continue
        try:
            M = ast.literal_eval(c.args[0])
        except (ValueError, SyntaxError):
            continue  # not a pure literal
        if not (M and all(isinstance(r, list) and len(r) == len(M) for r in M)):
            continue  # not a square matrix
        name = u(assigned_targets(s)[0])
        n += 1
        N = len(M)
        asym = [(i, j) for i in range(N) for j in range(i + 1, N) if M[i][j] != M[j][i]]
        ctx.check("R2", not asym, mod, q, s,
                  f"basis matrix {name} is not symmetric at {asym[:4]} (major symmetry C_ijkl = C_klij of the stiffness tensor)",
                  construct=f"{name}: major symmetry" + ("" if not asym else f" broken at {asym[:4]}"),
                  desc=f"literal basis matrix {name} ({N}x{N}) is symmetric")
        d = round(N ** 0.5)
        if d * d == N:
            bad = []
            for i in range(d):
                for j in range(i + 1, d):
                    p, r = d * i + j, d * j + i
                    if M[p] != M[r] or [row[p] for row in M] != [row[r] for row in M]:
                        bad.append((p, r))
            ctx.check("R2", not bad, mod, q, s,
                      f"basis matrix {name}: rows/columns of the index pairs {bad[:3]} differ (minor symmetry C_ijkl = C_jikl = C_ijlk)",
                      construct=f"{name}: minor symmetry" + ("" if not bad else f" broken at {bad[:3]}"),
                      desc=f"literal basis matrix {name} has the minor symmetries")
        ctx.sample({"rule": "R2", "matrix": name, "size": N})
    if n < 2:
        raise AnchorError(f"{q}: literal basis matrices not found")


# ---------------- R3 (second order) ---------------------------------------------------------------

def _component(e: ast.expr):
    """self.values[i, j] (optionally wrapped in a fresh-making call) -> (i, j, fresh)."""
    fresh, inner = _fresh_source(e)
    if isinstance(inner, ast.Subscript) and u(inner.value) == "self.values":
        sl = inner.slice
        elts = sl.elts if isinstance(sl, ast.Tuple) else [sl]
        if len(elts) >= 2 and _const_int(elts[0]) is not None and _const_int(elts[1]) is not None and \
                all(isinstance(x, ast.Slice) and x.lower is None and x.upper is None for x in elts[2:]):
            return elts[0].value, elts[1].value, fresh
    return None


def _byref_params(init) -> dict[str, str]:
    """constructor parameter -> attribute it is kept in by reference (`self.X = p`)."""
    ps = _params(init)[1:]
    out = {}
    for s in stmts_local(init):
        if isinstance(s, (ast.Assign, ast.AnnAssign)) and getattr(s, "value", None) is not None:
            for t in assigned_targets(s):
                if isinstance(t, ast.Attribute) and u(t.value) == "self" and isinstance(s.value, ast.Name) and s.value.id in ps:
                    out[s.value.id] = t.attr
    return out


def _r3_copy_second(ctx: Ctx, mod, S2, stores2) -> None:
    meths = methods(S2)
    init, cp = meths["__init__"], meths.get("copy")
    if cp is None:
        raise AnchorError(f"{TEN}:SecondOrderTensor.copy missing")
    q = "SecondOrderTensor.copy"
    byref = _byref_params(init)
    fc = _find_ctor(cp, "SecondOrderTensor")
    if fc is None:
        raise Undecided(f"{q}: constructor call not found")
    new, call = fc
    args = _ctor_args(call, init)
    where: dict[str, set] = {}
    for (i, j), rhs in stores2.items():
        where.setdefault(rhs, set()).add((i, j))
    ps = _params(init)[1:]
    ctx.check("R3", not byref, mod, "SecondOrderTensor.__init__", init,
              f"__init__ keeps parameter(s) {sorted(byref)} by reference; copy() must then pass fresh arrays",
              construct="SecondOrderTensor state built from a fresh array" if not byref else f"by-reference parameters {sorted(byref)}",
              desc="SecondOrderTensor.__init__ copies its arguments into a freshly allocated array (no parameter kept by reference)")
    for p in ps:
        if p not in where:
            raise Undecided(f"{q}: __init__ never stores parameter {p} into values")
        e = args.get(p)
        if e is None:
            ctx.check("R3", False, mod, q, call, f"copy() does not pass `{p}`; the copy gets the default instead of the stored component "
                      f"{sorted(where[p])}", construct=f"copy {p} <- missing")
            continue
        e = inline_locals(cp, e, stop={"self"})
        comp = _component(e)
        if comp is None:
            raise Undecided(f"{q}: argument {p}={u(e)} is not a component of self.values")
        i, j, fresh = comp
        ok = (i, j) in where[p] and (fresh or p not in byref)
        ctx.check("R3", ok, mod, q, call,
                  f"copy() passes {p} = {u(e)}; __init__ writes `{p}` to component(s) {sorted(where[p])}"
                  + ("" if fresh or p not in byref else " and keeps it by reference (needs a fresh array)"),
                  construct=f"copy {p} <- values[{i},{j}]" + ("" if fresh else " (not copied)"),
                  desc=f"copy() reads {p} from a component __init__ writes it to")
    # anything assigned on the new object afterwards must be fresh
    if new is not None:
        _post_stores_fresh(ctx, mod, q, cp, new)


def _post_stores_fresh(ctx: Ctx, mod, q, cp, new) -> None:
    for s in stmts_local(cp):
        if isinstance(s, ast.Assign):
            for t in s.targets:
                if isinstance(t, ast.Attribute) and isinstance(t.value, ast.Name) and t.value.id == new:
                    fresh, inner = _fresh_source(inline_locals(cp, s.value, stop={"self"}))
                    src = _self_attr(inner)
                    if not fresh and src is None:
                        raise Undecided(f"{q}: `{u(s)}` assigns something that is neither fresh nor an attribute of self")
                    ctx.check("R3", fresh and (src is None or src == t.attr), mod, q, s,
                              f"copy() sets {new}.{t.attr} = {u(s.value)}: " + ("the new tensor shares this array with the original"
                                                                            if not fresh else f"taken from self.{src}"),
                              construct=u(s), desc=f"{new}.{t.attr} assigned a fresh copy of self.{t.attr}")


# ---------------- R3 (fourth order) -----------------------------------------------------------------

def _r3_copy_fourth(ctx: Ctx, mod, S4) -> None:
    meths = methods(S4)
    init, cp = meths["__init__"], meths.get("copy")
    if cp is None:
        raise AnchorError(f"{TEN}:FourthOrderTensor.copy missing")
    q = "FourthOrderTensor.copy"
    byref = _byref_params(init)
    if not byref:
        raise AnchorError("FourthOrderTensor.__init__: no parameter kept by reference (mu/lmbda expected)")
    fc = _find_ctor(cp, "FourthOrderTensor")
    if fc is None:
        raise Undecided(f"{q}: constructor call not found")
    new, call = fc
    args = _ctor_args(call, init)
    for p, attr in sorted(byref.items()):
        e = args.get(p)
        if e is None:
            ctx.check("R3", False, mod, q, call, f"copy() does not pass `{p}`", construct=f"copy {p} <- missing")
            continue
        e = inline_locals(cp, e, stop={"self"})
        fresh, inner = _fresh_source(e)
        src = _self_attr(inner)
        if src is None and not fresh:
            raise Undecided(f"{q}: argument {p}={u(e)} not recognised")
        ok = fresh and src == attr
        why = ("the copy's " + attr + " is the very array of the original (in-place edits and restrict_to_cells leak)" if not fresh
               else f"taken from self.{src}, but __init__ keeps `{p}` in self.{attr}")
        ctx.check("R3", ok, mod, q, call, f"copy() passes {p} = {u(e)}: {why}",
                  construct=f"copy {p} <- {u(e)}", desc=f"copy() passes a fresh copy of self.{attr} for `{p}`")
    # the dict-valued parameter: per-key (matrix, field) pairs
    loops = [s for s in stmts_local(init) if isinstance(s, ast.For) and isinstance(s.iter, ast.Call) and call_name(s.iter) == "items"
             and isinstance(s.iter.func, ast.Attribute) and isinstance(s.iter.func.value, ast.Name) and s.iter.func.value.id in _params(init)]
    if len(loops) != 1:
        raise Undecided("FourthOrderTensor.__init__: loop over the extra fields not found")
    loop = loops[0]
    dparam = loop.iter.func.value.id
    tg = loop.target
    if not (isinstance(tg, ast.Tuple) and len(tg.elts) == 2 and isinstance(tg.elts[0], ast.Name) and isinstance(tg.elts[1], ast.Tuple)
            and len(tg.elts[1].elts) == 2 and all(isinstance(x, ast.Name) for x in tg.elts[1].elts)):
        raise Undecided(f"FourthOrderTensor.__init__: loop target {u(tg)} is not key, (matrix, field)")
    key, mat, field = tg.elts[0].id, tg.elts[1].elts[0].id, tg.elts[1].elts[1].id
    set_field = [c for c in calls_in(loop) if isinstance(c.func, ast.Name) and c.func.id == "setattr" and [u(a) for a in c.args] == ["self", key, field]]
    mat_store = [s for s in loop.body if isinstance(s, ast.Assign) and isinstance(s.targets[0], ast.Subscript)
                 and _self_attr(s.targets[0].value) and u(s.targets[0].slice) == key and u(s.value) == mat]
    if len(set_field) != 1 or len(mat_store) != 1:
        raise Undecided("FourthOrderTensor.__init__: extra fields are not stored as setattr(self, key, field) / self.<mats>[key] = mat")
    mats_attr = _self_attr(mat_store[0].targets[0].value)
    # copy(): dict built from self.<mats>.items()
    d_arg = args.get(dparam)
    if d_arg is None:
        ctx.check("R3", False, mod, q, call, f"copy() does not pass `{dparam}`: the extra constitutive fields are lost",
                  construct=f"copy {dparam} <- missing")
    else:
        if not isinstance(d_arg, ast.Name):
            raise Undecided(f"{q}: {dparam}={u(d_arg)} is not a local dict")
        dn = d_arg.id
        cl = [s for s in stmts_local(cp) if isinstance(s, ast.For) and any(isinstance(x, ast.Assign) and isinstance(x.targets[0], ast.Subscript)
                                                                        and u(x.targets[0].value) == dn for x in s.body)]
        if len(cl) != 1:
            raise Undecided(f"{q}: dict `{dn}` is not filled in one loop")
        lp = cl[0]
        it_ok = u(lp.iter) == f"self.{mats_attr}.items()" and isinstance(lp.target, ast.Tuple) and len(lp.target.elts) == 2
        ctx.check("R3", it_ok, mod, q, lp, f"copy() must pass every extra field on: iterate self.{mats_attr}.items() (found {u(lp.iter)})",
                  construct=f"extra fields loop over {u(lp.iter)}", desc="copy() passes every extra field on")
        if it_ok:
            k2, m2 = u(lp.target.elts[0]), u(lp.target.elts[1])
            st = [x for x in lp.body if isinstance(x, ast.Assign) and isinstance(x.targets[0], ast.Subscript) and u(x.targets[0].value) == dn]
            if len(st) != 1 or u(st[0].targets[0].slice) != k2 or not (isinstance(st[0].value, ast.Tuple) and len(st[0].value.elts) == 2):
                raise Undecided(f"{q}: `{dn}[{k2}]` is not assigned a (matrix, field) pair")
            me, fe = st[0].value.elts
            fresh, inner = _fresh_source(fe)
            src = _self_attr(inner)
            if src is None and not fresh:
                raise Undecided(f"{q}: field expression {u(fe)} not recognised")
            ctx.check("R3", fresh and src == f"<getattr:{k2}>", mod, q, st[0],
                      f"copy() passes the field {u(fe)} for key {k2}: " + ("it is kept by reference (setattr(self, key, field)), so the copy "
                                                                          "shares the array with the original" if not fresh else f"taken from {src}"),
                      construct=f"extra field <- {u(fe)}", desc="copy() passes a fresh copy of each extra field")
            ctx.check("R3", u(me) == m2, mod, q, st[0], f"copy() pairs key {k2} with {u(me)} instead of its own basis matrix {m2}",
                      construct=f"extra matrix <- {u(me)}", desc="copy() pairs each extra field with its own basis matrix")
    # whitelist: the shared basis matrices are never written in place
    cls_nodes = list(ast.walk(S4))
    writes = []
    for s in cls_nodes:
        if isinstance(s, (ast.Assign, ast.AugAssign)):
            for t in assigned_targets(s):
                root = t
                depth = 0
                while isinstance(root, ast.Subscript):
                    root, depth = root.value, depth + 1
                if (isinstance(root, ast.Name) and root.id == mat and (depth >= 1 or isinstance(s, ast.AugAssign))) or \
                        (_self_attr(root) == mats_attr and depth >= 2):
                    writes.append(s)
    ctx.check("R3", not writes, mod, "FourthOrderTensor", writes[0] if writes else S4,
              f"a basis matrix shared between a tensor and its copies through self.{mats_attr} is written in place",
              construct=u(writes[0]) if writes else f"self.{mats_attr} matrices are read-only",
              desc=f"basis matrices shared through self.{mats_attr} are never written in place")
    if new is not None:
        _post_stores_fresh(ctx, mod, q, cp, new)


# ---------------- R4 ---------------------------------------------------------------------------

def _r4_restrict(ctx: Ctx, mod, T, S4) -> None:
    fn = methods(T).get("restrict_to_cells")
    if fn is None:
        raise AnchorError(f"{TEN}:Tensor.restrict_to_cells missing")
    q = "Tensor.restrict_to_cells"
    ps = _params(fn)
    if len(ps) != 2:
        raise AnchorError(f"{q}: expected (self, cells)")
    cells = ps[1]
    binds = [s for s in body_nodoc(fn) if isinstance(s, ast.Assign) and len(s.targets) == 1 and isinstance(s.targets[0], ast.Name)
             and any(isinstance(c, ast.Call) for c in [s.value]) or (isinstance(s, ast.Assign) and u(s.value) == "self")]
    tmp = None
    tmp_stmt = None
    for s in binds:
        if u(s.value) in ("self.copy()", "copy.deepcopy(self)", "self"):
            tmp, tmp_stmt = s.targets[0].id, s
    # what is mutated?
    mutated = set()
    for s in stmts_local(fn):
        if isinstance(s, ast.Assign):
            for t in s.targets:
                if isinstance(t, ast.Attribute) and isinstance(t.value, ast.Name):
                    mutated.add(t.value.id)
        for c in (calls_in(s) if isinstance(s, ast.Expr) else []):
            if isinstance(c.func, ast.Name) and c.func.id == "setattr" and c.args and isinstance(c.args[0], ast.Name):
                mutated.add(c.args[0].id)
    if not mutated:
        raise Undecided(f"{q}: no attribute is restricted")
    on_copy = tmp is not None and u(tmp_stmt.value) != "self" and mutated == {tmp}
    ctx.check("R4", on_copy, mod, q, tmp_stmt or fn,
              f"restrict_to_cells mutates {sorted(mutated)}; it must work on `self.copy()` only (the original tensor is used again "
              f"for other sub-grids)", construct=f"restrict works on {u(tmp_stmt.value) if tmp_stmt is not None else sorted(mutated)}",
              desc="restrict_to_cells works on self.copy()")
    obj = tmp if tmp is not None else sorted(mutated)[0]
    # loop over all constitutive parameters
    loops = [s for s in body_nodoc(fn) if isinstance(s, ast.For)]
    if len(loops) != 1 or not isinstance(loops[0].target, ast.Name):
        raise Undecided(f"{q}: expected one loop over the constitutive parameters")
    lp = loops[0]
    fld = lp.target.id
    it_ok = u(lp.iter) in (f"{obj}.constitutive_parameters", "self.constitutive_parameters")
    if not it_ok and "constitutive_parameters" not in u(lp.iter):
        raise Undecided(f"{q}: loop iterates {u(lp.iter)}")
    ctx.check("R4", it_ok, mod, q, lp, f"every constitutive parameter must be restricted; loop iterates {u(lp.iter)}",
              construct=f"restrict loop over {u(lp.iter)}", desc="loop covers all constitutive parameters")
    sets = [c for c in calls_in(lp) if isinstance(c.func, ast.Name) and c.func.id == "setattr"]
    if len(sets) != 1 or len(sets[0].args) != 3:
        raise Undecided(f"{q}: expected one setattr in the loop")
    sa = sets[0]
    val = sa.args[2]
    env = {}
    for s in lp.body:
        if isinstance(s, ast.Assign) and len(s.targets) == 1 and isinstance(s.targets[0], ast.Name):
            env[s.targets[0].id] = s.value
    ok = False
    got = u(val)
    if isinstance(val, ast.Subscript):
        base = val.value
        if isinstance(base, ast.Name) and base.id in env:
            base = env[base.id]
        while isinstance(base, ast.Call) and call_name(base) == "cast" and len(base.args) == 2:
            base = base.args[1]
        got = f"{u(base)}[{u(val.slice)}]"
        ok = (u(sa.args[0]) == obj and u(sa.args[1]) == fld and u(val.slice) == cells
              and u(base) in (f"getattr({obj}, {fld})", f"getattr(self, {fld})"))
    else:
        raise Undecided(f"{q}: restricted value {u(val)} is not a subscript")
    ctx.check("R4", ok, mod, q, sa, f"each parameter must be replaced by itself restricted to `{cells}` on its only axis; found "
              f"setattr({u(sa.args[0])}, {u(sa.args[1])}, {got})", construct=f"restrict field: setattr({u(sa.args[0])}, {u(sa.args[1])}, {got})",
              desc="each constitutive parameter is replaced by itself[cells]")
    # values on the last axis
    vs = [s for s in body_nodoc(fn) if isinstance(s, ast.Assign) and any(isinstance(t, ast.Attribute) and t.attr == "values" for t in s.targets)]
    if len(vs) != 1:
        ctx.check("R4", False, mod, q, fn, "the `values` array is not restricted", construct="restrict values <- missing")
    else:
        v = vs[0].value
        if not isinstance(v, ast.Subscript):
            raise Undecided(f"{q}: {u(vs[0])} is not a subscript")
        sl = v.slice
        elts = sl.elts if isinstance(sl, ast.Tuple) else [sl]
        full = lambda e: isinstance(e, ast.Slice) and e.lower is None and e.upper is None  # noqa: E731
        last_axis = (len(elts) == 3 and full(elts[0]) and full(elts[1]) and u(elts[2]) == cells) or \
                    (len(elts) == 2 and isinstance(elts[0], ast.Constant) and elts[0].value is Ellipsis and u(elts[1]) == cells)
        base_ok = u(v.value) in (f"{obj}.values", "self.values")
        ctx.check("R4", last_axis and base_ok, mod, q, vs[0],
                  f"values has shape (n, n, num_cells): it must be restricted as values[:, :, {cells}]; found {u(v)}",
                  construct=f"restrict values: {u(v)}", desc="values restricted on the cell (last) axis")
    rets = [s for s in stmts_local(fn) if isinstance(s, ast.Return)]
    ctx.check("R4", len(rets) == 1 and u(rets[0].value) == obj and obj != "self", mod, q, rets[0] if rets else fn,
              "the restricted copy must be returned", construct=f"restrict returns {u(rets[0].value) if rets else None}")
    # completeness of constitutive_parameters for FourthOrderTensor
    init = methods(S4)["__init__"]
    prop = methods(S4).get("constitutive_parameters")
    if prop is None:
        raise AnchorError("FourthOrderTensor.constitutive_parameters missing")
    pr = [s for s in stmts_local(prop) if isinstance(s, ast.Return)]
    lst_attr = _self_attr(pr[0].value) if len(pr) == 1 and pr[0].value is not None else None
    if lst_attr is None:
        raise Undecided("FourthOrderTensor.constitutive_parameters does not return an attribute of self")
    lits = [s for s in stmts_local(init) if isinstance(s, ast.Assign) and any(u(t) == f"self.{lst_attr}" for t in s.targets)]
    if len(lits) != 1 or not isinstance(lits[0].value, ast.List) or not all(isinstance(e, ast.Constant) for e in lits[0].value.elts):
        raise Undecided(f"FourthOrderTensor.__init__: self.{lst_attr} is not one list literal")
    listed = {e.value for e in lits[0].value.elts}
    q4 = "FourthOrderTensor.__init__"
    for p, attr in sorted(_byref_params(init).items()):
        ctx.check("R4", attr in listed, mod, q4, lits[0],
                  f"per-cell array self.{attr} is stored but not listed in constitutive_parameters {sorted(listed)}: restrict_to_cells "
                  f"leaves it at full size", construct=f"constitutive parameter {attr} listed: {attr in listed}",
                  desc=f"self.{attr} is listed in constitutive_parameters")
    for lp2 in [s for s in stmts_local(init) if isinstance(s, ast.For)]:
        sf = [c for c in calls_in(lp2) if isinstance(c.func, ast.Name) and c.func.id == "setattr" and len(c.args) == 3 and u(c.args[0]) == "self"]
        for c in sf:
            k = u(c.args[1])
            app = [a for a in calls_in(lp2) if isinstance(a.func, ast.Attribute) and a.func.attr == "append"
                   and _self_attr(a.func.value) == lst_attr and [u(x) for x in a.args] == [k]]
            top = [s for s in lp2.body if isinstance(s, ast.Expr) and s.value in app]
            ctx.check("R4", bool(top), mod, q4, c,
                      f"extra field setattr(self, {k}, ...) is not appended to self.{lst_attr}: restrict_to_cells leaves it at full size",
                      construct=f"extra field {k} appended to {lst_attr}: {bool(top)}",
                      desc="every extra field is appended to constitutive_parameters")


# ---------------- R5 ---------------------------------------------------------------------------

class _Labels:
    def __init__(self):
        self.n = 0

    def new(self) -> int:
        self.n += 1
        return self.n


def _term(e: ast.expr, R: str, lab: _Labels):
    """-> (factors: list[(name, [labels])], free: [labels])."""
    if isinstance(e, ast.Name) and e.id == R:
        a, b = lab.new(), lab.new()
        return [("R", [a, b])], [a, b]
    if isinstance(e, ast.Attribute) and e.attr == "T" and isinstance(e.value, ast.Name) and e.value.id == R:
        a, b = lab.new(), lab.new()
        return [("R", [a, b])], [b, a]
    if u(e) == "self.values":
        i, j, c = lab.new(), lab.new(), lab.new()
        return [("K", [i, j, c])], [i, j, c]
    if isinstance(e, ast.Call) and call_name(e) == "tensordot" and len(e.args) >= 2:
        ax = e.args[2] if len(e.args) > 2 else kwarg(e, "axes")
        if not (isinstance(ax, ast.Tuple) and len(ax.elts) == 2 and all(_const_int(x) is not None for x in ax.elts)):
            raise Undecided(f"tensordot axes {u(ax) if ax is not None else None} are not a pair of literal ints")
        p, qx = ax.elts[0].value, ax.elts[1].value
        fa, xa = _term(e.args[0], R, lab)
        fb, xb = _term(e.args[1], R, lab)
        if not (-len(xa) <= p < len(xa) and -len(xb) <= qx < len(xb)):
            raise Undecided("tensordot axis out of range")
        la, lb = xa[p], xb[qx]
        fb = [(n, [la if x == lb else x for x in ix]) for n, ix in fb]
        xb2 = [x for k, x in enumerate(xb) if k != qx % len(xb)]
        xa2 = [x for k, x in enumerate(xa) if k != p % len(xa)]
        return fa + fb, xa2 + xb2
    raise Undecided(f"rotation expression `{u(e)[:60]}` is not a nest of np.tensordot over R, R.T and self.values")


def _r5_rotate(ctx: Ctx, mod, S2) -> None:
    fn = methods(S2).get("rotate")
    if fn is None:
        raise AnchorError(f"{TEN}:SecondOrderTensor.rotate missing")
    q = "SecondOrderTensor.rotate"
    ps = _params(fn)
    if len(ps) != 2:
        raise AnchorError(f"{q}: expected (self, R)")
    R = ps[1]
    st = [s for s in stmts_local(fn) if isinstance(s, ast.Assign) and any(u(t) == "self.values" for t in s.targets)]
    if len(st) != 1:
        raise Undecided(f"{q}: self.values is not assigned exactly once")
    factors, free = _term(inline_locals(fn, st[0].value, stop={"self", R}), R, _Labels())
    Rs = [ix for n, ix in factors if n == "R"]
    Ks = [ix for n, ix in factors if n == "K"]
    problems = []
    if len(Rs) != 2 or len(Ks) != 1:
        problems.append(f"{len(Rs)} rotation factors and {len(Ks)} tensor factors (need R, R and K)")
    else:
        i, j, c = Ks[0]
        sides = []
        used = set()
        for ix in Rs:
            hit = [(pos, lab) for pos, lab in enumerate(ix) if lab in (i, j)]
            if len(hit) != 1:
                problems.append("a rotation factor is not contracted with exactly one tensor index of K")
                continue
            sides.append(hit[0][0])
            used.add(hit[0][1])
            other = ix[1 - hit[0][0]]
            if other not in free:
                problems.append("the uncontracted index of a rotation factor is not an output index")
        if used != {i, j}:
            problems.append("both rotation factors are contracted with the same index of K (or one index of K is left over)")
        if len(sides) == 2 and sides[0] != sides[1]:
            problems.append("one factor is contracted through its rows and the other through its columns: the result is R K R "
                            "(or R^T K R^T), not a similarity transform")
        if c not in free or free[-1] != c or len(free) != 3:
            problems.append(f"the cell axis must stay the last of three output axes (output has {len(free)} axes)")
    ctx.check("R5", not problems, mod, q, st[0],
              "rotation must be R K R^T (or R^T K R) cell by cell: " + "; ".join(problems),
              construct="rotate: " + ("similarity contraction" if not problems else "; ".join(problems)),
              facts={"factors": [(n, ix) for n, ix in factors], "free": free},
              desc="rotate contracts both rotation factors on the same side with the two tensor indices (similarity transform)")


# ----------------------------------------------------------------------------------------
def _m(name, old, new, rule, control=False, count=1):
    return dict(name=name, file=TEN, old=old, new=new, rule=rule, control=control, count=count)


MUTANTS = [
    _m("perm01-store-removed", "        perm[1, 0, ::] = kxy\n        perm[0, 1, ::] = kxy\n", "        perm[1, 0, ::] = kxy\n", "R1", control=True),
    _m("perm02-stores-kyz", "        perm[0, 2, ::] = kxz\n", "        perm[0, 2, ::] = kyz\n", "R1"),
    _m("perm12-negated", "        perm[1, 2, ::] = kyz\n", "        perm[1, 2, ::] = -kyz\n", "R1"),
    _m("mu-basis-asymmetric", "                [2, 0, 0, 0, 0, 0, 0, 0, 0],\n                [0, 1, 0, 1, 0, 0, 0, 0, 0],\n",
       "                [2, 0, 0, 0, 0, 0, 0, 0, 0],\n                [0, 1, 0, 0, 0, 0, 0, 0, 0],\n", "R2"),
    _m("lmbda-basis-asymmetric", "        lmbda_mat = np.array(\n            [\n                [1, 0, 0, 0, 1, 0, 0, 0, 1],\n",
       "        lmbda_mat = np.array(\n            [\n                [1, 0, 0, 0, 1, 0, 0, 0, 0],\n", "R2"),
    _m("mu-basis-minor-symmetry-broken",
       "                [0, 1, 0, 1, 0, 0, 0, 0, 0],\n                [0, 0, 1, 0, 0, 0, 1, 0, 0],\n                [0, 1, 0, 1, 0, 0, 0, 0, 0],\n",
       "                [0, 2, 0, 0, 0, 0, 0, 0, 0],\n                [0, 0, 1, 0, 0, 0, 1, 0, 0],\n                [0, 0, 0, 2, 0, 0, 0, 0, 0],\n", "R2"),
    _m("copy4-passes-self-mu", "            mu=self.mu.copy(), lmbda=self.lmbda.copy(), other_fields=extra_params\n",
       "            mu=self.mu, lmbda=self.lmbda.copy(), other_fields=extra_params\n", "R3", control=True),
    _m("copy4-mu-from-lmbda", "            mu=self.mu.copy(), lmbda=self.lmbda.copy(), other_fields=extra_params\n",
       "            mu=self.lmbda.copy(), lmbda=self.lmbda.copy(), other_fields=extra_params\n", "R3"),
    _m("copy4-extra-field-aliased", "            extra_params[key] = (mat, getattr(self, key).copy())\n", "            extra_params[key] = (mat, getattr(self, key))\n", "R3"),
    _m("copy4-values-aliased", "        C.values = self.values.copy()\n", "        C.values = self.values\n", "R3"),
    _m("copy4-drops-extra-fields", "            mu=self.mu.copy(), lmbda=self.lmbda.copy(), other_fields=extra_params\n",
       "            mu=self.mu.copy(), lmbda=self.lmbda.copy()\n", "R3"),
    _m("copy2-kxz-from-wrong-component", "        kxz = self.values[2, 0].copy()\n", "        kxz = self.values[2, 1].copy()\n", "R3"),
    _m("copy2-drops-kyz", "kxy=kxy, kxz=kxz, kyy=kyy, kyz=kyz, kzz=kzz)", "kxy=kxy, kxz=kxz, kyy=kyy, kzz=kzz)", "R3"),
    _m("copy2-kxy-kxz-crossed", "kxy=kxy, kxz=kxz, kyy=kyy, kyz=kyz, kzz=kzz)", "kxy=kxz, kxz=kxy, kyy=kyy, kyz=kyz, kzz=kzz)", "R3"),
    _m("init4-writes-basis-in-place", "            c += mat[:, :, np.newaxis] * field\n", "            mat *= 1.0\n            c += mat[:, :, np.newaxis] * field\n", "R3"),
    _m("restrict-on-self", "        tmp_tensor = self.copy()\n", "        tmp_tensor = self\n", "R4"),
    _m("restrict-values-wrong-axis", "        tmp_tensor.values = tmp_tensor.values[::, ::, cells]\n", "        tmp_tensor.values = tmp_tensor.values[::, cells]\n", "R4"),
    _m("restrict-skips-first-parameter", "        for field in tmp_tensor.constitutive_parameters:\n", "        for field in tmp_tensor.constitutive_parameters[1:]:\n", "R4"),
    _m("restrict-values-dropped", "        tmp_tensor.values = tmp_tensor.values[::, ::, cells]\n", "", "R4"),
    _m("lmbda-not-listed", "        self._constitutive_parameters = [\"mu\", \"lmbda\"]\n", "        self._constitutive_parameters = [\"mu\"]\n", "R4"),
    _m("extra-field-not-listed", "            self._constitutive_parameters.append(key)\n", "", "R4"),
    _m("rotate-mixed-sides", "np.tensordot(R, self.values, (1, 0)), (0, 1))", "np.tensordot(R, self.values, (0, 0)), (0, 1))", "R5"),
    _m("rotate-without-transpose", "np.tensordot(R.T, np.tensordot(R, self.values, (1, 0)), (0, 1))", "np.tensordot(R, np.tensordot(R, self.values, (1, 0)), (0, 1))", "R5"),
    _m("rotate-same-index-twice", "np.tensordot(R, self.values, (1, 0)), (0, 1))", "np.tensordot(R, self.values, (1, 0)), (0, 0))", "R5"),
]
