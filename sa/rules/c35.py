"""C35 - sparse-matrix utilities: structural clauses of the compressed-storage helpers.

Nothing is executed.  The helpers in numerics/linalg/matrix_operations.py and utils/array_operations.py are
read as programs over the CSR/CSC storage triple (data, indices, indptr); the rules below decide clauses whose
truth is visible in the shape + dataflow of the code (format<->axis agreement, pointer windows, parallel
treatment of data and indices, closed-form pointer algebra, lock-step filtering, sibling axis agreement,
Kronecker numbering convention).
"""
from __future__ import annotations

import ast
import copy
from typing import Optional

from ..core.astutil import u, call_name, names_in, stmts_local, parent_map, assigned_targets, kwarg
from ..core.loader import AnchorError, Undecided
from ..core.report import Ctx
from ..core import cfg as cfgmod
from .c14 import Fn, Def, base_name
from .c34 import normalise

MO = "src/porepy/numerics/linalg/matrix_operations.py"
AO = "src/porepy/utils/array_operations.py"

META = {
    "explanation": (
        "Structural clauses of the compressed-storage utilities, decided on the syntax trees (after one level of helper "
        "inlining and with temporaries resolved by reaching definitions). R1 format<->axis table: in CSR the pointer array "
        "runs over rows (axis 0) and `indices` holds column numbers (axis 1), in CSC the reverse; inside every arm guarded "
        "by a format test the constructor used, the extent added to `indices`, the extent kept in a constructor shape, the "
        "extents compared before stacking/merging and the component of `_shape` that grows must be the ones of that format; "
        "zero_rows/zero_columns demand the format whose pointer axis is the axis in their name before touching data; the "
        "csr_*/csc_* wrappers pass their own format. (A swapped axis is invisible on square blocks.) "
        "R2 pointer windows: every expand_index_pointers(P[x], P[x+1]) / slice(P[x], P[x+1]) takes both bounds from the same "
        "pointer array at x and x+1, and the result only indexes data/indices of the matrix that owns P. "
        "R3 parallel arrays: the expressions that become `indices` and `data` of a result are the same "
        "selection/concatenation (modulo the offset added to indices), with data first and indices second in constructor "
        "triples. R4 expand_index_pointers: lo and hi are filtered by one mask that is true exactly for non-empty intervals, "
        "the interval length equals hi-lo, and the jump written at the start of interval k+1 equals lo[k+1] minus the last "
        "value of interval k (linear-form identities on the extracted formulas). R5 rldecode: the values gathered by the "
        "run index live on the same (filtered) runs as the counts. R6 rlencode/rldecode internals: positive-count mask, "
        "marks on interior pointers only, adjacent-column comparison reduced over the other axis, sentinel/final index such "
        "that the counts sum to the compressed extent, representative taken along the compressed axis. R7 merge_matrices: "
        "np.insert places B's entries in B-line order at tied positions, so the replaced lines must be known ascending (raise-guard) or be "
        "sorted with B's lines gathered by the same permutation along the line axis of the format. "
        "R8 rlencode and rldecode act along the same axis (round trip). R9 Kronecker numbering: expand_indices_nd numbers "
        "nd*index+component and emits all components of an index together; sparse_kronecker_product is kron(M, eye(nd)) "
        "(same numbering on rows and columns). R10 every return of stack_diag has the shape (A0+B0, A1+B1). Not decided: values of any result; block_diag_index / block_diag_matrix; "
        "invert_diagonal_blocks; ArraySlicer (C36); scipy's own semantics (trusted)."),
    "rule_text": "one obligation per (format arm x role site | pointer window | window consumer | indices/data pair | "
                 "extracted identity | wrapper | convention slot)",
    "trusted_base": ["python ast", "sa.core (loader, astutil, cfg)", "sa.rules.c14.Fn (reaching definitions, dominance)",
                     "sa.rules.c34.normalise (helper inlining)",
                     "scipy CSR/CSC storage convention: csr -> indptr over rows, indices = columns; csc -> the reverse; "
                     "constructor triple is (data, indices, indptr)",
                     "numpy semantics of cumsum/diff/hstack/insert/repeat/kron/ravel (tables in this module)"],
    "assumptions": ["inside an arm guarded by a format test every compressed matrix handled has that format (the functions' "
                    "own guards establish it)",
                    "rldecode's parameters A and n are parallel (n[k] repetitions of A[k])",
                    "rlencode is applied to 2-d arrays"],
    "technique": "format/axis typing of guarded arms + pointer-window dataflow + linear-form identities on extracted "
                 "formulas + small symbolic executors for the run-length pair",
}
MIN_INSTANCES = {"R1": 26, "R2": 10, "R3": 6, "R4": 5, "R5": 1, "R6": 9, "R7": 1, "R8": 1, "R9": 6, "R10": 2}

FMT = {"csr": {"line": 0, "idx": 1}, "csc": {"line": 1, "idx": 0}}
OTHER = {"csr": "csc", "csc": "csr"}
CTOR_FMT = {"csr_matrix": "csr", "csr_array": "csr", "csc_matrix": "csc", "csc_array": "csc"}
AXIS_NAME = {0: "rows", 1: "columns"}


# =====================================================================================
#  function view: normalised copy + reaching definitions
# =====================================================================================

def _public_names(mod, qual: str) -> frozenset:
    """Public API functions/methods are atomic for the analysis (never inlined)."""
    out = set()
    for st in mod.tree.body:
        if isinstance(st, ast.FunctionDef) and not st.name.startswith("_"):
            out.add(st.name)
    if "." in qual:
        c = mod.get(qual.rsplit(".", 1)[0])
        if isinstance(c, ast.ClassDef):
            for st in c.body:
                if isinstance(st, ast.FunctionDef) and not st.name.startswith("_"):
                    out.add(st.name)
    return frozenset(out)


def _split_shape_unpacking(fn: ast.AST) -> None:
    """`r, c = X.shape`  ->  `r = X.shape[0]; c = X.shape[1]`  (behaviour preserving; makes the axes visible)"""
    def block(stmts: list) -> None:
        i = 0
        while i < len(stmts):
            s = stmts[i]
            if isinstance(s, ast.Assign) and len(s.targets) == 1 and isinstance(s.targets[0], ast.Tuple) and len(s.targets[0].elts) == 2 \
                    and all(isinstance(t, ast.Name) for t in s.targets[0].elts) and isinstance(s.value, ast.Attribute) \
                    and s.value.attr in ("shape", "_shape"):
                new = []
                for k, t in enumerate(s.targets[0].elts):
                    a = ast.Assign(targets=[ast.Name(id=t.id, ctx=ast.Store())],  # type: ignore[attr-defined]
                                   value=ast.Subscript(value=copy.deepcopy(s.value), slice=ast.Constant(value=k), ctx=ast.Load()))
                    new.append(ast.fix_missing_locations(ast.copy_location(a, s)))
                stmts[i:i + 1] = new
                i += 2
                continue
            for fld in ("body", "orelse", "finalbody"):
                b = getattr(s, fld, None)
                if isinstance(b, list) and b and isinstance(b[0], ast.stmt) and not isinstance(s, (ast.FunctionDef, ast.ClassDef)):
                    block(b)
            for h in getattr(s, "handlers", []) or []:
                block(h.body)
            i += 1
    block(fn.body)  # type: ignore[attr-defined]


class View(Fn):
    """c14.Fn (statement order, CFG, reaching definitions) over a copy of the function on which one level of
    same-module private helpers has been inlined (c34.normalise)."""

    def __init__(self, mod, qual: str, inline: bool = True):
        self.mod, self.qual = mod, qual
        orig = mod.func(qual)
        c = mod.get(qual.rsplit(".", 1)[0]) if "." in qual else None
        c = c if isinstance(c, ast.ClassDef) else None
        self.fn = normalise(mod, orig, cls=c, exclude=_public_names(mod, qual)) if inline else copy.deepcopy(orig)
        if inline:
            from .c14 import _Desugar
            _Desugar(mod, self.fn, c).inline_helpers()  # private static/class-method helpers with a straight-line body
            ast.fix_missing_locations(self.fn)
        _split_shape_unpacking(self.fn)
        self.params = [a.arg for a in self.fn.args.args + self.fn.args.kwonlyargs]
        self.stmts = list(stmts_local(self.fn))
        self.order = {id(s): i for i, s in enumerate(self.stmts)}
        self.pm = parent_map(self.fn)
        self.cfg = cfgmod.build(self.fn)
        self._node = {id(s): n for n, s in self.cfg.stmt.items()}
        self._dom = self.cfg.dominators()
        self.defs: dict[str, list[Def]] = {}
        self.no_expand: set[str] = set()
        for s in self.stmts:
            if isinstance(s, ast.Assign):
                for t in s.targets:
                    self._bind(t, s.value, s)
            elif isinstance(s, ast.AnnAssign) and s.value is not None:
                self._bind(s.target, s.value, s)
            elif isinstance(s, ast.AugAssign):
                b = base_name(s.target)
                if b:
                    self._add(b, Def(s, "aug" if isinstance(s.target, ast.Name) else "sub", s.value))
            elif isinstance(s, ast.For):
                for t in assigned_targets(s):
                    if isinstance(t, ast.Name):
                        self._add(t.id, Def(s, "for", None))

    def canon2(self, e: ast.expr, at: ast.stmt, depth: int = 8) -> ast.expr:
        """e with every name that has a unique reaching plain definition replaced by that definition; names inside
        the definition are resolved at the definition's own statement (so `p = p - k` does not loop)."""
        outer = self

        class T(ast.NodeTransformer):
            def __init__(self, at_, d):
                self.at, self.d = at_, d

            def visit_Name(self, n: ast.Name):
                if isinstance(n.ctx, ast.Load) and self.d > 0:
                    dd = outer.unique_def(n.id, self.at)
                    if dd is not None and dd.kind == "plain" and dd.value is not None:
                        if n.id in outer.params and not outer.precedes(dd.stmt, self.at):
                            return n  # a parameter re-bound on some paths only
                        if n.id in names_in(dd.value) and dd.stmt is self.at:
                            return n
                        return T(dd.stmt, self.d - 1).visit(copy.deepcopy(dd.value))
                return n

        return T(at, depth).visit(copy.deepcopy(e))

    def stmt_at(self, node: ast.AST) -> ast.stmt:
        return self.stmt_of(node)


def _nodes(f: View):
    """all expression/statement nodes of the body (not the signature)"""
    for s in f.fn.body:
        yield from ast.walk(s)


def _const_int(e: ast.AST) -> Optional[int]:
    if isinstance(e, ast.Constant) and isinstance(e.value, int) and not isinstance(e.value, bool):
        return e.value
    if isinstance(e, ast.UnaryOp) and isinstance(e.op, ast.USub) and isinstance(e.operand, ast.Constant) \
            and isinstance(e.operand.value, int):
        return -e.operand.value
    return None


def _raises(body: list) -> bool:
    return bool(body) and isinstance(body[-1], ast.Raise)


def _terminal(body: list) -> bool:
    return bool(body) and isinstance(body[-1], (ast.Raise, ast.Return))


# =====================================================================================
#  R1  format <-> axis
# =====================================================================================

def _fmt_subject(l: ast.expr) -> Optional[str]:
    if isinstance(l, ast.Call) and call_name(l) == "getformat" and isinstance(l.func, ast.Attribute) and not l.args:
        return u(l.func.value)
    if isinstance(l, ast.Attribute) and l.attr == "format":
        return u(l.value)
    if isinstance(l, ast.Name):
        return "$" + l.id
    return None


def _fmt_atom(e: ast.expr) -> Optional[tuple[str, str, bool]]:
    """(subject, format, is_equal) for a test `X.getformat() == "csr"` and its spellings."""
    if isinstance(e, ast.UnaryOp) and isinstance(e.op, ast.Not):
        a = _fmt_atom(e.operand)
        return (a[0], a[1], not a[2]) if a else None
    if isinstance(e, ast.Compare) and len(e.ops) == 1 and isinstance(e.ops[0], (ast.Eq, ast.NotEq)):
        l, r = e.left, e.comparators[0]
        if isinstance(l, ast.Constant):
            l, r = r, l
        if isinstance(r, ast.Constant) and r.value in FMT:
            s = _fmt_subject(l)
            if s:
                return s, r.value, isinstance(e.ops[0], ast.Eq)
    if isinstance(e, ast.Call) and call_name(e) in ("isspmatrix_csr", "isspmatrix_csc") and len(e.args) == 1:
        return u(e.args[0]), call_name(e)[-3:], True  # type: ignore[index]
    return None


def _restricted(f: View) -> bool:
    """Does the function reject every format other than csr/csc (so that `not csc` means csr)?"""
    for n in _nodes(f):
        if isinstance(n, ast.If) and _raises(n.body) and isinstance(n.test, ast.BoolOp) and isinstance(n.test.op, ast.And):
            atoms = [_fmt_atom(v) for v in n.test.values]
            if all(a is not None and not a[2] for a in atoms) and {a[1] for a in atoms} == {"csr", "csc"}:  # type: ignore[index]
                return True
        if isinstance(n, ast.If) and _raises(n.body) and isinstance(n.test, ast.Compare) and len(n.test.ops) == 1 \
                and isinstance(n.test.ops[0], ast.NotIn) and isinstance(n.test.comparators[0], (ast.Tuple, ast.List, ast.Set)) \
                and {getattr(x, "value", None) for x in n.test.comparators[0].elts} == {"csr", "csc"}:
            return True
        if isinstance(n, ast.If):
            a = _fmt_atom(n.test)
            if a and a[2] and len(n.orelse) == 1 and isinstance(n.orelse[0], ast.If):
                b = _fmt_atom(n.orelse[0].test)
                if b and b[2] and {a[1], b[1]} == {"csr", "csc"} and _raises(n.orelse[0].orelse):
                    return True
        if isinstance(n, ast.Assert) and isinstance(n.test, ast.BoolOp) and isinstance(n.test.op, ast.Or):
            atoms = [_fmt_atom(v) for v in n.test.values]
            if all(a is not None and a[2] for a in atoms) and {a[1] for a in atoms} == {"csr", "csc"}:  # type: ignore[index]
                return True
    return False


class FmtCtx:
    """Format established at a node by the enclosing format tests and the preceding terminal guards."""

    def __init__(self, f: View):
        self.f = f
        self.restricted = _restricted(f)

    def facts(self, node: ast.AST) -> list[tuple[str, str, bool]]:
        f = self.f
        out = []
        cur = node
        while cur is not f.fn and cur in f.pm:
            par = f.pm[cur]
            if isinstance(par, (ast.If, ast.IfExp)) and cur is not par.test:
                a = _fmt_atom(par.test)
                in_body = (cur is par.body) if isinstance(par, ast.IfExp) else any(cur is x for x in par.body)
                if a:
                    out.append(a if in_body else (a[0], a[1], not a[2]))
                elif in_body and isinstance(par.test, ast.BoolOp) and isinstance(par.test.op, ast.And):
                    out += [b for b in map(_fmt_atom, par.test.values) if b]  # every conjunct holds in the body
            if isinstance(par, ast.BoolOp) and isinstance(par.op, ast.And):
                out += [b for v_ in par.values if v_ is not cur for b in [_fmt_atom(v_)] if b]  # `fmt == "csc" and <this>`
            # terminal guards earlier in the same block
            for fld in ("body", "orelse", "finalbody"):
                blk = getattr(par, fld, None)
                if isinstance(blk, list) and any(cur is x for x in blk):
                    for prev in blk[:[id(x) for x in blk].index(id(cur))]:
                        if isinstance(prev, ast.If) and not prev.orelse and _terminal(prev.body):
                            a = _fmt_atom(prev.test)
                            if a:
                                out.append((a[0], a[1], not a[2]))
            cur = par
        return out

    def fmt(self, node: ast.AST) -> Optional[str]:
        fs = self.facts(node)
        eq = {(s, k) for s, k, e in fs if e}
        if len({k for _, k in eq}) > 1:
            if len({s for s, _ in eq}) > 1:
                raise self.f.und("two different formats are established for two matrices in one arm", node)
            return None  # contradictory tests on one subject: dead code
        if eq:
            return next(iter(eq))[1]
        ne = {k for _, k, e in fs if not e}
        if len(ne) == 1 and self.restricted:
            return OTHER[next(iter(ne))]
        return None


def _shape_read(e: ast.AST) -> Optional[tuple[str, ast.expr]]:
    """X.shape[K] / X._shape[K] -> (text of X, K)"""
    if isinstance(e, ast.Subscript) and isinstance(e.value, ast.Attribute) and e.value.attr in ("shape", "_shape"):
        return u(e.value.value), e.slice
    return None


def _axis_values(f: View, fc: FmtCtx, K: ast.expr, at: ast.AST, depth: int = 3) -> list[tuple[int, Optional[str]]]:
    """possible (axis, format under which it is chosen) of a shape subscript K (a constant, or a name bound to
    constants in format arms / by a conditional expression on the format)."""
    k = _const_int(K)
    if k is not None:
        return [(k, fc.fmt(at))]
    if isinstance(K, ast.IfExp):
        a = _fmt_atom(K.test)
        kb, ko = _const_int(K.body), _const_int(K.orelse)
        if a and kb is not None and ko is not None:
            fb = a[1] if a[2] else (OTHER[a[1]] if fc.restricted else None)
            fo = (OTHER[a[1]] if fc.restricted else None) if a[2] else a[1]
            return [(kb, fb), (ko, fo)]
        raise f.und("axis chosen by a conditional expression that is not a format test", K)
    if isinstance(K, ast.Subscript) and isinstance(K.value, ast.Dict) and _fmt_subject(K.slice) is not None \
            and all(isinstance(k_, ast.Constant) and k_.value in FMT for k_ in K.value.keys) \
            and all(_const_int(v_) is not None for v_ in K.value.values):
        return [(_const_int(v_), k_.value) for k_, v_ in zip(K.value.keys, K.value.values)]  # type: ignore[misc,union-attr]
    if isinstance(K, ast.Name) and depth > 0:
        out = []
        for d in f.defs.get(K.id, []):
            if d.kind != "plain" or d.value is None:
                raise f.und(f"axis variable {K.id} is not bound by plain assignments", K)
            out += _axis_values(f, fc, d.value, d.value, depth - 1)
        if out:
            return out
    raise f.und("axis of a shape read is neither a constant nor chosen by a format test", K)


def _shape_reads_in(f: View, fc: FmtCtx, e: ast.expr, depth: int = 4) -> list[tuple[int, Optional[str], ast.AST]]:
    """all (axis, format, node) of shape reads that flow into e (through all definitions of the names in e)"""
    out = []
    seen: set = set()

    def walk(x: ast.AST, d: int, forced: Optional[str] = None) -> None:
        if isinstance(x, ast.IfExp) and _fmt_atom(x.test) is not None:
            a = _fmt_atom(x.test)
            other = OTHER[a[1]] if fc.restricted else None  # type: ignore[index]
            walk(x.body, d, a[1] if a[2] else other)  # type: ignore[index]
            walk(x.orelse, d, other if a[2] else a[1])  # type: ignore[index]
            return
        sr = _shape_read(x)
        if sr is not None:
            for k, fm in _axis_values(f, fc, sr[1], x):
                out.append((k, fm if fm is not None else forced, x))
            return
        if isinstance(x, ast.Name) and isinstance(x.ctx, ast.Load):
            if d > 0 and (x.id, forced) not in seen:
                seen.add((x.id, forced))  # type: ignore[arg-type]
                for dd in f.defs.get(x.id, []):
                    if dd.value is not None and dd.kind in ("plain", "aug"):
                        walk(dd.value, d - 1, forced)
            return
        for ch in ast.iter_child_nodes(x):
            walk(ch, d, forced)

    walk(e, depth)
    return out


def _mentions_attr(e: ast.AST, attr: str) -> bool:
    return any(isinstance(n, ast.Attribute) and n.attr == attr for n in ast.walk(e))


def rule_format_axis(ctx: Ctx, mod, quals: list[str]) -> None:
    for q in quals:
        f = View(mod, q)
        fc = FmtCtx(f)
        # (a) constructor <-> format of the arm
        for n in _nodes(f):
            nm = n.attr if isinstance(n, ast.Attribute) else (n.id if isinstance(n, ast.Name) else None)
            if nm in CTOR_FMT and isinstance(getattr(n, "ctx", None), ast.Load):
                F = fc.fmt(n)
                par = f.pm.get(n)
                if F is None and isinstance(par, ast.Dict) and any(v_ is n for v_ in par.values):
                    k_ = par.keys[[id(v_) for v_ in par.values].index(id(n))]
                    if isinstance(k_, ast.Constant) and k_.value in FMT:
                        F = k_.value  # {"csr": sps.csr_matrix, ...}[fmt]
                if F is None:
                    continue
                ctx.check("R1", CTOR_FMT[nm] == F, mod, q, n,
                          f"in the arm where the format is {F} the result is built with {nm} (a {CTOR_FMT[nm]} constructor): the "
                          f"storage triple of a {F} matrix would be reinterpreted with rows and columns exchanged",
                          construct=f"{F} arm: constructor {CTOR_FMT[nm]}", facts={"arm": F, "ctor": nm})
        # (b1) extents added to `indices`
        for n in _nodes(f):
            if isinstance(n, ast.BinOp) and isinstance(n.op, ast.Add):
                sides = [(n.left, n.right), (n.right, n.left)]
                for a, b in sides:
                    at = f.stmt_of(n)
                    ca = f.canon2(a, at) if isinstance(a, ast.Name) else a
                    if isinstance(ca, ast.Attribute) and ca.attr == "indices":
                        reads = _shape_reads_in(f, fc, b)
                        if not reads:
                            continue
                        for k, fm, node in reads:
                            if fm is None:
                                raise f.und("an extent is added to `indices` outside any format arm", n)
                            ctx.check("R1", k == FMT[fm]["idx"], mod, q, node,
                                      f"`indices` of a {fm} matrix holds {AXIS_NAME[FMT[fm]['idx']]} numbers, so the offset of the next "
                                      f"block is the extent along axis {FMT[fm]['idx']}; shape[{k}] is used (invisible on square blocks)",
                                      construct=f"{fm} arm: offset of indices = shape[{k}]", facts={"arm": fm, "axis": k})
                        break
        # (b2) constructor shape, (b3) compared extents, (b4) _shape updates
        for n in _nodes(f):
            if isinstance(n, ast.Call) and call_name(n) in CTOR_FMT:
                F = fc.fmt(n)
                shp = kwarg(n, "shape") or (n.args[1] if len(n.args) > 1 else None)
                at = f.stmt_of(n)
                if isinstance(shp, ast.Name):
                    shp = f.canon2(shp, at, depth=1)
                if F is None or not (isinstance(shp, ast.Tuple) and len(shp.elts) == 2):
                    continue
                els = [f.canon2(x, at) for x in shp.elts]
                rd = [_shape_read(x) for x in els]
                if not any(rd):
                    continue
                i = FMT[F]["idx"]
                ki = _const_int(rd[i][1]) if rd[i] else None
                ctx.check("R1", ki == i, mod, q, n,
                          f"slicing/stacking a {F} matrix along its pointer axis keeps the extent along axis {i}: position {i} of the "
                          f"result shape must be <matrix>.shape[{i}]; found shape=({', '.join(u(x) for x in els)})",
                          construct=f"{F} arm: result shape keeps axis {i}", facts={"arm": F, "shape": [u(x) for x in els]})
            if isinstance(n, ast.Compare) and len(n.ops) == 1 and _fmt_atom(n) is None:
                F = fc.fmt(n)
                if F is None:
                    continue
                l, r = _shape_read(n.left), _shape_read(n.comparators[0])
                if l and r and l[0] != r[0]:
                    kl, kr = _const_int(l[1]), _const_int(r[1])
                    if kl is None or kr is None:
                        raise f.und("compared extents with non-constant axes", n)
                    i = FMT[F]["idx"]
                    ctx.check("R1", kl == kr == i, mod, q, n,
                              f"two {F} matrices stacked/merged along the pointer axis must agree along axis {i} (the axis `indices` "
                              f"refers to); the test compares shape[{kl}] with shape[{kr}]",
                              construct=f"{F} arm: extents compared on axis {i}", facts={"arm": F, "axes": [kl, kr]})
                elif (l is None) != (r is None):
                    rd, other = (l, n.comparators[0]) if l else (r, n.left)
                    is_size = (isinstance(other, ast.Attribute) and other.attr == "size") or \
                              (isinstance(other, ast.Call) and call_name(other) == "len")
                    k = _const_int(rd[1])  # type: ignore[index]
                    if is_size and k is not None:
                        j = FMT[F]["line"]
                        ctx.check("R1", k == j, mod, q, n,
                                  f"the number of replaced lines of a {F} matrix is counted along its pointer axis {j}; the test uses "
                                  f"shape[{k}]", construct=f"{F} arm: line count on axis {j}", facts={"arm": F, "axis": k})
            if isinstance(n, ast.Assign) and len(n.targets) == 1 and isinstance(n.targets[0], ast.Attribute) \
                    and n.targets[0].attr in ("_shape", "shape") and isinstance(n.value, ast.Tuple) and len(n.value.elts) == 2:
                F = fc.fmt(n)
                if F is None:
                    continue
                i, j = FMT[F]["idx"], FMT[F]["line"]

                def reads(x):
                    return [(_const_int(_shape_read(m)[1])) for m in ast.walk(x) if _shape_read(m)]  # type: ignore[index]
                ei, ej = f.canon2(n.value.elts[i], n), f.canon2(n.value.elts[j], n)
                ri, rj = reads(ei), reads(ej)
                ok = ri == [i] and rj == [j, j] and isinstance(ej, ast.BinOp) and isinstance(ej.op, ast.Add)
                ctx.check("R1", ok, mod, q, n,
                          f"appending to a {F} matrix adds lines along axis {j} and leaves axis {i} unchanged; found {u(n.value)}",
                          construct=f"{F} arm: shape grows along axis {j}", facts={"arm": F, "value": u(n.value)})


def rule_name_axis(ctx: Ctx, mod) -> None:
    """zero_rows / zero_columns: the demanded format is the one whose pointer axis is the axis in the name."""
    for q, axis in (("zero_rows", 0), ("zero_columns", 1)):
        f = View(mod, q)
        want = next(k for k, v in FMT.items() if v["line"] == axis)
        guards = []
        for n in _nodes(f):
            if isinstance(n, ast.If) and _raises(n.body) and not n.orelse:
                a = _fmt_atom(n.test)
                if a and not a[2]:
                    guards.append((n, a[1]))
            if isinstance(n, ast.If) and n.orelse and _raises(n.orelse):
                a = _fmt_atom(n.test)
                if a and a[2]:
                    guards.append((n, a[1]))
        stores = [s for s in f.stmts if isinstance(s, (ast.Assign, ast.AugAssign))
                  and any(isinstance(t, ast.Subscript) and isinstance(t.value, ast.Attribute) and t.value.attr == "data"
                          for t in (s.targets if isinstance(s, ast.Assign) else [s.target]))]
        if not stores:
            raise AnchorError(f"{MO}:{q}: no store into <matrix>.data[...]")
        if not guards:
            if any(_fmt_atom(n) for n in _nodes(f) if isinstance(n, ast.expr)):
                raise f.und("format test present but not a recognised raise-guard")
            ctx.check("R1", False, mod, q, f.fn,
                      f"{q} addresses `data` through the pointer array, which runs over {AXIS_NAME[axis]} only for {want}; without a "
                      f"format guard a matrix of the other format has entries of its {AXIS_NAME[1 - axis]} zeroed silently",
                      construct=f"{q}: format guard")
            continue
        g, fm = guards[0]
        ctx.check("R1", fm == want, mod, q, g,
                  f"{q} zeroes whole {AXIS_NAME[axis]}: the pointer array must run over axis {axis}, i.e. the matrix must be {want}; "
                  f"the guard demands {fm}", construct=f"{q}: demanded format", facts={"demanded": fm, "needed": want})
        for s in stores:
            ctx.check("R1", (not isinstance(g, ast.If)) or f.dominates(g, s) or f.contains(g, s), mod, q, s,
                      "the format guard must be evaluated before data is modified", construct=f"{q}: guard precedes the store")


def rule_wrappers(ctx: Ctx, mod) -> None:
    for q in ("csr_matrix_from_sparse_blocks", "csc_matrix_from_sparse_blocks",
              "csr_matrix_from_dense_blocks", "csc_matrix_from_dense_blocks"):
        fn = mod.func(q)
        want = q[:3]
        rets = [n for n in ast.walk(fn) if isinstance(n, ast.Return) and isinstance(n.value, ast.Call)]
        found = []
        for r in rets:
            for a in list(r.value.args) + [k.value for k in r.value.keywords]:  # type: ignore[union-attr]
                if isinstance(a, ast.Constant) and a.value in FMT:
                    found.append((r, a.value))
                nm = a.attr if isinstance(a, ast.Attribute) else (a.id if isinstance(a, ast.Name) else None)
                if nm in CTOR_FMT:
                    found.append((r, CTOR_FMT[nm]))
        if len(found) != 1:
            raise Undecided(f"{MO}:{q}: the wrapper does not pass exactly one format literal / constructor to a shared builder")
        r, fm = found[0]
        ctx.check("R1", fm == want, mod, q, r,
                  f"{q} must build a {want} matrix; it asks the shared builder for {fm} (the block-diagonal result is then the "
                  f"transpose blockwise: invisible for symmetric blocks)", construct=f"{q}: format passed to the shared builder",
                  facts={"passed": fm})


# =====================================================================================
#  R2  pointer windows
# =====================================================================================

def _slice_kind(sl: ast.AST) -> Optional[str]:
    """'full' | 'head' (all but the last) | 'tail' (all but the first) for a slice"""
    if not isinstance(sl, ast.Slice):
        return None
    lo = None if sl.lower is None else _const_int(sl.lower)
    hi = None if sl.upper is None else _const_int(sl.upper)
    if sl.step is not None and _const_int(sl.step) != 1:
        return None
    if (sl.lower is not None and lo is None) or (sl.upper is not None and hi is None):
        return None
    if lo in (None, 0) and hi is None:
        return "full"
    if lo in (None, 0) and hi == -1:
        return "head"
    if lo == 1 and hi is None:
        return "tail"
    return None


def _split_ptr(e: ast.expr) -> Optional[tuple[str, ast.expr, int, int]]:
    """P[x] (also P[1:][x], P[:-1][x], P[x] + c) -> (text of P, x, shift of the position, constant added to the value)"""
    add = 0
    if isinstance(e, ast.BinOp) and isinstance(e.op, (ast.Add, ast.Sub)) and _const_int(e.right) is not None:
        add = _const_int(e.right) * (1 if isinstance(e.op, ast.Add) else -1)  # type: ignore[operator]
        e = e.left
    if not isinstance(e, ast.Subscript):
        return None
    base, idx, shift = e.value, e.slice, 0
    if _slice_kind(idx) in ("head", "tail"):  # all lines at once: P[:-1] / P[1:]
        return u(base), ast.Name(id="<all lines>", ctx=ast.Load()), (1 if _slice_kind(idx) == "tail" else 0), add
    if isinstance(base, ast.Subscript) and _slice_kind(base.slice) in ("head", "tail"):
        shift = 1 if _slice_kind(base.slice) == "tail" else 0
        base = base.value
    return u(base), idx, shift, add


def _idx_shift(x: ast.expr) -> tuple[str, int]:
    """x + 1 - 1 + ... -> (text of the non-constant part, sum of the constants)"""
    k = 0
    while isinstance(x, ast.BinOp) and isinstance(x.op, (ast.Add, ast.Sub)):
        if _const_int(x.right) is not None:
            k += _const_int(x.right) * (1 if isinstance(x.op, ast.Add) else -1)  # type: ignore[operator]
            x = x.left
        elif isinstance(x.op, ast.Add) and _const_int(x.left) is not None:
            k += _const_int(x.left)  # type: ignore[operator]
            x = x.right
        else:
            break
    return u(x), k


def _owner(text: str, suffix: str) -> Optional[str]:
    return text[: -len(suffix)] if text.endswith(suffix) else None


def rule_pointer_windows(ctx: Ctx, mod, quals: list[str], rule: str = "R2", soft: bool = False) -> int:
    """soft (repo-wide sweep): a mismatch is a cross-reference note, never a finding"""
    n_sites = 0

    def check(ok, q, node, msg, construct, facts):
        if soft and not ok:
            ctx.note(f"sweep cross-reference (not a finding): {mod.rel}:{q}: {msg[:300]}")
            return
        ctx.check(rule, ok, mod, q, node, msg, construct=construct, facts=facts)

    for q in quals:
        f = View(mod, q)
        for c in [n for n in _nodes(f) if isinstance(n, ast.Call) and call_name(n) in ("expand_index_pointers", "slice")
                  and len(n.args) == 2 and not n.keywords]:
            at = f.stmt_of(c)
            lo, hi = f.canon2(c.args[0], at), f.canon2(c.args[1], at)
            pl, ph = _split_ptr(lo), _split_ptr(hi)
            is_ptr = [p is not None and p[0].endswith(".indptr") for p in (pl, ph)]
            if not any(is_ptr):
                continue  # not a window over a pointer array (e.g. block_diag_index)
            n_sites += 1
            what = call_name(c)
            if pl is None or ph is None:
                raise f.und("one bound of a pointer window is not a read of the pointer array", c)
            (P1, x1, s1, a1), (P2, x2, s2, a2) = pl, ph
            (t1, k1), (t2, k2) = _idx_shift(x1), _idx_shift(x2)
            same_p, same_x = P1 == P2, t1 == t2
            step = (s2 + k2) - (s1 + k1)
            ok = same_p and same_x and step == 1 and a1 == 0 and a2 == 0 and (s1 + k1) == 0
            check(ok, q, c,
                  f"the entries of line x of a compressed matrix are data[P[x]:P[x+1]]: both bounds must come from the same pointer "
                  f"array, the lower at x and the upper at x+1; found lower {u(lo)[:120]}, upper {u(hi)[:120]}",
                  f"{what}(P[x], P[x+1]) window over {P1[:80]}", {"lower": u(lo)[:200], "upper": u(hi)[:200], "step": step, "start": s1 + k1})
            if not ok:
                continue
            own = _owner(P1, ".indptr")
            # consumers of the window
            par = f.pm.get(c)
            names = set()
            if isinstance(par, ast.Assign) and par.value is c:
                names = {t.id for t in par.targets if isinstance(t, ast.Name)}
            uses = []
            for n in _nodes(f):
                if isinstance(n, ast.Subscript):
                    if n.slice is c or (isinstance(n.slice, ast.Name) and n.slice.id in names and f.before(at, f.stmt_of(n))):
                        d = f.unique_def(n.slice.id, f.stmt_of(n)) if isinstance(n.slice, ast.Name) else None
                        if isinstance(n.slice, ast.Name) and (d is None or d.stmt is not par):
                            continue
                        uses.append(n)
            for s in uses:
                st = f.stmt_of(s)
                base = f.canon2(s.value, st)
                bt = u(base)
                o2 = _owner(bt, ".data") or _owner(bt, ".indices")
                if o2 is None and isinstance(base, ast.Call) and call_name(base) in ("ones", "zeros", "empty", "full") and base.args:
                    sz = base.args[0]
                    szt = u(sz)
                    for suf in (".data.size", ".indices.size", ".nnz", ".data.shape[0]", ".indices.shape[0]"):
                        if szt.endswith(suf):
                            o2 = szt[: -len(suf)]
                if o2 is None:
                    ctx.note(f"{q}: consumer of a pointer window not typed: {u(s)[:80]}")
                    continue
                check(o2 == own, q, s,
                      f"positions taken from {own[:80]}.indptr address the entries of that matrix; they are used on {bt[:120]}",
                      f"window of {own[:80]}.indptr indexes entries of {o2[:80]}", {"pointer_owner": own[:200], "indexed": bt[:200]})
    return n_sites


# =====================================================================================
#  R3  data / indices are treated in parallel
# =====================================================================================

class _EntForm(ast.NodeTransformer):
    """normal form in which `.data` and `.indices` are the same symbol and additive offsets of indices are dropped"""

    def visit_BinOp(self, n: ast.BinOp):
        if isinstance(n.op, ast.Add):
            for a, b in ((n.left, n.right), (n.right, n.left)):
                if _mentions_attr(a, "indices") and not _mentions_attr(b, "indices") and not _mentions_attr(b, "data"):
                    return self.visit(a)
        return self.generic_visit(n)

    def visit_Attribute(self, n: ast.Attribute):
        self.generic_visit(n)
        if n.attr in ("data", "indices"):
            return ast.copy_location(ast.Attribute(value=n.value, attr="ENT", ctx=n.ctx), n)
        return n

    def _comp(self, n):
        # `for i, m in enumerate(X)` with i unused (after offsets are dropped) == `for m in X`
        self.generic_visit(n)
        for g in n.generators:
            if isinstance(g.iter, ast.Call) and call_name(g.iter) == "enumerate" and len(g.iter.args) == 1 \
                    and isinstance(g.target, ast.Tuple) and len(g.target.elts) == 2 and isinstance(g.target.elts[0], ast.Name):
                i = g.target.elts[0].id
                if i not in names_in(n.elt):
                    g.target, g.iter = g.target.elts[1], g.iter.args[0]
        return n

    visit_ListComp = _comp
    visit_GeneratorExp = _comp


def _ent_text(e: ast.expr) -> str:
    return u(_EntForm().visit(copy.deepcopy(e)))


def rule_parallel_arrays(ctx: Ctx, mod, quals: list[str]) -> None:
    for q in quals:
        f = View(mod, q)
        pairs = []  # (node, data expr, indices expr, at)
        # (i) attribute assignments X.indices = .., X.data = ..
        last: dict[tuple[str, str], ast.Assign] = {}
        for s in f.stmts:
            if isinstance(s, ast.Assign) and len(s.targets) == 1 and isinstance(s.targets[0], ast.Attribute) \
                    and s.targets[0].attr in ("data", "indices"):
                last[(u(s.targets[0].value), s.targets[0].attr)] = s
        for (own, attr), s in list(last.items()):
            if attr == "data" and (own, "indices") in last:
                si = last[(own, "indices")]
                pairs.append((si, f.canon2(s.value, s), f.canon2(si.value, si), f"{own}.data / {own}.indices"))
            elif attr == "data":
                # data replaced, indices not: the sparsity pattern is kept - only legitimate if data keeps its length/order
                pass
        # (ii) constructor triples (data, indices, indptr)
        for n in _nodes(f):
            if not (isinstance(n, ast.Call) and n.args and (call_name(n) in CTOR_FMT or _is_ctor_var(f, n))):
                continue
            first = n.args[0]
            if isinstance(first, ast.Name):
                first = f.canon2(first, f.stmt_of(n), depth=1)
            if isinstance(first, ast.Tuple) and len(first.elts) == 3:
                at = f.stmt_of(n)
                d, i = (f.canon2(x, at) for x in first.elts[:2])
                if not (_mentions_attr(d, "data") or _mentions_attr(d, "indices")) or \
                        not (_mentions_attr(i, "data") or _mentions_attr(i, "indices")):
                    continue  # built from scratch, nothing parallel to compare
                ok_role = _mentions_attr(d, "data") and not _mentions_attr(d, "indices") \
                    and _mentions_attr(i, "indices") and not _mentions_attr(i, "data")
                ctx.check("R3", ok_role, mod, q, n,
                          f"the storage triple is (data, indices, indptr): first element must derive from .data, second from .indices; "
                          f"found ({u(d)[:60]}, {u(i)[:60]}, ...)", construct=f"{q}: order of the storage triple")
                if ok_role:
                    pairs.append((n, d, i, "constructor triple"))
        for node, d, i, what in pairs:
            td, ti = _ent_text(d), _ent_text(i)
            ctx.check("R3", td == ti, mod, q, node,
                      f"data and indices of the result must be the same selection/concatenation of the operands' entries "
                      f"(entry k of data belongs to entry k of indices); data: {u(d)[:110]} -- indices: {u(i)[:110]}",
                      construct=f"{q}: {what} built in parallel", facts={"data_form": td[:200], "indices_form": ti[:200]})


def _is_ctor_var(f: View, call: ast.Call) -> bool:
    """call through a local name bound to a sparse constructor (e.g. `container`) or a parameter named *format*"""
    if not isinstance(call.func, ast.Name):
        return False
    ds = f.defs.get(call.func.id, [])
    if ds and all(d.kind == "plain" and d.value is not None and
                  (getattr(d.value, "attr", None) in CTOR_FMT or getattr(d.value, "id", None) in CTOR_FMT) for d in ds):
        return True
    return False


# =====================================================================================
#  R4  expand_index_pointers: linear-form identities on the extracted formulas
# =====================================================================================

def _lin_add(a: dict, b: dict, sign: int = 1) -> dict:
    out = dict(a)
    for k, v in b.items():
        out[k] = out.get(k, 0) + sign * v
    return {k: v for k, v in out.items() if v != 0}


def _lin_rename(a: dict, suffix: str) -> dict:
    return {(k + suffix if k else k): v for k, v in a.items()}


def _lin_txt(a: dict) -> str:
    if not a:
        return "0"
    return " ".join(f"{v:+d}*{k}" if k else f"{v:+d}" for k, v in sorted(a.items()))


_CMP = {ast.Gt: lambda d: d > 0, ast.GtE: lambda d: d >= 0, ast.Lt: lambda d: d < 0, ast.LtE: lambda d: d <= 0,
        ast.NotEq: lambda d: d != 0, ast.Eq: lambda d: d == 0}


class _LinExec:
    """straight-line symbolic execution over linear forms of the parameters (elementwise), with filters and
    head/tail/first selections recorded in the symbol names"""

    PASS_METHODS = {"astype", "copy", "ravel", "flatten", "squeeze"}
    PASS_FUNCS = {"asarray", "array", "atleast_1d", "ascontiguousarray"}

    def __init__(self, f: View, symbols: dict[str, str]):
        self.f = f
        self.env: dict[str, object] = {p: ("lin", {s: 1}, False) for p, s in symbols.items()}
        self.masks: dict[str, tuple] = {}
        self.stores: list = []
        self.returns: list = []
        self.shortcuts: list = []

    def ev(self, e: ast.expr):
        if isinstance(e, ast.Name):
            return self.env.get(e.id)
        c = _const_int(e)
        if c is not None:
            return ("lin", {"": c} if c else {}, None)
        if isinstance(e, ast.BinOp) and isinstance(e.op, (ast.Add, ast.Sub)):
            a, b = self.ev(e.left), self.ev(e.right)
            if a and b and a[0] == b[0] == "lin":
                cast = a[2] if b[2] is None else (b[2] if a[2] is None else (a[2] and b[2]))
                return ("lin", _lin_add(a[1], b[1], 1 if isinstance(e.op, ast.Add) else -1), cast)
            return None
        if isinstance(e, ast.BinOp) and isinstance(e.op, ast.Mult):
            for x, y in ((e.left, e.right), (e.right, e.left)):
                if isinstance(y, ast.Call) and call_name(y) == "ones":
                    return self.ev(x)  # broadcast of a scalar bound
                cy = _const_int(y)
                vx = self.ev(x)
                if cy is not None and vx and vx[0] == "lin":
                    return ("lin", {k: v * cy for k, v in vx[1].items() if v * cy}, vx[2])
            return None
        if isinstance(e, ast.Call):
            nm = call_name(e)
            if isinstance(e.func, ast.Attribute) and nm in self.PASS_METHODS:
                v = self.ev(e.func.value)
                if nm == "astype" and e.args and v and v[0] == "lin":
                    return self._cast(v, e.args[0])
                return v
            if nm in self.PASS_FUNCS and e.args:
                v = self.ev(e.args[0])
                dt = kwarg(e, "dtype")
                if dt is not None and v and v[0] == "lin":
                    return self._cast(v, dt)
                return v
            if nm == "sum":
                x = e.args[0] if e.args else (e.func.value if isinstance(e.func, ast.Attribute) else None)
                v = self.ev(x) if x is not None else None
                return ("sum", v) if v else None
            if nm == "cumsum":
                x = e.args[0] if e.args else (e.func.value if isinstance(e.func, ast.Attribute) else None)
                v = self.ev(x) if x is not None else None
                return ("cumsum", v, u(x) if x is not None else "") if v else None
            if nm == "ones" and e.args:
                return ("ones", self.ev(e.args[0]))
            return None
        if isinstance(e, ast.Subscript):
            v = self.ev(e.value)
            if not v or v[0] != "lin":
                return None
            if isinstance(e.slice, ast.Name) and e.slice.id in self.masks:
                return ("lin", _lin_rename(v[1], "|" + e.slice.id), v[2])
            if isinstance(e.slice, ast.Compare):
                mv = self.ev(e.slice)
                if mv and mv[0] == "mask":
                    key = "<" + u(e.slice) + ">"
                    self.masks[key] = mv
                    return ("lin", _lin_rename(v[1], "|" + key), v[2])
                return None
            k = _slice_kind(e.slice)
            if k in ("head", "tail"):
                return ("lin", _lin_rename(v[1], "@" + k), v[2])
            if k == "full":
                return v
            if _const_int(e.slice) == 0:
                return ("lin", _lin_rename(v[1], "@first"), v[2])
            return None
        if isinstance(e, ast.Compare) and len(e.ops) == 1 and type(e.ops[0]) in _CMP:
            a, b = self.ev(e.left), self.ev(e.comparators[0])
            if a and b and a[0] == b[0] == "lin":
                return ("mask", _lin_add(a[1], b[1], -1), type(e.ops[0]))
        return None

    SIGNED = {"int", "np.int64", "np.int32", "np.intp", "np.int_", "'int'", "'int64'", "'int32'", "np.longlong", "numpy.int64", "numpy.int32"}

    def _cast(self, v, dtype: ast.expr):
        """conversion to a signed integer type of a value in which no two arrays have been combined yet"""
        mixed = len({k.split("|")[0].split("@")[0] for k in v[1] if k}) > 1
        if u(dtype) in self.SIGNED and not mixed:
            return ("lin", v[1], True)
        return v

    def run(self, body: list) -> None:
        for s in body:
            if isinstance(s, ast.Expr) and isinstance(s.value, ast.Constant):
                continue
            if isinstance(s, ast.If):
                if any(isinstance(n, ast.Return) for n in ast.walk(s)):
                    self.shortcuts.append(s)
                    if s.orelse:
                        self.run(s.orelse)
                    continue
                if _raises(s.body) and not s.orelse:
                    continue
                before = dict(self.env)
                self.run(s.body)
                e1 = self.env
                self.env = dict(before)
                self.run(s.orelse)
                merged = {}
                for k in set(e1) | set(self.env):
                    merged[k] = e1.get(k) if e1.get(k) == self.env.get(k) else None
                self.env = merged
                continue
            if isinstance(s, ast.Assign) and len(s.targets) == 1 and isinstance(s.targets[0], ast.Tuple) \
                    and isinstance(s.value, ast.Tuple) and len(s.value.elts) == len(s.targets[0].elts) \
                    and all(isinstance(t, ast.Name) for t in s.targets[0].elts):
                vals = [self.ev(v) for v in s.value.elts]
                for t, v in zip(s.targets[0].elts, vals):
                    if v and v[0] == "mask":
                        self.masks[t.id] = v  # type: ignore[attr-defined]
                    self.env[t.id] = v  # type: ignore[attr-defined]
                continue
            if isinstance(s, ast.Assign) and len(s.targets) == 1:
                t = s.targets[0]
                if isinstance(t, ast.Name):
                    v = self.ev(s.value)
                    if v and v[0] == "mask":
                        self.masks[t.id] = v
                    self.env[t.id] = v
                    continue
                if isinstance(t, ast.Subscript) and isinstance(t.value, ast.Name):
                    self.stores.append((s, t.value.id, t.slice, self.ev(t.slice) if not isinstance(t.slice, ast.Constant) else None,
                                        self.ev(s.value)))
                    continue
            if isinstance(s, ast.Return):
                self.returns.append(s)
                continue
            if isinstance(s, ast.Raise):
                continue
            raise self.f.und("statement form not handled by the linear-form executor", s)


def rule_expand_index_pointers(ctx: Ctx, amod) -> None:
    q = "expand_index_pointers"
    f = View(amod, q)
    if f.params[:2] != ["lo", "hi"]:
        raise AnchorError(f"{AO}:{q}: signature changed ({f.params})")
    rets = [s for s in f.stmts if isinstance(s, ast.Return) and s.value is not None]
    main = [r for r in rets if not isinstance(f.pm.get(r), ast.If)]
    if len(main) != 1:
        raise f.und("expected one unconditional return")
    # form B: concatenation of arange(l, h) over zip(lo, hi)
    raw = main[0].value
    while isinstance(raw, ast.Name) and f.unique_plain(raw.id, main[0]) is not None:
        raw = f.unique_plain(raw.id, main[0])
    if isinstance(raw, ast.Call) and call_name(raw) in ("concatenate", "hstack") and raw.args \
            and isinstance(raw.args[0], (ast.ListComp, ast.GeneratorExp)):
        comp = raw.args[0]
        g = comp.generators[0]

        def origin(e: ast.expr) -> Optional[str]:
            while True:
                if isinstance(e, ast.Subscript):
                    e = e.value
                elif isinstance(e, ast.Call) and isinstance(e.func, ast.Attribute) and e.func.attr in _LinExec.PASS_METHODS:
                    e = e.func.value
                else:
                    break
            return e.id if isinstance(e, ast.Name) else None
        shape_ok = (isinstance(comp.elt, ast.Call) and call_name(comp.elt) == "arange" and len(comp.elt.args) == 2
                    and isinstance(g.iter, ast.Call) and call_name(g.iter) == "zip" and len(g.iter.args) == 2
                    and isinstance(g.target, ast.Tuple) and len(g.target.elts) == 2 and not g.ifs and len(comp.generators) == 1)
        if not shape_ok:
            raise f.und("concatenation form is not [arange(l, h) for l, h in zip(lo, hi)]", main[0])
        srcs = [origin(a) for a in g.iter.args]
        if sorted(x or "" for x in srcs) != ["hi", "lo"]:
            raise f.und("zip does not pair arrays derived from lo and hi", main[0])
        tg = [u(t) for t in g.target.elts]
        args = [u(a) for a in comp.elt.args]
        ok = {tg[srcs.index("lo")]: "l", tg[srcs.index("hi")]: "h"} == {args[0]: "l", args[1]: "h"}
        for k in ("bounds paired", "lower bound first", "upper bound exclusive", "order of intervals", "one arange per interval"):
            ctx.check("R4", ok, amod, q, main[0],
                      f"np.arange(start, stop) must start at the element taken from lo and stop at the one taken from hi; found {u(comp)}",
                      construct=f"arange form: {k}")
        return
    ex = _LinExec(f, {"lo": "LO", "hi": "HI"})
    ex.run(f.fn.body)
    if not (isinstance(raw, ast.Call) and call_name(raw) == "cumsum"):
        raise f.und("result is neither a cumulative sum of increments nor a concatenation of aranges", main[0])
    xarg = raw.args[0] if raw.args else (raw.func.value if isinstance(raw.func, ast.Attribute) else None)
    if not isinstance(xarg, ast.Name):
        raise f.und("cumulative sum is not taken of a named increment array", main[0])
    xname = xarg.id
    xv = ex.env.get(xname)
    if not (xv and xv[0] == "ones" and xv[1] and xv[1][0] == "sum" and xv[1][1] and xv[1][1][0] == "lin"):
        raise f.und(f"increment array {xname} is not np.ones(sum(<interval lengths>))", main[0])
    num = xv[1][1][1]
    # (a) one filter on both bounds, true exactly for non-empty intervals
    filts = {k.split("|", 1)[1] if "|" in k else "" for k in num if k}
    base_syms = {k.split("|", 1)[0] for k in num if k}
    lock = len(filts) == 1 and "" not in filts and base_syms == {"LO", "HI"}
    xdef = f.defs.get(xname, [None])[0]
    ctx.check("R4", lock, amod, q, xdef.stmt if xdef else main[0],
              f"lower and upper bounds must be restricted by one and the same mask before lengths are computed (an empty interval "
              f"would put two jumps on one position); interval length is {_lin_txt(num)}",
              construct="lo and hi filtered in lock-step", facts={"length": _lin_txt(num)})
    if not lock:
        return
    m = next(iter(filts))
    mask = ex.masks[m]
    pts = [((0, 0), False), ((0, 1), True), ((3, 3), False), ((3, 5), True), ((2, 1), False), ((4, 5), True)]

    def val(lin, lo, hi):
        tot = lin.get("", 0)
        for k, v in lin.items():
            if k:
                b = k.split("|")[0].split("@")[0]
                if b not in ("LO", "HI") or "@" in k or "|" in k:
                    raise f.und("the interval mask is not a test on the unfiltered bounds")
                tot += v * (lo if b == "LO" else hi)
        return tot
    got = [_CMP[mask[2]](val(mask[1], lo, hi)) for (lo, hi), _ in pts]
    ctx.check("R4", got == [w for _, w in pts], amod, q, f.defs[m][0].stmt if m in f.defs else (xdef.stmt if xdef else main[0]),
              f"the mask must keep exactly the non-empty intervals (hi > lo); `{_lin_txt(mask[1])} {mask[2].__name__} 0` gives "
              f"{got} on (lo,hi) = {[p for p, _ in pts]}", construct="mask keeps exactly the non-empty intervals",
              facts={"mask": _lin_txt(mask[1]), "op": mask[2].__name__})
    # (b) length = hi - lo
    want = {f"HI|{m}": 1, f"LO|{m}": -1}
    ctx.check("R4", num == want, amod, q, xdef.stmt if xdef else main[0],
              f"the number of elements generated for an interval must be hi - lo (hi exclusive); found {_lin_txt(num)}",
              construct="interval length = hi - lo", facts={"length": _lin_txt(num)})
    # (c) stores into the increment array
    sts = [st for st in ex.stores if st[1] == xname]
    first = [st for st in sts if _const_int(st[2]) == 0]
    jumps = [st for st in sts if st[3] is not None and st[3][0] == "cumsum"]
    if len(first) != 1 or len(jumps) != 1 or len(sts) != 2:
        raise f.und("expected exactly two stores into the increment array (first element, interval starts)")
    s0, sj = first[0], jumps[0]
    ctx.check("R4", bool(s0[4]) and s0[4][0] == "lin" and s0[4][1] == {f"LO|{m}@first": 1}, amod, q, s0[0],
              f"the first increment must be the first lower bound; found {_lin_txt(s0[4][1]) if s0[4] else u(s0[0].value)}",
              construct="first increment = lo[0]")
    pos = sj[3]
    pos_ok = bool(pos[1]) and pos[1][0] == "lin" and pos[1][1] == _lin_rename(num, "@head")
    ctx.check("R4", pos_ok, amod, q, sj[0],
              "interval k+1 starts at position sum of the lengths of intervals 0..k: the jump positions must be "
              f"cumsum(lengths[:-1]); found cumsum of {_lin_txt(pos[1][1]) if pos[1] and pos[1][0] == 'lin' else '?'}",
              construct="jump positions = cumsum(lengths[:-1])")
    jv = sj[4]
    if not (jv and jv[0] == "lin"):
        raise f.und("jump value is not a linear form of the bounds", sj[0])
    ctx.check("R4", jv[2] is True, amod, q, sj[0],
              "the jump lo[k+1] - hi[k] is negative whenever the next interval starts below the end of the previous one (rows sliced in "
              "arbitrary order): both bounds must have been converted to a signed integer type BEFORE they are subtracted, otherwise "
              "unsigned index arrays wrap around (lo=[5,1], hi=[7,3] as uint8)",
              construct="jump computed in a signed integer type", facts={"cast_before_subtraction": jv[2]})
    # required: jump + (last value of interval k) == lo[k+1], last value = lo[k] + length[k] - 1
    last_k = _lin_add(_lin_add({f"LO|{m}@head": 1}, _lin_rename(num, "@head")), {"": -1})
    resid = _lin_add(_lin_add(jv[1], last_k), {f"LO|{m}@tail": 1}, -1)
    ctx.check("R4", not resid, amod, q, sj[0],
              f"under the cumulative sum the start of interval k+1 is (last value of interval k) + jump; it must equal lo[k+1]: "
              f"jump = lo[k+1] - (hi[k] - 1); found jump = {_lin_txt(jv[1])} (residual {_lin_txt(resid)})",
              construct="jump = lo[k+1] - last value of interval k", facts={"jump": _lin_txt(jv[1]), "residual": _lin_txt(resid)})


# =====================================================================================
#  R5 / R6 / R8  run-length pair
# =====================================================================================

_ZERO_FORMS = ("zeros", "array", "asarray")


def _is_zero_start(e: ast.expr) -> bool:
    """[0] | 0 | np.zeros(1, ..) | np.array([0])"""
    if _const_int(e) == 0:
        return True
    if isinstance(e, (ast.List, ast.Tuple)) and len(e.elts) == 1 and _const_int(e.elts[0]) == 0:
        return True
    if isinstance(e, ast.Call) and call_name(e) == "zeros" and e.args and _const_int(e.args[0]) == 1:
        return True
    if isinstance(e, ast.Call) and call_name(e) in ("array", "asarray") and e.args:
        return _is_zero_start(e.args[0])
    return False


def _cat_parts(e: ast.expr) -> Optional[list[ast.expr]]:
    """hstack((a, b)) / concatenate((a, b)) / append(a, b) / r_[a, b] -> [a, b]"""
    if isinstance(e, ast.Call) and call_name(e) in ("hstack", "concatenate") and e.args and isinstance(e.args[0], (ast.Tuple, ast.List)):
        return list(e.args[0].elts)
    if isinstance(e, ast.Call) and call_name(e) == "append" and len(e.args) == 2:
        return list(e.args)
    if isinstance(e, ast.Subscript) and isinstance(e.value, ast.Attribute) and e.value.attr == "r_" and isinstance(e.slice, ast.Tuple):
        return list(e.slice.elts)
    if isinstance(e, ast.Call) and call_name(e) == "insert" and len(e.args) == 3 and _const_int(e.args[1]) == 0:
        return [e.args[2], e.args[0]]  # np.insert(x, 0, c) == (c, x)
    return None


def _gather_axis(e: ast.Subscript) -> tuple[Optional[int], Optional[ast.expr]]:
    """A[idx] -> (0, idx); A[:, idx] -> (1, idx); A[..., idx] -> (-1, idx)"""
    sl = e.slice
    if isinstance(sl, ast.Tuple):
        if len(sl.elts) == 2 and _slice_kind(sl.elts[0]) == "full":
            return 1, sl.elts[1]
        if len(sl.elts) == 2 and isinstance(sl.elts[0], ast.Constant) and sl.elts[0].value is Ellipsis:
            return -1, sl.elts[1]
        if len(sl.elts) == 2 and _slice_kind(sl.elts[1]) == "full":
            return 0, sl.elts[0]
        return None, None
    return 0, sl


def analyse_rldecode(ctx: Ctx, mod) -> Optional[int]:
    """returns the axis along which rldecode repeats (for R8)"""
    q = "rldecode"
    f = View(mod, q)
    if f.params[:2] != ["A", "n"]:
        raise AnchorError(f"{MO}:{q}: signature changed ({f.params}); the parallel-parameter seed (A, n) is unknown")
    rets = [s for s in f.stmts if isinstance(s, ast.Return) and s.value is not None]
    if len(rets) != 1:
        raise f.und("expected one return")
    rv = f.canon2(rets[0].value, rets[0])  # type: ignore[arg-type]
    if isinstance(rv, ast.Call) and call_name(rv) == "repeat" and len(rv.args) >= 2:
        a0, a1 = rv.args[0], rv.args[1]

        def split(e: ast.expr, base: str):
            """base | base[mask] | base[:n.size] | base[:n.size][mask]  ->  (True, mask text or None)"""
            mask = None
            if isinstance(e, ast.Subscript) and not isinstance(e.slice, ast.Slice):
                mask, e = u(e.slice), e.value
            if isinstance(e, ast.Subscript) and isinstance(e.slice, ast.Slice) and e.slice.lower is None and e.slice.step is None \
                    and e.slice.upper is not None and u(e.slice.upper) in ("n.size", "len(n)", "n.shape[0]"):
                e = e.value
            return (u(e) == base), mask
        (okA, mA), (okN, mN) = split(a0, "A"), split(a1, "n")
        if not (okA and okN):
            raise f.und("np.repeat is not applied to (a restriction of) A and n", rets[0])
        ok = mA == mN
        ax = kwarg(rv, "axis")
        ctx.check("R5", ok, mod, q, rets[0], "np.repeat must repeat A by n", construct="rldecode: values and counts on the same runs")
        for k in ("positive-count mask", "marks on interior pointers", "length of the mark array"):
            ctx.check("R6", ok, mod, q, rets[0], "np.repeat form", construct=f"rldecode: {k}")
        return (_const_int(ax) if ax is not None else 0)
    if not isinstance(rv, ast.Subscript):
        raise f.und("result is neither np.repeat(A, n) nor a gather A[<run index>]", rets[0])
    axis, idx = _gather_axis(rv)
    if axis is None or idx is None:
        raise f.und("gather form not recognised", rets[0])
    arr = rv.value

    def positions_of(e: ast.expr) -> Optional[ast.expr]:
        """np.flatnonzero(m) | np.where(m)[0] | np.nonzero(m)[0] | np.argwhere(m).ravel()  ->  m"""
        if isinstance(e, ast.Call) and isinstance(e.func, ast.Attribute) and e.func.attr in ("ravel", "flatten") and not e.args:
            e = e.func.value
            return e.args[0] if isinstance(e, ast.Call) and call_name(e) == "argwhere" and len(e.args) == 1 else None
        if isinstance(e, ast.Call) and call_name(e) == "flatnonzero" and len(e.args) == 1:
            return e.args[0]
        if isinstance(e, ast.Subscript) and _const_int(e.slice) == 0 and isinstance(e.value, ast.Call) \
                and call_name(e.value) in ("where", "nonzero") and len(e.value.args) == 1:
            return e.value.args[0]
        return None
    pos_mask = None
    if isinstance(idx, ast.Subscript) and positions_of(idx.value) is not None:
        # A[positions of the kept runs][run index] written as A[positions[run index]]
        pos_mask, idx = positions_of(idx.value), idx.slice
    # the run index: cumsum(j), j = zeros(total) with marks j[ptr[a:b]] = 1
    if not (isinstance(idx, ast.Call) and call_name(idx) == "cumsum"):
        raise f.und("run index is not a cumulative sum of marks", rets[0])
    def step(e: ast.expr, at: ast.stmt):
        """follow names (not expressions) to their unique plain definition"""
        for _ in range(8):
            if isinstance(e, ast.Name):
                d = f.unique_def(e.id, at)
                if d is not None and d.kind == "plain" and d.value is not None:
                    e, at = d.value, d.stmt
                    continue
            break
        return e, at
    g_raw, g_at = step(rets[0].value, rets[0])  # type: ignore[arg-type]
    jname = None
    if isinstance(g_raw, ast.Subscript):
        _, ri = _gather_axis(g_raw)
        if ri is not None:
            c_raw, c_at = step(ri, g_at)
            if isinstance(c_raw, ast.Subscript) and not (isinstance(c_raw.value, ast.Name) and c_raw.value.id == "A"):
                c_raw, c_at = step(c_raw.slice, c_at)  # positions[run index]
            if isinstance(c_raw, ast.Call) and call_name(c_raw) == "cumsum":
                src = c_raw.args[0] if c_raw.args else (c_raw.func.value if isinstance(c_raw.func, ast.Attribute) else None)
                if isinstance(src, ast.Name) and src.id not in ("np", "numpy"):
                    jname = src.id
    if jname is None:
        raise f.und("mark array not found", rets[0])
    jdefs = [d for d in f.defs.get(jname, []) if d.kind == "plain"]
    jstores = [d for d in f.defs.get(jname, []) if d.kind == "sub"]
    if len(jdefs) != 1 or len(jstores) != 1:
        raise f.und("expected one allocation of and one store into the mark array")
    jalloc = f.canon2(jdefs[0].value, jdefs[0].stmt)  # type: ignore[arg-type]
    st = jstores[0].stmt
    tgt = st.targets[0] if isinstance(st, ast.Assign) else None
    if not (isinstance(tgt, ast.Subscript) and isinstance(st, ast.Assign) and _const_int(st.value) == 1):
        raise f.und("store into the mark array is not  j[<pointers>] = 1", st)
    mark_idx = tgt.slice
    if not (isinstance(mark_idx, ast.Subscript) and isinstance(mark_idx.value, ast.Name)):
        raise f.und("marks are not placed at a slice of a named pointer array", st)
    pname = mark_idx.value.id
    pdef = f.unique_def(pname, st)
    if pdef is None or pdef.kind != "plain":
        raise f.und("pointer array has no unique definition", st)
    ptr = f.canon2(pdef.value, pdef.stmt)  # type: ignore[arg-type]
    # ptr = cumsum(cat(0, counts))  |  cat(0, cumsum(counts))
    counts = None
    if isinstance(ptr, ast.Call) and call_name(ptr) == "cumsum" and ptr.args:
        parts = _cat_parts(ptr.args[0])
        if parts and len(parts) == 2 and _is_zero_start(parts[0]):
            counts = parts[1]
    else:
        parts = _cat_parts(ptr)
        if parts and len(parts) == 2 and _is_zero_start(parts[0]) and isinstance(parts[1], ast.Call) and call_name(parts[1]) == "cumsum":
            counts = parts[1].args[0]
    if counts is None:
        raise f.und("pointer array is not cumsum((0, counts))", pdef.stmt)
    # counts = n  |  n[mask]
    mask = None
    if isinstance(counts, ast.Subscript) and u(counts.value) == "n":
        mask = counts.slice
    elif u(counts) != "n":
        raise f.und("run lengths are not n or n[mask]", pdef.stmt)
    # ---- R6: mask keeps exactly the positive counts
    if mask is None:
        ctx.check("R6", False, mod, q, pdef.stmt,
                  "with marks written by assignment (j[p] = 1) a run of length 0 makes two pointers coincide and its successor is "
                  "never marked: runs with zero count must be filtered out first", construct="rldecode: positive-count mask")
    else:
        mt = mask if isinstance(mask, ast.Compare) else None
        if mt is None:
            raise f.und("filter of the counts is not a comparison", pdef.stmt)
        if not (len(mt.ops) == 1 and u(mt.left) == "n" and _const_int(mt.comparators[0]) is not None and type(mt.ops[0]) in _CMP):
            raise f.und("filter of the counts is not  n <op> constant", pdef.stmt)
        c0 = _const_int(mt.comparators[0])
        got = [_CMP[type(mt.ops[0])](v - c0) for v in (0, 1, 2, 5)]  # type: ignore[operator]
        ctx.check("R6", got == [False, True, True, True], mod, q, pdef.stmt,
                  f"the filter must keep exactly the runs with a positive count; `{u(mt)}` gives {got} on n = 0, 1, 2, 5",
                  construct="rldecode: positive-count mask", facts={"mask": u(mt)})
    # ---- R6: marks at interior pointers, mark array of total length
    sk = mark_idx.slice
    lo_ = None if not isinstance(sk, ast.Slice) or sk.lower is None else _const_int(sk.lower)
    hi_ = None if not isinstance(sk, ast.Slice) or sk.upper is None else _const_int(sk.upper)
    ok_marks = isinstance(sk, ast.Slice) and lo_ == 1 and hi_ == -1 and (sk.step is None or _const_int(sk.step) == 1)
    ctx.check("R6", ok_marks, mod, q, st,
              "the run index increases by one at the start of every run but the first: marks go to the interior pointers p[1:-1] "
              f"(p[0] = 0 would shift every run, p[-1] is one past the end); found {u(mark_idx)}",
              construct="rldecode: marks on interior pointers", facts={"marks": u(mark_idx)})
    tot_ok = isinstance(jalloc, ast.Call) and call_name(jalloc) == "zeros" and jalloc.args and \
        isinstance(jalloc.args[0], ast.Subscript) and _const_int(jalloc.args[0].slice) == -1 and u(jalloc.args[0].value) == u(ptr)
    ctx.check("R6", bool(tot_ok), mod, q, jdefs[0].stmt,
              f"the mark array has one slot per output element: its length is the last pointer; found {u(jdefs[0].value)}",  # type: ignore[arg-type]
              construct="rldecode: length of the mark array")
    # ---- R5: values restricted like the counts
    carr = arr
    vmask = None
    if isinstance(carr, ast.Subscript) and u(carr.value) == "A":
        vmask = carr.slice
    elif u(carr) != "A":
        raise f.und("gathered array is not A or A[mask]", rets[0])
    if pos_mask is not None:
        if vmask is not None:
            raise f.und("values restricted twice (mask and positions)", rets[0])
        vmask = pos_mask
        carr = ast.Subscript(value=carr, slice=ast.Call(func=ast.Name(id="positions_of", ctx=ast.Load()), args=[pos_mask], keywords=[]), ctx=ast.Load())
    same = (mask is None and vmask is None) or (mask is not None and vmask is not None and u(mask) == u(vmask))
    ctx.check("R5", same, mod, q, rets[0],
              "the run index counts only the runs kept by the filter on n, so it must index the values of those runs: "
              f"counts are {u(counts)}, values are {u(carr)} (rldecode([1,2,3],[2,0,1]) gives [1,1,2], np.repeat gives [1,1,3])",
              construct="rldecode: values and counts on the same runs",
              facts={"counts": u(counts), "values": u(carr), "failing_input": "rldecode(np.array([1,2,3]), np.array([2,0,1])) -> [1,1,2]"})
    return axis


def analyse_rlencode(ctx: Ctx, mod) -> Optional[int]:
    """returns the axis along which rlencode compresses (for R8)"""
    q = "rlencode"
    f = View(mod, q)
    if f.params[:1] != ["A"]:
        raise AnchorError(f"{MO}:{q}: signature changed ({f.params})")
    rets = [s for s in f.stmts if isinstance(s, ast.Return) and s.value is not None]
    if len(rets) != 1 or not (isinstance(rets[0].value, ast.Tuple) and len(rets[0].value.elts) == 2):
        raise f.und("expected one `return values, counts`")
    vals, cnts = (f.canon2(x, rets[0]) for x in rets[0].value.elts)  # type: ignore[union-attr]
    # the change mask
    cmps = [n for n in _nodes(f) if isinstance(n, ast.Compare) and len(n.ops) == 1 and isinstance(n.ops[0], ast.NotEq)
            and isinstance(n.left, ast.Subscript) and isinstance(n.comparators[0], ast.Subscript)
            and u(n.left.value) == "A" and u(n.comparators[0].value) == "A"]
    if len(cmps) != 1:
        raise f.und("expected one comparison A[..] != A[..] of shifted copies")
    cmp_ = cmps[0]

    def kinds(s: ast.Subscript):
        els = s.slice.elts if isinstance(s.slice, ast.Tuple) else [s.slice]
        return [_slice_kind(x) for x in els]
    kl, kr = kinds(cmp_.left), kinds(cmp_.comparators[0])  # type: ignore[arg-type]
    if len(kl) != len(kr) or None in kl or None in kr:
        raise f.und("shifted copies are not plain head/tail slices", cmp_)
    diff_axes = [i for i, (a, b) in enumerate(zip(kl, kr)) if a != b]
    if len(diff_axes) != 1:
        raise f.und("shifted copies differ on other than one axis", cmp_)
    ax = diff_axes[0]
    pair = {kl[ax], kr[ax]}
    ctx.check("R6", pair == {"head", "tail"}, mod, q, cmp_,
              f"a run ends at k iff element k differs from element k+1 along the compressed axis: the two operands must be the "
              f"all-but-last and all-but-first slices of that axis; found {u(cmp_)}", construct="rlencode: adjacent elements compared",
              facts={"axis": ax})
    # reduction over the other axis
    reds = [n for n in _nodes(f) if isinstance(n, ast.Call) and call_name(n) in ("any", "all") and kwarg(n, "axis") is not None]
    if len(reds) != 1:
        raise f.und("expected one reduction of the change mask with an explicit axis")
    rax = _const_int(kwarg(reds[0], "axis"))  # type: ignore[arg-type]
    ctx.check("R6", call_name(reds[0]) == "any" and rax is not None and rax != ax and len(kl) == 2, mod, q, reds[0],
              f"two columns differ iff ANY component differs: the change mask is reduced with any() over the axis that is not "
              f"compressed (axis {1 - ax}); found {call_name(reds[0])}(axis={rax})", construct="rlencode: reduction over the other axis",
              facts={"reduce": call_name(reds[0]), "axis": rax})
    # counts = diff(cat(sentinel, cat(interior, final)))
    if not (isinstance(cnts, ast.Call) and call_name(cnts) == "diff" and cnts.args):
        raise f.und("counts are not np.diff of the run boundaries", rets[0])
    seq = _cat_parts(cnts.args[0])
    pre, app = kwarg(cnts, "prepend"), kwarg(cnts, "append")
    if pre is not None and app is None:
        seq = [pre, cnts.args[0]]       # np.diff(x, prepend=c) == np.diff((c, x))
    elif app is not None and pre is None:
        seq = [cnts.args[0], app]
    if not seq or len(seq) != 2:
        raise f.und("run boundaries are not a two-part concatenation", rets[0])

    def const_of(e: ast.expr) -> Optional[int]:
        while isinstance(e, ast.Call) and call_name(e) in ("array", "asarray") and e.args:
            e = e.args[0]
        if isinstance(e, (ast.List, ast.Tuple)) and len(e.elts) == 1:
            e = e.elts[0]
        return _const_int(e)

    def shape_lin(e: ast.expr) -> Optional[tuple[int, int]]:
        """A.shape[k] + c -> (k, c)"""
        c = 0
        if isinstance(e, ast.BinOp) and isinstance(e.op, (ast.Add, ast.Sub)) and _const_int(e.right) is not None:
            c = _const_int(e.right) * (1 if isinstance(e.op, ast.Add) else -1)  # type: ignore[operator]
            e = e.left
        sr = _shape_read(e)
        if sr and sr[0] == "A" and _const_int(sr[1]) is not None:
            return _const_int(sr[1]), c  # type: ignore[return-value]
        return None
    conv = None
    if const_of(seq[0]) is not None:  # ends convention: (sentinel, (interior ends, final))
        inner = _cat_parts(seq[1])
        if inner and len(inner) == 2 and shape_lin(inner[1]) is not None:
            conv, sent, rep, (fax, fc) = "ends", const_of(seq[0]), seq[1], shape_lin(inner[1])  # type: ignore[misc]
    elif shape_lin(seq[1]) is not None:  # starts convention: ((0, interior starts), total)
        inner = _cat_parts(seq[0])
        if inner and len(inner) == 2 and const_of(inner[0]) is not None:
            conv, sent, rep, (fax, fc) = "starts", const_of(inner[0]), seq[0], shape_lin(seq[1])  # type: ignore[misc]
    if conv is None:
        raise f.und("run boundaries are neither (sentinel, ends.., last) nor (0, starts.., total)", rets[0])
    interior = inner[0] if conv == "ends" else inner[1]  # type: ignore[index]
    shift = 0
    if isinstance(interior, ast.BinOp) and isinstance(interior.op, (ast.Add, ast.Sub)) and _const_int(interior.right) is not None:
        shift = _const_int(interior.right) * (1 if isinstance(interior.op, ast.Add) else -1)  # type: ignore[operator]
        interior = interior.left
    core = interior
    while True:
        if isinstance(core, ast.Call) and isinstance(core.func, ast.Attribute) and core.func.attr in ("ravel", "flatten", "squeeze") and not core.args:
            core = core.func.value
        elif isinstance(core, ast.Subscript) and _const_int(core.slice) == 0:
            core = core.value
        else:
            break
    if not (isinstance(core, ast.Call) and call_name(core) in ("argwhere", "flatnonzero", "where", "nonzero") and len(core.args) == 1
            and any(isinstance(n_, ast.Call) and call_name(n_) == call_name(reds[0]) and kwarg(n_, 'axis') is not None
                    for n_ in ast.walk(core.args[0]))):
        raise f.und("interior run boundaries are not the positions of the reduced change mask", rets[0])
    ctx.check("R6", shift == {"ends": 0, "starts": 1}[conv], mod, q, rets[0],
              f"position k of the change mask says that elements k and k+1 differ: k is the END of a run (k+1 the start of the next); "
              f"with run {conv} as boundaries the positions must be shifted by {({'ends': 0, 'starts': 1})[conv]}, found {shift}",
              construct="rlencode: interior boundaries", facts={"convention": conv, "shift": shift})
    ctx.check("R6", fax == ax, mod, q, rets[0],
              f"the final boundary must be taken from the extent of the compressed axis {ax}; A.shape[{fax}] is used "
              f"(invisible on square input)", construct="rlencode: final boundary on the compressed axis", facts={"axis": fax})
    want = {"ends": (-1, -1), "starts": (0, 0)}[conv]
    ctx.check("R6", (sent, fc) == want, mod, q, rets[0],
              f"with run {conv} as boundaries the counts sum to the extent only if the sentinel is {want[0]} and the final boundary is "
              f"shape{want[1]:+d}; found sentinel {sent}, final shape{fc:+d}", construct="rlencode: sentinel and final boundary",
              facts={"convention": conv, "sentinel": sent, "final_offset": fc})
    # representative gathered along the compressed axis with the boundary array
    if not isinstance(vals, ast.Subscript) or u(vals.value) != "A":
        raise f.und("compressed values are not a gather from A", rets[0])
    gax, gidx = _gather_axis(vals)
    ctx.check("R6", gax == ax and gidx is not None and u(gidx) == u(rep), mod, q, rets[0],
              f"one representative per run is taken along the compressed axis {ax} at the run {conv}; found {u(rets[0].value.elts[0])}",  # type: ignore[union-attr]
              construct="rlencode: representative per run", facts={"axis": gax})
    return ax


def rule_run_length(ctx: Ctx, mod) -> None:
    enc = analyse_rlencode(ctx, mod)
    dec = analyse_rldecode(ctx, mod)
    ctx.check("R8", enc == dec, mod, "rldecode", mod.func("rldecode"),
              f"rlencode compresses along axis {enc} (A[:, runs]) while rldecode repeats along axis {dec} (A[run index]): "
              f"rldecode(*rlencode(A)) does not restore a 2-d A (A=[[1,1,2],[3,3,4]] -> rows repeated, shape (3,2))",
              construct="rlencode/rldecode act along the same axis", facts={"encode_axis": enc, "decode_axis": dec,
                                                                             "failing_input": "A=np.array([[1,1,2],[3,3,4]]); rldecode(*rlencode(A)).shape == (3, 2)"})


# =====================================================================================
#  R7  merge_matrices: order of the inserted lines
# =====================================================================================

def rule_merge_order(ctx: Ctx, mod) -> None:
    q = "merge_matrices"
    f = View(mod, q)
    if len(f.params) < 4:
        raise AnchorError(f"{MO}:{q}: signature changed ({f.params})")
    Bn, lines = f.params[1], f.params[2]
    ins = [n for n in _nodes(f) if isinstance(n, ast.Call) and call_name(n) == "insert"
           and (len(n.args) >= 2 or kwarg(n, "obj") is not None)]
    sites, line_exprs = [], []
    for c in ins:
        pos = f.canon2(c.args[1] if len(c.args) >= 2 else kwarg(c, "obj"), f.stmt_of(c))  # type: ignore[arg-type]
        reps = [r for r in ast.walk(pos) if isinstance(r, ast.Call) and call_name(r) == "repeat" and r.args
                and isinstance(r.args[0], ast.Subscript) and lines in names_in(r.args[0].slice)]
        if reps:
            sites.append(c)
            line_exprs.append(reps[0].args[0].slice)  # type: ignore[union-attr]
    if not sites:
        return  # another construction: MIN_INSTANCES makes the check refuse (exit 2), never a finding
    first = min(sites, key=lambda c: f.order[id(f.stmt_of(c))])
    X = line_exprs[sites.index(first)]

    def order_kind(e: ast.expr) -> Optional[str]:
        """'order' for argsort(lines), 'inverse' for argsort(argsort(lines)); None otherwise"""
        if isinstance(e, ast.Call) and call_name(e) == "argsort":
            a = e.args[0] if e.args else (e.func.value if isinstance(e.func, ast.Attribute) else None)
            if a is None:
                return None
            if u(a) == lines:
                return "order"
            if order_kind(a) == "order":
                return "inverse"
        return None
    sorted_lines = (isinstance(X, ast.Subscript) and u(X.value) == lines and order_kind(X.slice) == "order") or \
        (isinstance(X, ast.Call) and call_name(X) == "sort" and (X.args and u(X.args[0]) == lines
                                                                  or isinstance(X.func, ast.Attribute) and u(X.func.value) == lines))
    # a raise-guard demanding ascending input
    guard = None
    mention = False
    for n in _nodes(f):
        hit = False
        if isinstance(n, ast.Call) and call_name(n) == "diff" and n.args and u(n.args[0]) == lines:
            hit = True
        if isinstance(n, ast.Compare) and len(n.ops) == 1 and isinstance(n.left, ast.Subscript) and isinstance(n.comparators[0], ast.Subscript) \
                and u(n.left.value) == u(n.comparators[0].value) == lines \
                and {_slice_kind(n.left.slice), _slice_kind(n.comparators[0].slice)} == {"head", "tail"}:
            hit = True
        if hit:
            mention = True
            cur = n
            while cur in f.pm and not isinstance(f.pm[cur], ast.stmt):
                cur = f.pm[cur]
            st = f.pm.get(cur)
            if isinstance(st, ast.If) and _raises(st.body) and any(isinstance(x, (ast.Lt, ast.LtE, ast.Gt, ast.GtE)) for c_ in ast.walk(st.test)
                                                                    if isinstance(c_, ast.Compare) for x in c_.ops):
                guard = st
        if isinstance(n, ast.Call) and call_name(n) in ("sort", "argsort", "lexsort", "searchsorted") and any(lines in names_in(a) for a in n.args):
            mention = True
    guarded = guard is not None and all(f.dominates(guard, f.stmt_of(c)) for c in sites)
    if not sorted_lines and not guarded and mention:
        raise f.und(f"`{lines}` is sorted or tested for order in a form that is not recognised (neither `{lines}[argsort({lines})]`, "
                    f"np.sort({lines}) nor a raise-guard)")
    ctx.check("R7", bool(sorted_lines or guarded), mod, q, first,
              f"np.insert puts values with equal positions in the order given; after the old entries are removed every replaced line is "
              f"empty, so two adjacent replaced lines share one insert position and receive B's entries in B-line order. That is the "
              f"order of A's lines only if the lines are processed in ascending order, which is neither checked nor established "
              f"(A 4x3 csr, B 2x3, lines=[2,1]: row 1 gets B's row 0 and part of row 1)",
              construct="np.insert at repeated line pointers needs ascending lines",
              facts={"failing_input": "A=csr(arange(1,13).reshape(4,3)); B=csr([[100,0,200],[0,300,0]]); merge_matrices(A,B,np.array([2,1]),'csr') != (A[[2,1]]=B)"})
    if not sorted_lines:
        return
    # the lines were re-ordered: B's lines must be re-ordered with the same permutation, along the line axis of the format
    fc = FmtCtx(f)
    at = f.stmt_of(first)
    bdefs = [d for d in f.defs.get(Bn, []) if d.kind == "plain" and d.value is not None and f.before(d.stmt, at)]
    arms: list[tuple[Optional[str], ast.expr, ast.stmt]] = []
    for d in bdefs:
        v = d.value
        for _ in range(4):  # a temporary holding the permuted matrix
            if isinstance(v, ast.Name) and v.id != Bn:
                dd = f.unique_def(v.id, d.stmt)
                if dd is not None and dd.kind == "plain" and dd.value is not None:
                    v, d = dd.value, dd
                    continue
            break
        if isinstance(v, ast.IfExp) and _fmt_atom(v.test) is not None:
            a = _fmt_atom(v.test)
            arms.append((a[1] if a[2] else OTHER[a[1]], v.body, d.stmt))      # type: ignore[index]
            arms.append((OTHER[a[1]] if a[2] else a[1], v.orelse, d.stmt))    # type: ignore[index]
        else:
            F = fc.fmt(d.stmt)
            if F is None:
                ne = [k for _, k, e_ in fc.facts(d.stmt) if not e_]
                F = OTHER[ne[0]] if len(ne) == 1 else None  # else-arm of a test on the format (matrix_format is csr or csc)
            arms.append((F, v, d.stmt))  # type: ignore[arg-type]
    if not arms:
        ctx.check("R7", False, mod, q, first,
                  f"`{lines}` is sorted before the insertion but `{Bn}` keeps its lines in the caller's order: line k of B then goes to the "
                  f"k-th smallest line of A instead of {lines}[k]", construct="B re-ordered with the lines")
        return
    covered = set()
    for F, v, st in arms:
        agnostic = isinstance(v, ast.Call) and call_name(v) == "slice_sparse_matrix" and len(v.args) == 2 and u(v.args[0]) == Bn
        if agnostic:
            axis, idx = None, v.args[1]
        elif isinstance(v, ast.Subscript) and u(v.value) == Bn:
            sl = v.slice
            if isinstance(sl, ast.Tuple) and len(sl.elts) == 2 and _slice_kind(sl.elts[1]) == "full":
                axis, idx = 0, sl.elts[0]
            elif isinstance(sl, ast.Tuple) and len(sl.elts) == 2 and _slice_kind(sl.elts[0]) == "full":
                axis, idx = 1, sl.elts[1]
            elif not isinstance(sl, (ast.Tuple, ast.Slice)):
                axis, idx = 0, sl
            else:
                raise f.und(f"re-definition of `{Bn}` is not a permutation of its rows or columns", st)
        else:
            raise f.und(f"re-definition of `{Bn}` is not a permutation of its lines", st)
        kind = order_kind(f.canon2(idx, st))
        if kind is None:
            raise f.und(f"`{Bn}` is indexed by something other than argsort({lines}) or its inverse", st)
        ctx.check("R7", kind == "order", mod, q, st,
                  f"the lines are taken as {lines}[order]; line k of the sorted list is line order[k] of B, so B must be gathered with the "
                  f"SAME permutation (B[order]); it is gathered with the {kind} permutation (wrong for any 3-cycle)",
                  construct=f"B re-ordered with the same permutation{'' if F is None else ' (' + F + ')'}", facts={"permutation": kind})
        if agnostic:
            covered |= {"csr", "csc"}
            continue
        if F is None:
            raise f.und(f"`{Bn}` is permuted outside any format arm", st)
        covered.add(F)
        ctx.check("R7", axis == FMT[F]["line"], mod, q, st,
                  f"for {F} the lines of B are its {AXIS_NAME[FMT[F]['line']]}: the permutation must be applied along axis {FMT[F]['line']}; "
                  f"`{u(v)}` permutes axis {axis} (on square B only the entries move, nothing fails)",
                  construct=f"B re-ordered along the line axis ({F})", facts={"arm": F, "axis": axis})
    ctx.check("R7", covered == {"csr", "csc"}, mod, q, at,
              f"B must be re-ordered for both formats; re-ordered for {sorted(covered)} only", construct="B re-ordered for csr and csc",
              facts={"covered": sorted(covered)})


# =====================================================================================
#  R9  Kronecker numbering convention
# =====================================================================================

def param_values(f: View, node: ast.AST, param: str, universe=(-1, 0, 1, 2, 3)) -> list[int]:
    """values of an integer parameter for which `node` is reached, judged from the enclosing tests `param <op> const`
    and from earlier terminal ifs of the enclosing blocks (early return / raise)"""
    conds = []

    def atom(t):
        neg = False
        while isinstance(t, ast.UnaryOp) and isinstance(t.op, ast.Not):
            t, neg = t.operand, not neg
        if isinstance(t, ast.Compare) and len(t.ops) == 1 and u(t.left) == param and _const_int(t.comparators[0]) is not None \
                and type(t.ops[0]) in _CMP:
            return type(t.ops[0]), _const_int(t.comparators[0]), neg
        return None
    cur = node
    while cur is not f.fn and cur in f.pm:
        par = f.pm[cur]
        if isinstance(par, ast.If) and cur is not par.test:
            a = atom(par.test)
            if a:
                conds.append((a[0], a[1], any(cur is x for x in par.body) != a[2]))
        for fld in ("body", "orelse", "finalbody"):
            blk = getattr(par, fld, None)
            if isinstance(blk, list) and any(cur is x for x in blk):
                for prev in blk[:[id(x) for x in blk].index(id(cur))]:
                    if isinstance(prev, ast.If) and not prev.orelse and _terminal(prev.body):
                        a = atom(prev.test)
                        if a:
                            conds.append((a[0], a[1], a[2]))
        cur = par
    return [d for d in universe if all(_CMP[op](d - c) == holds for op, c, holds in conds)]


def nd_numbering(ctx_or_none, amod) -> dict:
    """Convention extracted from expand_indices_nd: {'numbering': 'component-minor'|'component-major'|None,
    'grouping': 'per-index'|'per-component'|None} plus the nodes."""
    q = "expand_indices_nd"
    f = View(amod, q)
    if f.params[:2] != ["ind", "nd"]:
        raise AnchorError(f"{AO}:{q}: signature changed ({f.params})")
    allret = [s for s in f.stmts if isinstance(s, ast.Return) and s.value is not None]
    main = [s for s in allret if 2 in param_values(f, s, "nd")]
    shortcuts = [s for s in allret if param_values(f, s, "nd", universe=(1, 2, 3)) == [1]]
    if len(main) != 1:
        raise f.und("expected one return for nd >= 2")
    rv = f.canon2(main[0].value, main[0])  # type: ignore[arg-type]
    if isinstance(rv, ast.Call) and call_name(rv) == "ravel" and isinstance(rv.func, ast.Attribute) and isinstance(rv.func.value, ast.Name) \
            and rv.func.value.id in ("np", "numpy") and rv.args:
        # np.ravel(table, order) -> table.ravel(order)
        rv = ast.Call(func=ast.Attribute(value=rv.args[0], attr="ravel", ctx=ast.Load()), args=list(rv.args[1:]), keywords=list(rv.keywords))
    if not (isinstance(rv, ast.Call) and call_name(rv) in ("ravel", "flatten", "reshape") and isinstance(rv.func, ast.Attribute)):
        raise f.und("result is not <2-d index table>.ravel(order)", main[0])
    # order argument
    oarg = None
    if call_name(rv) in ("ravel", "flatten"):
        oarg = rv.args[0] if rv.args else kwarg(rv, "order")
    else:
        oarg = kwarg(rv, "order")
        if not (rv.args and _const_int(rv.args[0]) == -1):
            raise f.und("reshape is not reshape(-1, order=..)", main[0])
    order = None
    if oarg is None:
        order = "C"
    elif isinstance(oarg, ast.Constant) and oarg.value in ("C", "F"):
        order = oarg.value
    elif isinstance(oarg, ast.Name) and oarg.id in f.params:
        a = f.fn.args
        pos = [x.arg for x in a.args]
        dflt = dict(zip(pos[len(pos) - len(a.defaults):], a.defaults))
        d = dflt.get(oarg.id)
        if isinstance(d, ast.Constant) and d.value in ("C", "F"):
            order = d.value
    if order is None:
        raise f.und("flattening order is neither a literal nor a parameter with a literal default", main[0])
    table = rv.func.value
    # table = c1 * ind + c2 * comps   (comps = arange(nd) as a column or a row)
    if not (isinstance(table, ast.BinOp) and isinstance(table.op, ast.Add)):
        raise f.und("index table is not a sum of an index term and a component term", main[0])

    def term(e: ast.expr):
        if isinstance(e, ast.BinOp) and isinstance(e.op, ast.Mult):
            for a_, b_ in ((e.left, e.right), (e.right, e.left)):
                if u(b_) == "ind" or _is_comps(b_) is not None:
                    return u(a_), b_
        return "1", e

    def _is_comps(e: ast.expr) -> Optional[int]:
        """axis on which arange(nd) varies: arange(nd)[:, newaxis] -> 0 ; arange(nd)[newaxis, :] / arange(nd) -> 1"""
        ax = 1
        if isinstance(e, ast.Subscript) and isinstance(e.slice, ast.Tuple) and len(e.slice.elts) == 2:
            a_, b_ = e.slice.elts
            isnew = lambda x: (isinstance(x, ast.Attribute) and x.attr == "newaxis") or (isinstance(x, ast.Constant) and x.value is None)
            if _slice_kind(a_) == "full" and isnew(b_):
                ax, e = 0, e.value
            elif isnew(a_) and _slice_kind(b_) == "full":
                ax, e = 1, e.value
            else:
                return None
        elif isinstance(e, ast.Call) and call_name(e) == "reshape" and isinstance(e.func, ast.Attribute):
            shp = e.args[0] if len(e.args) == 1 and isinstance(e.args[0], ast.Tuple) else ast.Tuple(elts=list(e.args), ctx=ast.Load())
            if len(shp.elts) == 2 and _const_int(shp.elts[0]) == -1 and _const_int(shp.elts[1]) == 1:
                ax, e = 0, e.func.value
            elif len(shp.elts) == 2 and _const_int(shp.elts[0]) == 1 and _const_int(shp.elts[1]) == -1:
                ax, e = 1, e.func.value
            else:
                return None
        if isinstance(e, ast.Call) and call_name(e) == "arange" and len(e.args) == 1 and u(e.args[0]) == "nd":
            return ax
        return None

    t1, t2 = term(table.left), term(table.right)
    idx_t = [t for t in (t1, t2) if u(t[1]) == "ind"]
    cmp_t = [t for t in (t1, t2) if _is_comps(t[1]) is not None]
    if len(idx_t) != 1 or len(cmp_t) != 1:
        raise f.und("index table is not  a*ind + b*arange(nd)", main[0])
    ci, cc = idx_t[0][0], cmp_t[0][0]
    numbering = "component-minor" if (ci == "nd" and cc == "1") else ("component-major" if (ci == "1" and cc != "1") else None)
    if numbering is None:
        raise f.und(f"coefficients ({ci}, {cc}) of the index table not classified", main[0])
    comp_axis = _is_comps(cmp_t[0][1])
    # flattening: 'F' runs over axis 0 fastest, 'C' over axis 1 fastest
    fastest = 0 if order == "F" else 1
    grouping = "per-index" if fastest == comp_axis else "per-component"
    return {"numbering": numbering, "grouping": grouping, "order": order, "node": main[0], "coef": (ci, cc),
            "shortcut_ok": all(u(s.value) in ("ind", "ind.copy()") for s in shortcuts),  # type: ignore[arg-type]
            "shortcut": shortcuts[0] if shortcuts else None}


def kron_sides(f: View, e: ast.expr, at: ast.stmt) -> Optional[tuple[ast.Call, str, ast.expr, ast.expr]]:
    """first kron(..) in e -> (call, 'eye-right'|'eye-left'|'none', matrix operand, eye size)"""
    for n in ast.walk(f.canon2(e, at)):
        if isinstance(n, ast.Call) and call_name(n) == "kron" and len(n.args) == 2:
            a, b = n.args
            is_eye = lambda x: isinstance(x, ast.Call) and call_name(x) in ("eye", "identity", "eye_array") and x.args
            if is_eye(b) and not is_eye(a):
                return n, "eye-right", a, b.args[0]
            if is_eye(a) and not is_eye(b):
                return n, "eye-left", b, a.args[0]
            return n, "none", a, b
    return None


def rule_kron_convention(ctx: Ctx, mod, amod) -> None:
    conv = nd_numbering(ctx, amod)
    q = "expand_indices_nd"
    ctx.check("R9", conv["numbering"] == "component-minor", amod, q, conv["node"],
              f"vector quantities are numbered nd*index + component throughout (divergence, trace, discretisations index with this "
              f"table); the table is {conv['coef'][0]}*ind + {conv['coef'][1]}*arange(nd)", construct="expand_indices_nd: numbering nd*ind + component",
              facts={"coefficients": list(conv["coef"])})
    ctx.check("R9", conv["grouping"] == "per-index", amod, q, conv["node"],
              f"with the default order the expanded array lists all components of ind[0], then of ind[1], ... (callers pair it with "
              f"per-index data); default order {conv['order']} gives {conv['grouping']} grouping",
              construct="expand_indices_nd: default order groups the components of one index", facts={"order": conv["order"]})
    ctx.check("R9", conv["shortcut"] is None or conv["shortcut_ok"], amod, q, conv["shortcut"] or conv["node"],
              "for nd == 1 the expansion is the identity", construct="expand_indices_nd: nd == 1 shortcut")
    q = "sparse_kronecker_product"
    f = View(mod, q)
    if f.params[:2] != ["matrix", "nd"]:
        raise AnchorError(f"{MO}:{q}: signature changed ({f.params})")
    krs = [(s, kron_sides(f, s.value, s)) for s in f.stmts if isinstance(s, ast.Return) and s.value is not None  # type: ignore[arg-type]
           and 2 in param_values(f, s, "nd")]
    krs = [(s, k) for s, k in krs if k is not None]
    if len(krs) != 1:
        raise f.und("expected one returned Kronecker product")
    s, (call, side, m, n) = krs[0]
    want = "eye-right" if conv["numbering"] == "component-minor" else "eye-left"
    ctx.check("R9", side == want, mod, q, s,
              f"kron(M, eye(nd)) numbers rows and columns nd*index + component, kron(eye(nd), M) numbers them component*n + index; "
              f"expand_indices_nd uses the {conv['numbering']} numbering, so the identity must be the "
              f"{'right' if want == 'eye-right' else 'left'} factor; found {u(call)}",
              construct="sparse_kronecker_product: identity is the right factor", facts={"found": side, "numbering": conv["numbering"]})
    ctx.check("R9", u(m) == "matrix" and u(n) == "nd", mod, q, s,
              f"the expanded matrix is the argument and the identity has size nd; found {u(call)}",
              construct="sparse_kronecker_product: operands")
    for x in [r for r in f.stmts if isinstance(r, ast.Return) and r.value is not None and param_values(f, r, "nd", universe=(1, 2, 3)) == [1]]:
        ctx.check("R9", u(f.canon2(x.value, x)) == "matrix", mod, q, x,  # type: ignore[arg-type]
                  "for nd == 1 the product is the matrix itself", construct="sparse_kronecker_product: nd == 1 shortcut")


# =====================================================================================
#  R10  stack_diag: every return has the block-diagonal shape
# =====================================================================================

def rule_stack_diag_shape(ctx: Ctx, mod) -> None:
    q = "stack_diag"
    f = View(mod, q)
    if f.params[:2] != ["A", "B"]:
        raise AnchorError(f"{MO}:{q}: signature changed ({f.params})")
    rets = [s for s in f.stmts if isinstance(s, ast.Return) and s.value is not None]
    if not rets:
        raise AnchorError(f"{MO}:{q}: no return")
    shape_sets = [s for s in f.stmts if isinstance(s, ast.Assign) and len(s.targets) == 1 and isinstance(s.targets[0], ast.Attribute)
                  and s.targets[0].attr in ("_shape", "shape") and isinstance(s.value, ast.Tuple) and len(s.value.elts) == 2]
    for r in rets:
        rvv = r.value
        if isinstance(rvv, ast.Call) and call_name(rvv) == "copy" and not rvv.args and isinstance(rvv.func, ast.Attribute):
            rvv = rvv.func.value  # a copy of an operand has the operand's shape
        if isinstance(rvv, ast.Name) and rvv.id in ("A", "B") and f.unique_def(rvv.id, r) is None:
            other = "B" if rvv.id == "A" else "A"
            # what the enclosing tests establish about the other operand
            conds = []
            cur: ast.AST = r
            while cur is not f.fn and cur in f.pm:
                par = f.pm[cur]
                if isinstance(par, ast.If) and any(cur is x for x in par.body):
                    conds += list(par.test.values) if isinstance(par.test, ast.BoolOp) and isinstance(par.test.op, ast.And) else [par.test]
                cur = par
            txt = " and ".join(u(c) for c in conds)
            both = any(
                (isinstance(c, ast.Compare) and u(c.left) == f"{other}.shape" and u(c.comparators[0]) in ("(0, 0)",))
                or (f"{other}.shape[0] == 0" in u(c) and f"{other}.shape[1] == 0" in u(c))
                or u(c) in (f"max({other}.shape) == 0", f"sum({other}.shape) == 0")
                for c in conds)
            if not both and any(n_ in txt for n_ in (f"{other}.shape", f"{other}._shape")):
                raise f.und("early return guarded by a shape test that is not recognised", r)
            ctx.check("R10", both, mod, q, r,
                      f"[[A, 0], [0, B]] has shape (A0+B0, A1+B1) for every A, B; this path returns {u(r.value)} under "
                      f"`{txt}`, which says that {other} has no lines but not that its other extent is zero "
                      f"(A 2x2 csr, B 0x3 csr: result 2x2, sps.block_diag gives 2x5)",
                      construct=f"stack_diag: early return of {rvv.id} keeps the extent of {other}",
                      facts={"guard": txt, "failing_input": "stack_diag(csr(ones((2,2))), csr((0,3))).shape == (2,2) != (2,5)"})
        else:
            c = f.canon2(r.value, r)
            nm = r.value.id if isinstance(r.value, ast.Name) else None
            ss = [s_ for s_ in shape_sets if nm is not None and u(s_.targets[0].value) == nm
                  and (f.dominates(s_, r) or f.pm.get(s_) is f.pm.get(r))]
            if len(ss) != 1:
                raise f.und("main return is not an object whose shape is set once", r)
            els = ss[0].value.elts  # type: ignore[attr-defined]

            def axes(x):
                return sorted((_shape_read(m)[0], _const_int(_shape_read(m)[1])) for m in ast.walk(x) if _shape_read(m))  # type: ignore[index]
            ok = all(axes(els[k]) == [("A", k), ("B", k)] and isinstance(els[k], ast.BinOp) and isinstance(els[k].op, ast.Add) for k in (0, 1))
            ctx.check("R10", ok, mod, q, ss[0], f"the block-diagonal matrix has shape (A0+B0, A1+B1); found {u(ss[0].value)}",
                      construct="stack_diag: shape of the result")


def rule_stack_mat_shortcut(ctx: Ctx, mod) -> None:
    q = "stack_mat"
    f = View(mod, q)
    if f.params[:2] != ["A", "B"]:
        raise AnchorError(f"{MO}:{q}: signature changed ({f.params})")
    grows = [s for s in f.stmts if isinstance(s, ast.Assign) and len(s.targets) == 1 and isinstance(s.targets[0], ast.Attribute)
             and s.targets[0].attr in ("_shape", "shape", "indptr")]
    if not grows:
        raise AnchorError(f"{MO}:{q}: no update of A.indptr / A._shape found")
    early = [s for s in f.stmts if isinstance(s, ast.Return) and isinstance(f.pm.get(s), ast.If) and f.before(s, grows[0])]
    for r in early:
        iff = f.pm[r]
        t = f.canon2(iff.test, iff)
        txt = u(t)
        lines_empty = ("B.indptr" in txt and any(k in txt for k in ("size", "len(", "shape"))) or \
            any(k in txt for k in ("B.shape[0] == 0", "B.shape[1] == 0", "B._shape[0] == 0", "B._shape[1] == 0"))
        entries_empty = any(k in txt for k in ("B.nnz", "B.data", "B.indices", "B.getnnz", "B.count_nonzero"))
        if not lines_empty and not entries_empty:
            raise f.und("early return of stack_mat under a test that is not recognised", iff)
        ctx.check("R10", lines_empty and not entries_empty, mod, q, iff,
                  f"returning without touching A is right only if B has no LINES; `{txt}` is also true for a B whose lines are all "
                  f"empty, and those lines (rows of zeros for csr) must still be appended: indptr and shape stay too short "
                  f"(A 2x3 csr, B = csr((2,3)): result stays 2x3, sps.vstack gives 4x3)",
                  construct="stack_mat: nothing appended only if B has no lines", facts={"guard": txt})
    if not early:
        ctx.check("R10", True, mod, q, f.fn, "", construct="stack_mat: nothing appended only if B has no lines", desc="no shortcut")


# =====================================================================================
#  driver
# =====================================================================================

FORMAT_FUNCS = ["merge_matrices", "stack_mat", "stack_diag", "slice_sparse_matrix", "_csx_matrix_from_sparse_blocks", "copy"]
WINDOW_FUNCS = ["zero_columns", "zero_rows", "merge_matrices", "slice_indices", "slice_sparse_matrix"]
PARALLEL_FUNCS = ["merge_matrices", "stack_mat", "stack_diag", "slice_sparse_matrix", "_csx_matrix_from_sparse_blocks", "copy"]


def _sweep_windows(ctx: Ctx) -> None:
    """thorough tier: every pointer window of the repository outside the anchored functions"""
    n_sites = n_fn = 0
    for m in ctx.repo.modules("src/porepy"):
        if "expand_index_pointers" not in m.source:
            continue
        for q, fn in m.functions():
            if m.rel == MO and q in WINDOW_FUNCS:
                continue
            if not any(isinstance(c, ast.Call) and call_name(c) == "expand_index_pointers" for c in ast.walk(fn)):
                continue
            if any(isinstance(x, (ast.FunctionDef, ast.AsyncFunctionDef)) and x is not fn and
                   any(isinstance(c, ast.Call) and call_name(c) == "expand_index_pointers" for c in ast.walk(x)) for x in ast.walk(fn)):
                continue  # the nested function is visited under its own qualified name
            try:
                n = rule_pointer_windows(ctx, m, [q], soft=True)
            except (Undecided, AnchorError) as e:
                ctx.note(f"sweep: {m.rel}:{q}: not analysed ({e})")
                continue
            n_fn += 1
            n_sites += n
    ctx.note(f"sweep: {n_sites} further pointer windows in {n_fn} functions of src/porepy")


def run(ctx: Ctx) -> None:
    mod = ctx.repo.module(MO)
    amod = ctx.repo.module(AO)
    rule_format_axis(ctx, mod, FORMAT_FUNCS)
    rule_name_axis(ctx, mod)
    rule_wrappers(ctx, mod)
    n = rule_pointer_windows(ctx, mod, WINDOW_FUNCS)
    if n < 5:
        raise AnchorError(f"{MO}: expected at least 5 pointer windows in {WINDOW_FUNCS}, found {n}")
    rule_parallel_arrays(ctx, mod, PARALLEL_FUNCS)
    rule_expand_index_pointers(ctx, amod)
    rule_run_length(ctx, mod)
    rule_merge_order(ctx, mod)
    rule_kron_convention(ctx, mod, amod)
    rule_stack_diag_shape(ctx, mod)
    rule_stack_mat_shortcut(ctx, mod)
    ctx.sample({"format_axis_table": FMT})
    if ctx.tier == "thorough":
        _sweep_windows(ctx)


def _m(name, old, new, rule, file=MO, control=False, count=1):
    return dict(name=name, file=file, old=old, new=new, rule=rule, control=control, count=count)


MUTANTS = [
    # ---- R1 format <-> axis (all invisible on square blocks / symmetric data)
    _m("csx-sparse-indices-axis-swapped", 'indices_dim = 0 if matrix_format == "csc" else 1', 'indices_dim = 1 if matrix_format == "csc" else 0',
       "R1", control=True),
    _m("stack-diag-csc-offset-by-columns", "        indices_offset = A.shape[0]\n", "        indices_offset = A.shape[1]\n", "R1"),
    _m("seed-stack-diag-offset-arms-swapped", '    if A.getformat() == "csc":\n        indices_offset = A.shape[0]\n', '    if A.getformat() == "csr":\n        indices_offset = A.shape[0]\n', "R1"),
    _m("slice-csc-arm-builds-csr", "return sps.csc_matrix((data, indices, indptr), shape=(A.shape[0], N))",
       "return sps.csr_matrix((data, indices, indptr), shape=(A.shape[0], N))", "R1"),
    _m("slice-csr-shape-keeps-wrong-axis", "return sps.csr_matrix((data, indices, indptr), shape=(N, A.shape[1]))",
       "return sps.csr_matrix((data, indices, indptr), shape=(N, A.shape[0]))", "R1"),
    _m("stack-mat-csc-grows-rows", "A._shape = (A._shape[0], A._shape[1] + B._shape[1])", "A._shape = (A._shape[0] + B._shape[0], A._shape[1])", "R1"),
    _m("merge-csr-compares-row-counts", 'if A.shape[1] != B.shape[1]:\n            raise ValueError(\n                f"Unequal number of matrix columns: {A.shape[1]}',
       'if A.shape[0] != B.shape[0]:\n            raise ValueError(\n                f"Unequal number of matrix columns: {A.shape[1]}', "R1"),
    _m("merge-csr-line-count-on-columns", "if lines_to_replace.size != B.shape[0]:", "if lines_to_replace.size != B.shape[1]:", "R1"),
    _m("zero-columns-demands-csr", 'if A.getformat() != "csc":\n        raise ValueError("Need a csc matrix")',
       'if A.getformat() != "csr":\n        raise ValueError("Need a csc matrix")', "R1"),
    _m("zero-rows-guard-removed", '    if A.getformat() != "csr":\n        raise ValueError("Need a csr matrix")\n', "", "R1"),
    _m("csc-sparse-wrapper-passes-csr", 'return _csx_matrix_from_sparse_blocks(blocks, "csc")', 'return _csx_matrix_from_sparse_blocks(blocks, "csr")', "R1",
       control=True),
    _m("csc-dense-wrapper-passes-csr-ctor", "return _csx_matrix_from_dense_blocks(data, block_size, num_blocks, sps.csc_matrix)",
       "return _csx_matrix_from_dense_blocks(data, block_size, num_blocks, sps.csr_matrix)", "R1"),
    _m("csx-sparse-container-swapped", '    if matrix_format == "csr":\n        container = sps.csr_matrix', '    if matrix_format == "csr":\n        container = sps.csc_matrix', "R1"),
    # ---- R2 pointer windows
    _m("zero-rows-window-of-next-line", "indptr[rows], indptr[rows + 1]", "indptr[rows + 1], indptr[rows + 2]", "R2", control=True),
    _m("slice-window-bounds-swapped", "A.indptr[ind], A.indptr[ind + 1]\n    )\n    # Pick out", "A.indptr[ind + 1], A.indptr[ind]\n    )\n    # Pick out", "R2"),
    _m("zero-columns-window-one-entry", "indptr[cols], indptr[cols + 1]", "indptr[cols], indptr[cols] + 1", "R2"),
    _m("merge-keep-mask-sized-by-B", "keep = np.ones(A.data.size, dtype=bool)", "keep = np.ones(B.data.size, dtype=bool)", "R2"),
    # ---- R3 parallel arrays
    _m("stack-diag-data-order-swapped", "C.data = np.append(A.data, B.data)", "C.data = np.append(B.data, A.data)", "R3", control=True),
    _m("slice-data-with-line-index", "data = A.data[ind_slice]", "data = A.data[ind]", "R3"),
    _m("csx-sparse-triple-order", "(np.concatenate(data), np.concatenate(indices), np.concatenate(indptr))",
       "(np.concatenate(indices), np.concatenate(data), np.concatenate(indptr))", "R3"),
    _m("merge-data-inserted-at-other-positions", "A.data = np.insert(data, indPos, b_data)", "A.data = np.insert(data, indptr[lines_to_replace], b_data)", "R3"),
    # ---- R4 expand_index_pointers
    _m("eip-mask-drops-singletons", "pos_diff = hi >= lo + 1", "pos_diff = hi > lo + 1", "R4", file=AO, control=True),
    _m("eip-hi-not-made-inclusive", "hi = (hi[pos_diff] - 1).astype(int)", "hi = (hi[pos_diff]).astype(int)", "R4", file=AO),
    _m("eip-jump-from-own-upper-bound", "lo[1:] - hi[0:-1]\n", "lo[1:] - hi[1:]\n", "R4", file=AO),
    _m("eip-lo-unfiltered", "lo = lo[pos_diff].astype(int)", "lo = lo.astype(int)", "R4", file=AO),
    _m("seed-eip-cast-after-subtraction", "    lo = lo[pos_diff].astype(int)\n", "    lo = lo[pos_diff]\n", "R4", file=AO),
    _m("eip-jump-positions-all-lengths", "x[np.cumsum(num_elements_in_interval[0:-1])]", "x[np.cumsum(num_elements_in_interval[1:])]", "R4", file=AO),
    # ---- R5 rldecode: values restricted like the counts (reverted fix 9e1228e1d)
    _m("revert-fix-rldecode-unrestricted-values", "    B = A[np.flatnonzero(r)[np.cumsum(j)]]\n", "    B = A[np.cumsum(j)]\n", "R5", control=True),
    _m("rldecode-values-filtered-by-other-mask", "    B = A[np.flatnonzero(r)[np.cumsum(j)]]\n", "    B = A[np.flatnonzero(n >= 0)[np.cumsum(j)]]\n", "R5"),
    # ---- R6 run-length internals
    _m("rldecode-marks-include-first-pointer", "j[i[1:-1:]] = 1", "j[i[0:-1:]] = 1", "R6"),
    _m("rldecode-mask-drops-single-repeats", "    r = n > 0\n", "    r = n > 1\n", "R6", control=True),
    _m("rlencode-sentinel-zero", "num = np.diff(np.hstack((np.array([-1]), i)))", "num = np.diff(np.hstack((np.array([0]), i)))", "R6"),
    _m("rlencode-final-boundary-from-rows", "i = np.hstack((np.argwhere(i).ravel(), (A.shape[1] - 1)))", "i = np.hstack((np.argwhere(i).ravel(), (A.shape[0] - 1)))", "R6"),
    _m("rlencode-all-components-must-differ", "i = np.any(comp, axis=0)", "i = np.all(comp, axis=0)", "R6"),
    _m("rlencode-ends-shifted", "i = np.hstack((np.argwhere(i).ravel(), (A.shape[1] - 1)))", "i = np.hstack((np.argwhere(i).ravel() + 1, (A.shape[1] - 1)))", "R6"),
    # ---- R7 merge_matrices (reverted fix 377282372 and its wrong variants)
    _m("revert-fix-merge-lines-not-sorted", '    order = np.argsort(lines_to_replace, kind="stable")\n    lines_to_replace = lines_to_replace[order]\n'
       '    B = B[order] if matrix_format == "csr" else B[:, order]\n', "", "R7", control=True),
    _m("merge-lines-sorted-B-not-permuted", '    B = B[order] if matrix_format == "csr" else B[:, order]\n', "", "R7"),
    _m("merge-B-permuted-on-rows-for-csc", '    B = B[order] if matrix_format == "csr" else B[:, order]\n', '    B = B[order] if matrix_format == "csr" else B[order, :]\n', "R7"),
    _m("merge-B-permuted-on-wrong-axes", '    B = B[order] if matrix_format == "csr" else B[:, order]\n', '    B = B[:, order] if matrix_format == "csr" else B[order]\n', "R7"),
    _m("merge-B-permuted-with-inverse", '    B = B[order] if matrix_format == "csr" else B[:, order]\n',
       '    inverse = np.argsort(order)\n    B = B[inverse] if matrix_format == "csr" else B[:, inverse]\n', "R7"),
    _m("merge-B-permuted-for-csr-only", '    B = B[order] if matrix_format == "csr" else B[:, order]\n', '    if matrix_format == "csr":\n        B = B[order]\n', "R7"),
    # ---- R10
    _m("revert-fix-stack-diag-shortcut-returns-A", "        raise ValueError(\"A and B must be of same matrix type\")\n    C = A.copy()\n",
       "        raise ValueError(\"A and B must be of same matrix type\")\n    if B.indptr.size == 1:\n        return A\n    C = A.copy()\n", "R10", control=True),
    _m("seed-stack-mat-shortcut-on-no-entries", "    if B.indptr.size == 1:\n        return\n", "    if B.nnz == 0:\n        return\n", "R10"),
    _m("stack-diag-shape-only-rows-grow", "C._shape = (A._shape[0] + B._shape[0], A._shape[1] + B._shape[1])",
       "C._shape = (A._shape[0] + B._shape[0], A._shape[1] + B._shape[0])", "R10"),
    # ---- R9 Kronecker numbering
    _m("kron-product-identity-first", "return sps.kron(matrix, sps.eye(nd)).tocsc()", "return sps.kron(sps.eye(nd), matrix).tocsc()", "R9", control=True),
    _m("expand-indices-component-major", "new_ind = nd * ind + dim_inds", "new_ind = ind + nd * dim_inds", "R9", file=AO),
    _m("expand-indices-default-order-C", 'order: Literal["F", "C"] = "F"', 'order: Literal["F", "C"] = "C"', "R9", file=AO),
]
