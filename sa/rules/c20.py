"""C20 - grid geometry is equivariant under rigid motions: extracted-formula identities on symbolic grids.

Same machinery as C19 (sa.rules.c19: the geometry kernels and map_geometry.compute_normal / compute_tangent are
interpreted from the AST of the current source over small grids with fixed connectivity and SYMBOLIC node
coordinates; nothing is imported or run; sympy's sparse polynomial rings are the term normaliser).  Every instance
is evaluated once with its nodes X and once with the moved nodes Q X + tau, where tau is a symbolic translation and Q
a fixed rational rotation matrix about a skew axis (Q1: axis (1,2,2)/3, cos = 3/5; Q2: axis (2,-1,2)/3, cos = 5/13 -
both angles are irrational multiples of pi, so the two rotations generate a dense subgroup of SO(3): covariance
under Q1 and Q2 for ALL node coordinates implies covariance under every rotation by continuity).  The outputs of
the two evaluations are compared as polynomial identities in the node coordinates and tau.

R1  measures            face_areas and cell_volumes of the moved grid equal those of the original grid
R2  normals             face_normals(Q X + tau) == Q face_normals(X)
R3  centres             face_centers / cell_centers (Q X + tau) == Q centres(X) + tau
R4  plane / line fit    map_geometry.compute_normal and compute_tangent, evaluated on their own on a symbolic planar / collinear
                        point set: unit length, orthogonal to (parallel to) the differences of the points, and
                        f(Q X + tau) == +-Q f(X) (the sign of the fitted vector is documented as arbitrary)
R5  totality            the moved grid is processed without raising and on the same path as the original grid
R6  decisions           every data-dependent decision taken on the way (comparison, tolerance test, isclose, argmax key, sign pulled
                        out of a square root) is logged with its deciding term; a term of the moved evaluation that contains tau
                        is examined: a far translation at which it falls the other way is searched (decades up to 1e8, nine
                        directions), the grid - and for 2-d two NON-CONVEX twins with opposite loop directions, for which the convex
                        fall-back is not harmless - is moved by that CONCRETE translation and its geometry compared with the
                        original; a difference or a failure there is the finding, otherwise the dependence is a note

Instances: the C19 instances with the translation symbols added, plus a line parallel to the z-axis and a grid in the
plane x = const (formulas that single out a coordinate degenerate exactly there).  Quick tier: general line, vertical
line, general plane with the plane fit + convex fall-back, vertical plane (oriented arm), motion Q1 + tau.  Thorough
tier: additionally the general oriented plane, the patchy plane (orientation check 3/3), the vertical unoriented
plane, the pyramid + tetrahedron, and the second rotation Q2 for every instance.

Not decided: other connectivities; improper motions (reflections); tie-breaking of argmax for degenerate point sets;
tolerance branches (the thresholds compare rigid-motion invariants - that the compared quantities ARE invariant is
covered, the thresholds' values are not); round-off; compute_normals_1d (not an anchor; it divides by the xy-part
of the tangent).
"""
from __future__ import annotations

import numpy as np
import sympy as sp

from ..core.astutil import methods
from ..core.loader import AnchorError, Undecided
from ..core.report import Ctx
from . import c19
from .c19 import (GRID, MAPG, KERNEL, Instance, Fam, T, World, Ev, Scope, Closure, KernelRaises, ShapeFault, Mat, obj, TAU,
                  line_instance, plane_instance, solid_instance, run_kernel, outputs)

META = {
    "explanation": __doc__,
    "rule_text": "one obligation per (instance, motion, face | cell | array entry) identity; R5 one per (instance, motion)",
    "trusted_base": c19.META["trusted_base"] + ["Q1, Q2 are exact rational rotation matrices (orthogonality and det = 1 are re-checked on every run)",
                                                  "two rotations about different axes by angles that are irrational multiples of pi generate a "
                                                  "dense subgroup of SO(3) (Niven: cos = 3/5 and 5/13 are not cosines of rational multiples of pi)"],
    "assumptions": c19.META["assumptions"] + ["the kernels are continuous in the node coordinates on the branch taken (needed to pass from the dense "
                                              "subgroup to all rotations)"],
    "accepted_forms": c19.META["accepted_forms"],
    "technique": "abstract interpretation of the array kernels to closed-form terms on small symbolic grids, evaluated for X and for Q X + tau; "
                 "covariance decided as polynomial identities (sympy polynomial rings as term normaliser)",
}
MIN_INSTANCES = {"R1": 30, "R2": 20, "R3": 30, "R4": 16, "R5": 4, "R6": 4}


def _rot(axis, c, s):
    k = sp.Matrix(axis) / sp.sqrt(sum(a * a for a in axis))
    K = sp.Matrix([[0, -k[2], k[1]], [k[2], 0, -k[0]], [-k[1], k[0], 0]])
    Q = c * sp.eye(3) + s * K + (1 - c) * (k * k.T)
    Q = Q.applyfunc(sp.nsimplify)
    if not all(e.is_Rational for e in Q) or (Q * Q.T - sp.eye(3)) != sp.zeros(3, 3) or Q.det() != 1:
        raise AnchorError("C20: rotation matrix of the rule is not an exact rational rotation")
    return Q


Q1 = _rot((1, 2, 2), sp.Rational(3, 5), sp.Rational(4, 5))
Q2 = _rot((2, -1, 2), sp.Rational(5, 13), sp.Rational(12, 13))
MOTIONS = {"Q1+tau": (Q1, True), "Q2": (Q2, False)}


def move(fam: Fam, X: np.ndarray, Q, with_tau: bool, tau_vec=None) -> np.ndarray:
    """Q X (+ tau) for a 3 x n object array of terms; tau symbolic, or the concrete rational vector tau_vec"""
    tau = [fam.from_expr(t) for t in TAU] if with_tau else [0, 0, 0]
    if tau_vec is not None:
        tau = [sp.Rational(v) for v in tau_vec]
    out = np.empty(X.shape, dtype=object)
    for j in range(X.shape[1]):
        for i in range(3):
            out[i, j] = Q[i, 0] * X[0, j] + Q[i, 1] * X[1, j] + Q[i, 2] * X[2, j] + tau[i]
    return out


def _qvec(Q, v):
    return [Q[i, 0] * v[0] + Q[i, 1] * v[1] + Q[i, 2] * v[2] for i in range(3)]


def _tnodes(inst: Instance) -> np.ndarray:
    return inst.grid().attrs["nodes"]


def _zero_all(ctx, fam, rule, resid, q, fn, construct, what):
    bad = None
    for r in resid:
        if not fam.iszero(r):
            bad = r
            break
    wit = None if bad is None else fam.witness(bad)
    ctx.check(rule, bad is None, GRID if not q.startswith("compute_") else MAPG, q, fn,
              what + ("" if bad is None else f"; residual {wit['residual']:.4g} for the node coordinates / translation {wit['placement']}"),
              construct=construct, facts=wit)


def check_motion(ctx: Ctx, inst: Instance, base, moved_out, mname: str, Q, with_tau: bool, fn, tau_vec=None) -> None:
    fam = inst.fam
    q = KERNEL[inst.dim]
    tag = f"[{inst.name}] {mname}:"
    if moved_out.fault is not None:
        kind = "raises" if isinstance(moved_out.fault, KernelRaises) else "combines arrays of different index spaces"
        ctx.check("R5", False, GRID, q, moved_out.fault.node or fn, f"instance {inst.name} moved by {mname}: the geometry computation {kind} "
                  f"({moved_out.fault.what}) although it runs through on the original grid", construct=f"{tag} moved grid runs through")
        return
    res, problem = outputs(inst, moved_out.grid)
    if problem:
        ctx.check("R5", False, GRID, q, fn, f"instance {inst.name} moved by {mname}: {problem}", construct=f"{tag} moved grid runs through")
        return
    ctx.check("R5", True, GRID, q, fn, f"instance {inst.name} moved by {mname}: compute_geometry runs through", construct=f"{tag} moved grid runs through")
    tau = [fam.from_expr(t) for t in TAU] if with_tau else [0, 0, 0]
    if tau_vec is not None:
        tau = [sp.Rational(v) for v in tau_vec]
    nf, nc = len(inst.face_loops), len(inst.cells)
    for f in range(nf):
        _zero_all(ctx, fam, "R1", [res["face_areas"][f] - base["face_areas"][f]], q, fn, f"{tag} area of face {f}",
                  f"face {f}: the area must not change under the rigid motion {mname}")
        n0 = [base["face_normals"][i, f] for i in range(3)]
        qn = _qvec(Q, n0)
        _zero_all(ctx, fam, "R2", [res["face_normals"][i, f] - qn[i] for i in range(3)], q, fn, f"{tag} normal of face {f}",
                  f"face {f}: the normal of the moved grid must be the rotated normal")
        c0 = _qvec(Q, [base["face_centers"][i, f] for i in range(3)])
        _zero_all(ctx, fam, "R3", [res["face_centers"][i, f] - c0[i] - tau[i] for i in range(3)], q, fn, f"{tag} centre of face {f}",
                  f"face {f}: the centre of the moved grid must be the moved centre")
    for c in range(nc):
        _zero_all(ctx, fam, "R1", [res["cell_volumes"][c] - base["cell_volumes"][c]], q, fn, f"{tag} volume of cell {c}",
                  f"cell {c}: the volume must not change under the rigid motion {mname}")
        c0 = _qvec(Q, [base["cell_centers"][i, c] for i in range(3)])
        _zero_all(ctx, fam, "R3", [res["cell_centers"][i, c] - c0[i] - tau[i] for i in range(3)], q, fn, f"{tag} centre of cell {c}",
                  f"cell {c}: the centre of the moved grid must be the moved centre")


# ------------------------------------------------------------------------------------------------------
#  R4: compute_normal / compute_tangent on their own
# ------------------------------------------------------------------------------------------------------

def call_function(repo, fam: Fam, rel: str, name: str, args: list):
    fn = repo.module(rel).func(name)
    fam.restart_budget()
    w = World(repo, fam)
    ev = Ev(w, Scope(), rel, name)
    try:
        return ev.apply(Closure(fn, None, rel, name), args, {}, fn), None
    except (KernelRaises, ShapeFault) as f:
        return None, f
    except (Undecided, AnchorError):
        raise
    except RecursionError:
        raise Undecided(f"C20 [{fam.name}]: recursion limit in the evaluator")
    except (TypeError, ValueError, IndexError, KeyError, AttributeError, ZeroDivisionError, sp.SympifyError, sp.PolynomialError) as err:
        raise Undecided(f"C20 [{fam.name}]: evaluator could not interpret {name} ({type(err).__name__}: {str(err)[:120]})")


def _vec3(v):
    if not isinstance(v, np.ndarray) or isinstance(v, Mat) or v.shape != (3,):
        return None
    return [obj(v)[i] for i in range(3)]


def check_fit(ctx: Ctx, repo, inst: Instance, name: str, tier: str) -> None:
    """compute_normal on the nodes of a planar instance / compute_tangent on the nodes of a line instance"""
    fam = inst.fam
    fn = repo.module(MAPG).func(name)
    X = _tnodes(inst)
    tag = f"[{inst.name}] {name}:"
    base, fault = call_function(repo, fam, MAPG, name, [X.copy()])
    v = _vec3(base) if fault is None else None
    if v is None:
        ctx.check("R4", False, MAPG, name, (fault.node if fault is not None else None) or fn,
                  f"{name} on the nodes of instance {inst.name}: " + (f"raises / mixes index spaces ({fault.what})" if fault is not None else "does not return a 3-vector"),
                  construct=f"{tag} returns a vector")
        return
    ctx.check("R4", True, MAPG, name, fn, f"{name} returns a 3-vector on the nodes of instance {inst.name}", construct=f"{tag} returns a vector")
    _zero_all(ctx, fam, "R4", [c19._dot(v, v) - 1], name, fn, f"{tag} unit length", f"{name}: the result must have unit length")
    d = [[X[i, k] - X[i, 0] for i in range(3)] for k in range(1, X.shape[1])]
    if name == "compute_normal":
        _zero_all(ctx, fam, "R4", [c19._dot(v, dk) for dk in d], name, fn, f"{tag} orthogonal to the point set",
                  "compute_normal: the result must be orthogonal to every difference of two points of the planar set")
    else:
        _zero_all(ctx, fam, "R4", [c for dk in d for c in c19._cross(v, dk)], name, fn, f"{tag} parallel to the point set",
                  "compute_tangent: the result must be parallel to every difference of two points of the collinear set")
    for mname, (Q, with_tau) in MOTIONS.items():
        if mname == "Q2" and tier != "thorough":
            continue
        moved, fault = call_function(repo, fam, MAPG, name, [move(fam, X, Q, with_tau)])
        mv = _vec3(moved) if fault is None else None
        if mv is None:
            ctx.check("R4", False, MAPG, name, (fault.node if fault is not None else None) or fn,
                      f"{name} on the nodes of instance {inst.name} moved by {mname}: " + (f"raises ({fault.what})" if fault is not None else "no 3-vector"),
                      construct=f"{tag} {mname} covariance")
            continue
        qv = _qvec(Q, v)
        # up to sign: the orientation of the fitted normal / tangent is documented as arbitrary (the kernels re-orient the face normals
        # afterwards), so a rewrite that chooses the sign differently is not a fault; both vectors have unit length (checked above)
        _zero_all(ctx, fam, "R4", c19._cross(mv, qv) + [c19._dot(mv, mv) - 1], name, fn, f"{tag} {mname} covariance",
                  f"{name}(Q X + tau) must equal +-Q {name}(X) for the rigid motion {mname}")


def instances(tier: str) -> list[Instance]:
    # quick: the embedded 1-d and 2-d kernels on every path (oriented arm, plane fit + convex fall-back), general and coordinate-aligned
    out = [line_instance(tau=True), line_instance(tau=True, vertical=True), plane_instance(oriented=False, tau=True),
           plane_instance(tau=True, vertical=True)]
    if tier == "thorough":
        out += [plane_instance(tau=True), solid_instance(tau=True), plane_instance(patchy=True, tau=True),
                plane_instance(oriented=False, tau=True, vertical=True)]
    return out


DIRECTIONS = [(1, 1, 1), (1, 0, 0), (0, 1, 0), (0, 0, 1), (-1, -1, -1), (-1, 0, 0), (0, -1, 0), (0, 0, -1), (2, -3, 5)]
FAR = [10 ** k for k in range(1, 9)]


def _concrete_motion(ctx: Ctx, make, mname: str, Q, tau_vec, fn):
    """findings of the covariance rules R1-R3/R5 for a fresh copy of an instance moved by Q and the CONCRETE translation tau_vec"""
    inst2 = make()
    scratch = Ctx(ctx.prop, ctx.repo, ctx.tier)
    for attempt in (0, 1):
        try:
            base_out = run_kernel(ctx.repo, inst2)
            if base_out.fault is not None:
                return []
            base, problem = outputs(inst2, base_out.grid)
            if problem:
                return []
            moved = run_kernel(ctx.repo, inst2, nodes=move(inst2.fam, _tnodes(inst2), Q, False, tau_vec))
            check_motion(scratch, inst2, base, moved, f"{mname} with tau = {tuple(tau_vec)}", Q, False, fn, tau_vec)
            return scratch.findings
        except Undecided as e:
            if attempt or "differently on the placements" not in str(e):
                raise
            inst2, scratch = inst2.single(), Ctx(ctx.prop, ctx.repo, ctx.tier)
    return scratch.findings


def position_clause(ctx: Ctx, inst: Instance, log: list, mname: str, Q, fn) -> None:
    """R6: a data-dependent decision taken while the grid Q X + tau is processed must not depend on tau.  For a decision term that contains
    tau, look for a far translation at which it falls the other way, move the grid (and, for 2-d grids, two non-convex twins with
    opposite loop directions, where the convex fall-back is not harmless) by Q and that CONCRETE translation and compare the results
    with those of the original grid: only a difference (or a failure) THERE is a finding."""
    fam = inst.fam
    q = KERNEL[inst.dim]
    tag = f"[{inst.name}] {mname}:"
    suspects = []
    for what, t, sg, where in log:
        if not fam.mentions(t, TAU):
            continue
        far = None
        for lam in FAR:
            for u_ in DIRECTIONS:
                v = fam.value_at(t, {TAU[i]: lam * u_[i] for i in range(3)})
                if v is not None and v != 0.0 and (v > 0) != (sg > 0):
                    far = tuple(lam * c for c in u_)
                    break
            if far:
                break
        suspects.append((what, where, far))
        if len(suspects) > 60:
            break
    failures, tried = [], set()
    for what, where, far in suspects:
        if far is None:
            continue
        makers = [inst.remake]
        if inst.dim == 2:
            makers += [lambda: plane_instance(concave=True, tau=True), lambda: plane_instance(concave=True, mirrored=True, tau=True)]
        for mk_i, make in enumerate(makers):
            for mult in (1, 100):
                tv = tuple(c * mult for c in far)
                if (mk_i, tv) in tried or len(tried) >= 12:
                    continue
                tried.add((mk_i, tv))
                try:
                    fnds = _concrete_motion(ctx, make, mname.split("+")[0], Q, tv, fn)
                except Undecided as e:
                    ctx.note(f"{tag} position independence: the grid moved by tau = {tv} could not be decided ({str(e)[:120]})")
                    continue
                if fnds:
                    failures.append((what, where, tv, fnds))
        if failures and failures[-1][0] == what:
            continue
    noted = set()
    for what, where, far in suspects:
        if not any(w == what for w, _, _, _ in failures) and what not in noted:
            noted.add(what)
            ctx.note(f"{tag} the decision `{what}` in {where[1]} depends on the position of the grid"
                     + (f" (it falls the other way after the translation {far})" if far else " (no translation up to 1e8 makes it fall the other way)")
                     + "; the results of the moved grids that were examined agree with the original")
    if not failures:
        ctx.check("R6", True, GRID, q, fn, f"instance {inst.name}, motion {mname}: no data-dependent decision depends on the translation, or the moved grid "
                  f"still gives the moved geometry where it falls the other way ({len(log)} decisions, {len(suspects)} depend on tau)",
                  construct=f"{tag} decisions independent of the position")
        return
    seen = set()
    for what, where, tv, fnds in failures:
        cons = f"{tag} position: {c19.decision_kind(what)} in {where[1]}"
        if cons in seen:
            continue
        seen.add(cons)
        f0 = fnds[0]
        ctx.check("R6", False, where[0] or GRID, where[1] or q, fn, f"the decision `{what}` depends on where the grid lies: after the rigid motion "
                  f"{mname.split('+')[0]} followed by the translation {tv} it falls the other way and the geometry is no longer the moved geometry: "
                  f"{f0.construct}: [{f0.rule}] {f0.message[:300]}", construct=cons,
                  facts={"translation": [str(c) for c in tv], "decision": what, "failed": [f"{f.rule} {f.construct}" for f in fnds[:6]]})


def _one_instance(ctx: Ctx, inst: Instance, ms, tier: str) -> None:
    fn = ms.get(KERNEL[inst.dim].split(".")[1]) or ms["compute_geometry"]
    base_out = run_kernel(ctx.repo, inst)
    if base_out.fault is not None:
        kind = "raises" if isinstance(base_out.fault, KernelRaises) else "combines arrays of different index spaces"
        ctx.check("R5", False, GRID, KERNEL[inst.dim], base_out.fault.node or fn, f"the valid grid {inst.name} ({inst.note}) is not processed: the geometry "
                  f"computation {kind} ({base_out.fault.what}); covariance cannot hold for a grid position that is rejected",
                  construct=f"[{inst.name}] original grid runs through")
        return
    base, problem = outputs(inst, base_out.grid)
    if problem:
        ctx.check("R5", False, GRID, KERNEL[inst.dim], fn, f"instance {inst.name}: {problem}", construct=f"[{inst.name}] original grid runs through")
        return
    X = _tnodes(inst)
    for mname, (Q, with_tau) in MOTIONS.items():
        if mname == "Q2" and tier != "thorough":
            continue     # the second rotation (needed for the density argument, not for finding faults) runs in the thorough tier
        log: list = []
        moved = run_kernel(ctx.repo, inst, nodes=move(inst.fam, X, Q, with_tau), log=log)
        check_motion(ctx, inst, base, moved, mname, Q, with_tau, fn)
        if with_tau and moved.fault is None:
            position_clause(ctx, inst, log, mname, Q, fn)
    if inst.dim == 1:
        check_fit(ctx, ctx.repo, inst, "compute_tangent", tier)
    if inst.dim == 2 and "unoriented" in inst.name or inst.name == "plane-vertical":
        check_fit(ctx, ctx.repo, inst, "compute_normal", tier)


def _observations(ctx: Ctx) -> None:
    """out-of-anchor observation (a note, never a finding): compute_normals_1d singles out the xy-part of the tangent"""
    try:
        inst = line_instance(tau=True, vertical=True)
        ctx.repo.module(MAPG).func("compute_normals_1d")
        _, fault = call_function(ctx.repo, inst.fam, MAPG, "compute_normals_1d", [_tnodes(inst)])
        if fault is not None:
            ctx.note(f"map_geometry.compute_normals_1d (not an anchor of C20) on a line parallel to the z-axis: {fault.what} "
                     f"(the function normalises by the xy-part of the tangent; it is not rotation covariant)")
    except (Undecided, AnchorError):
        pass


def run(ctx: Ctx) -> None:
    mod = ctx.repo.module(GRID)
    ms = methods(mod.cls("Grid"))
    if "compute_geometry" not in ms:
        raise AnchorError(f"{GRID}:Grid.compute_geometry not found")
    mg = ctx.repo.module(MAPG)
    mg.func("compute_normal")
    mg.func("compute_tangent")
    undecided = []
    for inst in instances(ctx.tier):
        try:
            try:
                _one_instance(ctx, inst, ms, ctx.tier)
            except Undecided as e:
                if "differently on the placements" not in str(e):
                    raise
                n0 = len(ctx.obligations)
                del ctx.obligations[n0:]
                _one_instance(ctx, inst.single(), ms, ctx.tier)
        except Undecided as e:
            undecided.append(str(e))
            continue
        ctx.sample({"instance": inst.name, "note": inst.note, "symbols": [str(s) for s in inst.fam.symbols], "square_roots": len(inst.fam.rad)})
    if ctx.tier == "thorough":
        _observations(ctx)
    if undecided and not ctx.findings:
        raise Undecided("; ".join(undecided))
    for msg in undecided:
        ctx.note("undecided instance (not a verdict): " + msg)


def _m(name, old, new, rule, file=GRID, control=False, count=1):
    return dict(name=name, file=file, old=old, new=new, rule=rule, control=control, count=count)


MUTANTS = [
    # --- map_geometry: plane / line fit
    _m("compute-normal-not-centred", "    v = pts - center\n", "    v = pts\n", "R4", file=MAPG),
    _m("compute-tangent-normalised-in-xy", "    return tangent / np.linalg.norm(tangent)", "    return tangent / np.linalg.norm(tangent[:2])", "R4", file=MAPG),
    _m("compute-tangent-from-origin", "    tangent = pts - mean_pts\n", "    tangent = pts\n", "R4", file=MAPG),
    # --- kernels: a coordinate singled out (invisible for grids in the xy-plane / lines off the z-axis)
    _m("1d-norm-drops-z", "return np.sqrt(u[0] * u[0] + u[1] * u[1] + u[2] * u[2])", "return np.sqrt(u[0] * u[0] + u[1] * u[1])", "R2"),
    _m("2d-oriented-normal-assumes-xy-plane", "                    return plane_normal / len_normal",
       "                    return np.array([0.0, 0.0, np.sign(plane_normal[2])])", "*"),
    _m("2d-fallback-normal-assumes-xy-plane", "                return pp.map_geometry.compute_normal(self.nodes)", "                return np.array([0.0, 0.0, 1.0])", "*"),
    _m("2d-area-from-xy-only", "self.face_areas = np.sqrt(np.square(tangent).sum(axis=0))", "self.face_areas = np.sqrt(np.square(tangent[:2]).sum(axis=0))", "R1", control=True),
    # --- kernels: a point combination that is not affine (weights do not sum to one on mixed grids)
    # --- independently seeded changes (campaign of the coordinator): position-dependent DECISIONS
    _m("seed-2d-orientation-threshold-from-face-centres", "if len_normal < 1e-5 * np.mean(self.face_areas) ** 2:", "if len_normal < 1e-5 * np.mean(self.face_centers) ** 2:", "R6"),
    _m("seed-compute-normal-norms-of-uncentred-points", "    nrm = np.linalg.norm(v, axis=0)\n", "    nrm = np.linalg.norm(pts, axis=0)\n", "R6", file=MAPG),
    _m("seed-1d-flip-probe-scaled-by-distance-from-origin", "vn = v + nrm(v) * self.face_normals[:, fi[idx]] * 0.001", "vn = v + nrm(cc) * self.face_normals[:, fi[idx]] * 0.001", "R6"),
    _m("2d-temp-centre-not-affine", "temp_cell_centers = np.vstack((cx, cy, cz)) / np.bincount(cellno)",
       "temp_cell_centers = np.vstack((cx, cy, cz)) / np.bincount(cellno).max()", "R3"),
]
