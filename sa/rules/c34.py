"""C34 - uniquify_point_set: soundness of the norm-based pruning, cluster bookkeeping,
first-occurrence representatives, final re-ordering of all three outputs."""
from __future__ import annotations

import ast
import copy

from ..core.astutil import u, call_name, kwarg, walk_local, parent_map, names_in, inline_locals, stmts_local
from ..core.loader import AnchorError, Undecided
from ..core.report import Ctx
from ..core import cfg as cfgmod

FILE = "src/porepy/utils/array_operations.py"
OUTER = "uniquify_point_set"
INNER = "_unique_points_in_cluster"

META = {
    "explanation": (
        "uniquify_point_set sorts the points by norm, splits the sorted sequence into clusters and compares points "
        "only inside a cluster. That pruning is sound iff two points in different clusters are certainly farther "
        "apart than tol. R1 decides the clause that makes it so: the quantity compared with tol is the gap between "
        "CONSECUTIVE sorted norms (the reference norm is re-assigned on every iteration of the clustering loop, or the "
        "gaps are np.diff of the sorted norms); with a reference that is re-assigned only when a cluster starts, two "
        "points whose norms differ by far less than tol can land in different clusters (D8, known finding). "
        "R2: the sort key is 1-Lipschitz w.r.t. the Euclidean distance used in the inner comparison (reverse triangle "
        "inequality), the threshold is tol on both sides (|dnorm| > tol  vs  squared distance < tol**2), the same tol "
        "and the same argsort array reach the inner function. R3: every point is counted in exactly one cluster, after "
        "the cluster index was advanced; all clusters are kept; the running offsets are advanced after use and the "
        "three per-cluster results are written at those offsets. R4 (inner function): a representative is replaced "
        "only by a point with a smaller original index and then index and coordinates are replaced together; a new "
        "representative writes all three arrays at `keep` before keep is advanced and the comparison window re-sliced; "
        "the twin index is the first hit. R5: ordering = argsort(new_2_old) is applied as a gather to unique_pts and "
        "new_2_old and as the INVERSE permutation to the entries of old_2_new, and those re-mapped values are the ones "
        "returned. Not decided: numerical behaviour of the tolerance comparisons, ismember_columns/intersect_sets."),
    "rule_text": "one obligation per clustering loop, per threshold/key/argument, per bookkeeping statement, per store, per output",
    "trusted_base": ["python ast", "sa.core (loader, astutil, cfg)", "reverse triangle inequality | ||x||-||y|| | <= ||x-y||"],
    "assumptions": ["points are columns (axis 0 is the coordinate axis), as documented",
                    "accepted sound pruning forms are: chained gap in a loop; np.diff of the sorted norms. Another sound "
                    "design (e.g. re-scanning a tol window across cluster borders) would be reported as undecided/finding"],
    "technique": "dataflow + CFG post-dominance on the clustering loop, alpha-renamed template matching of index expressions",
}
MIN_INSTANCES = {"R1": 1, "R2": 6, "R3": 14, "R4": 12, "R5": 4}


# ------------------------------------------------------------------------------------
def _rename(e: ast.AST, roles: dict[str, str]) -> str:
    """unparse with local names replaced by role labels (alpha-renaming).  A bare slice
    expression (the .slice of a Subscript) is printed as it appears between the brackets."""
    e2 = copy.deepcopy(e)
    for n in ast.walk(e2):
        if isinstance(n, ast.Name) and n.id in roles:
            n.id = roles[n.id]
    if isinstance(e2, (ast.Slice, ast.Tuple)):
        return u(ast.Subscript(value=ast.Name(id="_", ctx=ast.Load()), slice=e2, ctx=ast.Load()))[2:-1]
    return u(e2)


def _is_np(call: ast.AST, name: str) -> bool:
    return isinstance(call, ast.Call) and call_name(call) == name


def _assigns(fn: ast.AST, name: str) -> list[ast.stmt]:
    out = []
    for s in stmts_local(fn):
        if isinstance(s, ast.Assign):
            for t in s.targets:
                if isinstance(t, ast.Name) and t.id == name:
                    out.append(s)
        elif isinstance(s, (ast.AugAssign, ast.AnnAssign)) and isinstance(s.target, ast.Name) and s.target.id == name:
            out.append(s)
    return out


def _norm_kind(e: ast.expr, pts: str) -> str:
    """Classify the sort key computed from the point array `pts` (columns are points)."""
    def axis0(c: ast.Call) -> bool:
        a = kwarg(c, "axis")
        if a is None and len(c.args) > 1:
            a = c.args[1]
        return isinstance(a, ast.Constant) and a.value == 0

    def is_sq(x) -> bool:
        return (isinstance(x, ast.BinOp) and isinstance(x.op, ast.Pow) and isinstance(x.right, ast.Constant)
                and x.right.value == 2 and u(x.left) == pts) or \
               (isinstance(x, ast.BinOp) and isinstance(x.op, ast.Mult) and u(x.left) == pts and u(x.right) == pts) or \
               (_is_np(x, "square") and u(x.args[0]) == pts)

    def is_abs(x) -> bool:
        return (_is_np(x, "abs") or _is_np(x, "absolute")) and x.args and u(x.args[0]) == pts

    def sumsq(x) -> bool:
        return _is_np(x, "sum") and x.args and is_sq(x.args[0]) and axis0(x)
    if _is_np(e, "sqrt") and e.args and sumsq(e.args[0]):
        return "l2"
    if isinstance(e, ast.BinOp) and isinstance(e.op, ast.Pow) and sumsq(e.left) and isinstance(e.right, ast.Constant) \
            and e.right.value == 0.5:
        return "l2"
    if _is_np(e, "norm") and e.args and u(e.args[0]) == pts and axis0(e):
        o = kwarg(e, "ord")
        if o is None or (isinstance(o, ast.Constant) and o.value in (None, 2)):
            return "l2"
        if isinstance(o, ast.Constant) and o.value == 1:
            return "l1"
        if u(o) in ("np.inf", "numpy.inf"):
            return "linf"
        return "unknown"
    if sumsq(e):
        return "l2-squared"
    if _is_np(e, "sum") and e.args and is_abs(e.args[0]) and axis0(e):
        return "l1"
    if _is_np(e, "max") and e.args and is_abs(e.args[0]) and axis0(e):
        return "linf"
    return "unknown"


SOUND_KEYS = {"l2": "the Euclidean norm is 1-Lipschitz for the Euclidean distance (reverse triangle inequality)",
              "linf": "| |x|_inf - |y|_inf | <= |x-y|_inf <= |x-y|_2"}
UNSOUND_KEYS = {"l2-squared": "| |x|^2 - |y|^2 | = |x-y|(|x|+|y|) is not bounded by |x-y|",
                "l1": "| |x|_1 - |y|_1 | <= |x-y|_1 <= sqrt(d) |x-y|_2 only"}


def _threshold_kind(e: ast.expr, tol: str) -> str:
    """'tol' | 'geq' (certainly >= tol) | 'smaller' (can be < tol) | 'unknown'"""
    if isinstance(e, ast.Name) and e.id == tol:
        return "tol"
    if isinstance(e, ast.BinOp) and isinstance(e.op, ast.Mult):
        for a, b in ((e.left, e.right), (e.right, e.left)):
            if isinstance(a, ast.Constant) and isinstance(a.value, (int, float)) and isinstance(b, ast.Name) and b.id == tol:
                return "geq" if a.value >= 1 else "smaller"
    if isinstance(e, ast.BinOp) and isinstance(e.op, ast.Div) and isinstance(e.left, ast.Name) and e.left.id == tol \
            and isinstance(e.right, ast.Constant) and isinstance(e.right.value, (int, float)):
        return "geq" if 0 < e.right.value <= 1 else "smaller"
    if isinstance(e, ast.BinOp) and isinstance(e.op, ast.Pow) and isinstance(e.left, ast.Name) and e.left.id == tol \
            and isinstance(e.right, ast.Constant):
        return "smaller"  # tol**k < tol for tol < 1 (k > 1), > tol otherwise: not a bound
    return "unknown"


def _gap_compare(test: ast.expr, cur: str, tol: str):
    """Recognise `abs(ref - cur) > T` / `cur - ref > T`; returns (ref_name, op, T) or None."""
    if not (isinstance(test, ast.Compare) and len(test.ops) == 1):
        return None
    l, op, r = test.left, test.ops[0], test.comparators[0]
    if isinstance(op, (ast.Lt, ast.LtE)):
        l, r = r, l
        op = ast.Gt() if isinstance(op, ast.Lt) else ast.GtE()
    if not isinstance(op, (ast.Gt, ast.GtE)):
        return None
    inner = l
    is_abs = False
    if isinstance(inner, ast.Call) and call_name(inner) in ("abs", "absolute", "fabs") and len(inner.args) == 1:
        inner = inner.args[0]
        is_abs = True
    if not (isinstance(inner, ast.BinOp) and isinstance(inner.op, ast.Sub)):
        return None
    a, b = inner.left, inner.right
    if not (isinstance(a, ast.Name) and isinstance(b, ast.Name)):
        return None
    if a.id == cur and b.id != cur:
        ref, order = b.id, "cur-ref"
    elif b.id == cur and a.id != cur:
        ref, order = a.id, "ref-cur"
    else:
        return None
    if not is_abs and order == "ref-cur":
        return ("__neg__", op, r)  # ref - cur <= 0 for ascending norms: never exceeds tol
    return (ref, op, r)


# ====================================================================================
def run(ctx: Ctx) -> None:
    mod = ctx.repo.module(FILE)
    outer = mod.func(OUTER)
    inner = mod.func(INNER)
    oparams = [a.arg for a in outer.args.args]
    if len(oparams) < 2:
        raise AnchorError(f"{OUTER}: expected parameters (points, tol)")
    P, T = oparams[0], oparams[1]
    iparams = [a.arg for a in inner.args.args]
    if len(iparams) != 5:
        raise AnchorError(f"{INNER}: expected 5 parameters, found {iparams}")

    # ---- anchors of the outer function ---------------------------------------------------
    calls = [s for s in stmts_local(outer) if isinstance(s, ast.Assign) and isinstance(s.value, ast.Call)
             and call_name(s.value) == INNER]
    if len(calls) != 1 or not isinstance(calls[0].targets[0], ast.Tuple) or len(calls[0].targets[0].elts) != 3:
        raise AnchorError(f"{OUTER}: expected one `a, b, c = {INNER}(...)`")
    call_stmt = calls[0]
    call = call_stmt.value
    UPI, N2OI, O2NI = [e.id for e in call_stmt.targets[0].elts]
    actual: dict[str, ast.expr] = {}
    for k, a in enumerate(call.args):
        actual[iparams[k]] = a
    for kw in call.keywords:
        if kw.arg not in iparams:
            raise AnchorError(f"{OUTER}: unknown keyword {kw.arg} in the call of {INNER}")
        actual[kw.arg] = kw.value
    if set(actual) != set(iparams):
        raise AnchorError(f"{OUTER}: call of {INNER} does not bind all parameters")
    ip_points, ip_sidx, ip_start, ip_size, ip_tol = iparams

    pm = parent_map(outer)
    loop2 = pm.get(call_stmt)
    if not isinstance(loop2, ast.For) or not isinstance(loop2.target, ast.Name) or not isinstance(loop2.iter, ast.Name):
        raise AnchorError(f"{OUTER}: the call of {INNER} is not directly inside `for size in counts`")
    SIZE, CNT = loop2.target.id, loop2.iter.id

    # argsort of the norms
    S = actual[ip_sidx].id if isinstance(actual[ip_sidx], ast.Name) else None
    sdef = _assigns(outer, S) if S else []
    if len(sdef) != 1 or not _is_np(sdef[0].value, "argsort") or not isinstance(sdef[0].value.args[0], ast.Name):
        raise AnchorError(f"{OUTER}: `{ip_sidx}=` argument is not a local defined once as np.argsort(<norms>)")
    N = sdef[0].value.args[0].id
    ndef = _assigns(outer, N)
    if len(ndef) != 1:
        raise AnchorError(f"{OUTER}: norms `{N}` not defined exactly once")

    # clustering loop: the loop that increments the counts
    incs = [s for s in stmts_local(outer) if isinstance(s, ast.AugAssign) and isinstance(s.target, ast.Subscript)
            and u(s.target.value) == CNT]
    loop1 = None
    for s in incs:
        p = s
        while p in pm and not isinstance(p, ast.For):
            p = pm[p]
        if isinstance(p, ast.For) and p is not loop2:
            loop1 = p
    vectorised = None
    if loop1 is None:
        # accepted vectorised form: gaps = np.diff(sorted norms) compared with tol
        for c in [c for c in walk_local(outer) if _is_np(c, "diff")]:
            par = pm.get(c)
            if isinstance(par, ast.Compare):
                vectorised = par
        if vectorised is None:
            raise AnchorError(f"{OUTER}: clustering loop (increments of `{CNT}`) not found")

    q = OUTER
    # =========================== R1 pruning soundness =======================================
    if vectorised is not None:
        arg = vectorised.left.args[0] if isinstance(vectorised.left, ast.Call) else None
        arg_i = inline_locals(outer, arg, stop=[N, S]) if arg is not None else None
        ok_sorted = arg_i is not None and u(arg_i) in (f"{N}[{S}]", f"np.sort({N})")
        thr = _threshold_kind(vectorised.comparators[0], T)
        if not ok_sorted or thr == "unknown" or not isinstance(vectorised.ops[0], (ast.Gt, ast.GtE)):
            raise Undecided(f"{OUTER}: vectorised clustering `{u(vectorised)}` not recognised")
        ctx.check("R1", True, mod, q, vectorised, "cluster borders are gaps between consecutive sorted norms (np.diff)",
                  construct="norm-clustering: np.diff of sorted norms")
        ctx.check("R2", thr in ("tol", "geq"), mod, q, vectorised,
                  f"gap threshold `{u(vectorised.comparators[0])}` can be smaller than tol", construct="pruning threshold")
        raise Undecided(f"{OUTER}: vectorised clustering recognised, but the bookkeeping rules (R3) know only the loop form")

    if not isinstance(loop1.target, ast.Name):
        raise AnchorError(f"{OUTER}: clustering loop target is not a name")
    CUR = loop1.target.id
    it_i = inline_locals(outer, loop1.iter, stop=[N, S])
    sorted_iter = u(it_i) in (f"{N}[{S}]", f"np.sort({N})")
    ctx.check("R2", sorted_iter, mod, q, loop1,
              f"the clustering loop must traverse the norms in ascending order through the same argsort array that "
              f"is handed to {INNER} (`{N}[{S}]`); it iterates `{u(it_i)}`",
              construct=f"clustering loop iterates {_rename(it_i, {N: 'NORMS', S: 'SIDX'})}", facts={"iter": u(it_i)})
    if any(isinstance(n, (ast.Break, ast.Continue)) for n in walk_local(loop1)):
        raise Undecided(f"{OUTER}: break/continue in the clustering loop")
    gaps = []
    for iff in [n for n in walk_local(loop1) if isinstance(n, ast.If)]:
        g = _gap_compare(iff.test, CUR, T)
        if g is not None:
            gaps.append((iff, g))
    if len(gaps) != 1:
        raise Undecided(f"{OUTER}: expected one `|ref - current| > tol` test in the clustering loop, found {len(gaps)}")
    gap_if, (REF, gop, gthr) = gaps[0]
    if REF == "__neg__":
        ctx.check("R1", False, mod, q, gap_if.test,
                  "the compared difference is reference - current, which is never positive for ascending norms: no "
                  "cluster border is ever detected... (signed difference in the wrong direction)",
                  construct="norm-clustering: signed gap with wrong orientation")
        return
    loop_cfg = cfgmod.build(loop1)  # CFG of one iteration of the body
    ref_assigns = [s for s in walk_local(loop1) if isinstance(s, ast.Assign) and any(
        isinstance(t, ast.Name) and t.id == REF for t in s.targets)]
    other_writes = [s for s in walk_local(loop1) if isinstance(s, (ast.AugAssign, ast.AnnAssign))
                    and isinstance(s.target, ast.Name) and s.target.id == REF]
    if other_writes or any(not (isinstance(s.value, ast.Name) and s.value.id == CUR) for s in ref_assigns):
        raise Undecided(f"{OUTER}: reference `{REF}` is written by something else than `{REF} = {CUR}`")
    nodes = {loop_cfg.node_for(s) for s in ref_assigns}
    chained = bool(nodes) and loop_cfg.every_path_passes(cfgmod.ENTRY, cfgmod.EXIT, nodes)
    only_at_start = bool(ref_assigns) and all(_inside(pm, s, gap_if.body, gap_if) for s in ref_assigns)
    facts = {"reference": REF, "current": CUR, "test": u(gap_if.test),
             "reference_assignments": len(ref_assigns),
             "failing_input": "tol=1e-3, points (1-0.9999*tol, 0), (0, 1), (0, 1+0.001*tol) -> 3 unique points, two of them 1e-6 apart"}
    if chained:
        ctx.check("R1", True, mod, q, gap_if.test,
                  "the reference norm is re-assigned on every iteration: cluster borders are gaps between consecutive "
                  "sorted norms", construct="norm-clustering: chained gap", facts=facts)
    elif only_at_start:
        ctx.check("R1", False, mod, q, gap_if.test,
                  "pruning is unsound: each sorted norm is compared with the FIRST norm of the current cluster (the "
                  "reference is re-assigned only when a cluster starts), so two points whose norms differ by much less "
                  "than tol are split into different clusters whenever the border falls between them and are never "
                  "compared", construct="norm-clustering: reference norm reassigned only at cluster start",
                  facts=facts)
    elif not ref_assigns:
        ctx.check("R1", False, mod, q, gap_if.test,
                  "the reference norm is never re-assigned in the loop: every norm is compared with the first one",
                  construct="norm-clustering: reference norm never reassigned", facts=facts)
    else:
        raise Undecided(f"{OUTER}: reference `{REF}` is re-assigned on some but not all paths, in an unknown pattern")

    # =========================== R2 key / threshold / arguments ===========================
    nk = _norm_kind(ndef[0].value, P)
    if nk == "unknown":
        raise Undecided(f"{OUTER}: sort key `{u(ndef[0].value)}` is not a recognised norm of `{P}`")
    ctx.check("R2", nk in SOUND_KEYS, mod, q, ndef[0],
              f"sort key is {nk}: " + (SOUND_KEYS.get(nk) or UNSOUND_KEYS.get(nk, "")) +
              ("" if nk in SOUND_KEYS else " - a key gap > tol does not imply Euclidean distance > tol"),
              construct=f"sort key: {nk}", facts={"expr": u(ndef[0].value)})
    thr = _threshold_kind(gthr, T)
    if thr == "unknown":
        raise Undecided(f"{OUTER}: pruning threshold `{u(gthr)}` not recognised")
    ctx.check("R2", thr in ("tol", "geq"), mod, q, gap_if.test,
              f"pruning threshold `{u(gthr)}` can be smaller than the tolerance `{T}` used by the inner comparison: points "
              f"closer than tol would be separated", construct=f"pruning threshold: {_rename(gthr, {T: 'TOL'})}",
              facts={"threshold": u(gthr)})
    # inner comparison: squared Euclidean distance < tol**2
    _check_inner_distance(ctx, mod, inner, iparams)
    # arguments of the inner call
    ctx.check("R2", isinstance(actual[ip_tol], ast.Name) and actual[ip_tol].id == T, mod, q, call,
              f"{INNER} must receive the same tolerance that bounds the pruning (`{T}`); it receives `{u(actual[ip_tol])}`",
              construct=f"inner tol = {_rename(actual[ip_tol], {T: 'TOL'})}")
    ctx.check("R2", isinstance(actual[ip_points], ast.Name) and actual[ip_points].id == P, mod, q, call,
              f"{INNER} must receive the point array the norms were computed from", construct="inner points argument")
    # (sorted_idx: S is by construction the argument; its use in the loop is checked above)

    # =========================== R3 cluster bookkeeping ======================================
    # cluster index
    cinc = [s for s in incs if _inside(pm, s, loop1.body, loop1)]
    if len(cinc) != 1 or not isinstance(cinc[0].op, ast.Add) or not (isinstance(cinc[0].value, ast.Constant) and cinc[0].value.value == 1) \
            or not isinstance(cinc[0].target.slice, ast.Name):
        raise Undecided(f"{OUTER}: expected exactly one `{CNT}[k] += 1` in the clustering loop")
    cinc = cinc[0]
    CI = cinc.target.slice.id
    n_inc = loop_cfg.node_for(cinc)
    n_if = loop_cfg.node_for(gap_if)
    once = loop_cfg.every_path_passes(cfgmod.ENTRY, cfgmod.EXIT, {n_inc}) and not _inside(pm, cinc, gap_if.body, gap_if) \
        and not _inside(pm, cinc, gap_if.orelse, gap_if)
    ctx.check("R3", once, mod, q, cinc, "every point must be counted in exactly one cluster: the count increment runs once on "
              "every path through the loop body", construct="count increment once per point")
    ctx.check("R3", loop_cfg.dominates(n_if, n_inc), mod, q, cinc,
              "the point that opens a new cluster must be counted in the NEW cluster: the count increment must come after "
              "the gap test / cluster index update", construct="count increment after gap test")
    ci_writes = [s for s in walk_local(loop1) if isinstance(s, (ast.AugAssign, ast.Assign)) and any(
        isinstance(t, ast.Name) and t.id == CI for t in ([s.target] if isinstance(s, ast.AugAssign) else s.targets))]
    ok_ci = len(ci_writes) == 1 and isinstance(ci_writes[0], ast.AugAssign) and isinstance(ci_writes[0].op, ast.Add) \
        and isinstance(ci_writes[0].value, ast.Constant) and ci_writes[0].value.value == 1 \
        and _inside(pm, ci_writes[0], gap_if.body, gap_if)
    ctx.check("R3", ok_ci, mod, q, ci_writes[0] if ci_writes else loop1,
              "the cluster index advances by one exactly when the gap test fires", construct="cluster index update")
    # slicing of the counts between the loops
    cdefs = _assigns(outer, CNT)
    slices = [s for s in cdefs if isinstance(s, ast.Assign) and isinstance(s.value, ast.Subscript) and u(s.value.value) == CNT]
    ok_slice = len(slices) == 1 and isinstance(slices[0].value.slice, ast.Slice) and slices[0].value.slice.lower is None \
        and slices[0].value.slice.upper is not None and _rename(slices[0].value.slice.upper, {CI: "CI"}) in ("CI + 1", "1 + CI") \
        and loop1.end_lineno < slices[0].lineno < loop2.lineno
    ctx.check("R3", ok_slice, mod, q, slices[0] if slices else loop2,
              f"all clusters 0..cluster index must be kept (`{CNT}[: {CI} + 1]`) between the two loops",
              construct="keep clusters [: cluster_idx + 1]",
              facts={"slice": u(slices[0]) if slices else None})
    zero = [s for s in cdefs if isinstance(s, ast.Assign) and _is_np(s.value, "zeros")]
    ctx.check("R3", len(zero) == 1 and f"{P}.shape[1]" in u(zero[0].value.args[0]), mod, q, zero[0] if zero else outer,
              "the cluster counts start at zero with room for one cluster per point", construct="counts initialised to zeros(n_pts)")

    # second loop: offsets
    START = actual[ip_start].id if isinstance(actual[ip_start], ast.Name) else None
    ok_args = START is not None and isinstance(actual[ip_size], ast.Name) and actual[ip_size].id == SIZE
    ctx.check("R3", ok_args, mod, q, call,
              f"{INNER} must receive (cluster_start=<running start>, cluster_size=<loop variable>); it receives "
              f"({u(actual[ip_start])}, {u(actual[ip_size])})", construct="inner start/size arguments",
              facts={"start": u(actual[ip_start]), "size": u(actual[ip_size])})
    if not ok_args:
        return
    body2 = loop2.body
    stores = [s for s in body2 if isinstance(s, ast.Assign) and isinstance(s.targets[0], ast.Subscript)]
    # roles of the three result arrays: by the value stored
    NU = None
    role_of_store = {}
    for s in stores:
        v = inline_locals(loop2, s.value, stop=[UPI, N2OI, O2NI])
        vn = names_in(v)
        if UPI in vn:
            role_of_store["pts"] = s
        elif N2OI in vn:
            role_of_store["n2o"] = s
        elif O2NI in vn:
            role_of_store["o2n"] = s
    if set(role_of_store) != {"pts", "n2o", "o2n"}:
        raise Undecided(f"{OUTER}: the three per-cluster result stores were not found in the second loop")
    # offset variable: the AugAssign by the number of inner uniques
    augs = [s for s in body2 if isinstance(s, ast.AugAssign) and isinstance(s.target, ast.Name) and isinstance(s.op, ast.Add)]
    aug_by = {s.target.id: s for s in augs}
    if START not in aug_by:
        ctx.check("R3", False, mod, q, loop2, f"the running cluster start `{START}` is never advanced", construct="cluster_start advance")
        return
    others = [k for k in aug_by if k != START]
    if len(others) != 1:
        raise Undecided(f"{OUTER}: expected one running unique-count offset in the second loop, found {others}")
    NU = others[0]
    roles = {NU: "NU", START: "CS", SIZE: "SZ", S: "SIDX", UPI: "UPI", N2OI: "N2OI", O2NI: "O2NI"}

    def canon(e):
        return _rename(inline_locals(loop2, e, stop=list(roles)), roles)
    K_forms = ("UPI.shape[1]", "N2OI.size", "N2OI.shape[0]", "len(N2OI)")
    k_nu = canon(aug_by[NU].value)
    ctx.check("R3", k_nu in K_forms, mod, q, aug_by[NU],
              f"the unique-count offset advances by the number of representatives of the cluster; it advances by `{k_nu}`",
              construct=f"num_unique += {k_nu}")
    ctx.check("R3", canon(aug_by[START].value) == "SZ", mod, q, aug_by[START],
              f"the cluster start advances by the cluster size; it advances by `{canon(aug_by[START].value)}`",
              construct=f"cluster_start += {canon(aug_by[START].value)}")
    # offsets are advanced after their last use in the body
    for nm, lab in ((NU, "unique-count offset"), (START, "cluster start")):
        pos = body2.index(aug_by[nm])
        later_reads = [s for s in body2[pos + 1:] if nm in names_in(s)]
        ctx.check("R3", not later_reads, mod, q, aug_by[nm],
                  f"the {lab} must be advanced after the per-cluster results were written with it",
                  construct=f"{lab} advanced last")
    # store shapes
    sl_ok = {f"NU:NU + {k}" for k in K_forms}
    t_pts = canon(role_of_store["pts"].targets[0].slice)
    t_n2o = canon(role_of_store["n2o"].targets[0].slice)
    ctx.check("R3", t_pts in {f":, {x}" for x in sl_ok}, mod, q,
              role_of_store["pts"], f"cluster representatives must be written to columns [offset : offset + count]; target index `{t_pts}`",
              construct=f"unique_pts store [{t_pts}]")
    ctx.check("R3", t_n2o in sl_ok, mod, q, role_of_store["n2o"],
              f"cluster new_2_old must be written to [offset : offset + count]; target index `{t_n2o}`",
              construct=f"new_2_old store [{t_n2o}]")
    ctx.check("R3", canon(role_of_store["pts"].value) == "UPI" and canon(role_of_store["n2o"].value) == "N2OI", mod, q,
              role_of_store["n2o"], "representatives and their original indices are copied unchanged",
              construct="inner results copied unchanged")
    t_o2n = canon(role_of_store["o2n"].targets[0].slice)
    v_o2n = canon(role_of_store["o2n"].value)
    o2n_targets = {"SIDX[np.arange(CS, CS + SZ)]", "SIDX[CS:CS + SZ]"}
    ctx.check("R3", t_o2n in o2n_targets, mod, q, role_of_store["o2n"],
              f"old_2_new of the cluster members is scattered through the argsort array at [start : start + size]; target `{t_o2n}`",
              construct=f"old_2_new scatter [{t_o2n}]")
    ctx.check("R3", v_o2n in ("O2NI + NU", "NU + O2NI"), mod, q, role_of_store["o2n"],
              f"cluster-local unique numbers are shifted by the number of uniques found so far; value `{v_o2n}`",
              construct=f"old_2_new value {v_o2n}")

    # =========================== R4 inner function ================================================
    _check_inner(ctx, mod, inner, iparams)

    # =========================== R5 final reorder =================================================
    _check_reorder(ctx, mod, outer, loop2, role_of_store, NU)


def _inside(pm: dict, node: ast.AST, block: list, owner: ast.AST) -> bool:
    """node is (transitively) inside one of the statements of `block` (a body list of owner)."""
    cur = node
    while cur in pm:
        par = pm[cur]
        if par is owner:
            return any(cur is s for s in block)
        cur = par
    return False


def _check_inner_distance(ctx: Ctx, mod, inner: ast.FunctionDef, iparams) -> None:
    tol = iparams[4]
    cands = []
    for n in walk_local(inner):
        if isinstance(n, ast.Compare) and len(n.ops) == 1 and isinstance(n.ops[0], (ast.Lt, ast.LtE)) \
                and tol in names_in(n.comparators[0]):
            cands.append(n)
    if len(cands) != 1:
        raise Undecided(f"{INNER}: expected one `<distance> < <tol>` comparison, found {len(cands)}")
    c = cands[0]
    lhs = inline_locals(inner, c.left, stop=iparams)
    rhs = c.comparators[0]

    def sumsq(x):
        if not (_is_np(x, "sum") and x.args):
            return False
        a = kwarg(x, "axis")
        if not (isinstance(a, ast.Constant) and a.value == 0):
            return False
        b = x.args[0]
        return isinstance(b, ast.BinOp) and isinstance(b.op, ast.Pow) and isinstance(b.right, ast.Constant) and b.right.value == 2 \
            and isinstance(b.left, ast.BinOp) and isinstance(b.left.op, ast.Sub)
    if sumsq(lhs):
        lk = "squared"
    elif _is_np(lhs, "sqrt") and lhs.args and sumsq(lhs.args[0]):
        lk = "plain"
    else:
        raise Undecided(f"{INNER}: distance expression `{u(lhs)}` not recognised")
    if isinstance(rhs, ast.Name) and rhs.id == tol:
        rk = "plain"
    elif (isinstance(rhs, ast.BinOp) and isinstance(rhs.op, ast.Pow) and u(rhs.left) == tol and isinstance(rhs.right, ast.Constant)
          and rhs.right.value == 2) or (isinstance(rhs, ast.BinOp) and isinstance(rhs.op, ast.Mult) and u(rhs.left) == tol
                                        and u(rhs.right) == tol):
        rk = "squared"
    else:
        raise Undecided(f"{INNER}: tolerance expression `{u(rhs)}` not recognised")
    ctx.check("R2", lk == rk, mod, INNER, c,
              f"the inner test compares a {lk} Euclidean distance with a {rk} tolerance: 'equal' then means something else "
              f"than distance < tol, which is what the norm pruning bounds", construct=f"inner distance test: {lk} vs {rk}",
              facts={"lhs": u(lhs), "rhs": u(rhs)})


def _check_inner(ctx: Ctx, mod, fn: ast.FunctionDef, iparams) -> None:
    q = INNER
    points, sidx, cstart, csize, tol = iparams
    loops = [s for s in fn.body if isinstance(s, ast.For)]
    if len(loops) != 1 or not isinstance(loops[0].target, ast.Name):
        raise AnchorError(f"{INNER}: expected one top-level for loop")
    loop = loops[0]
    I = loop.target.id
    ok_range = _is_np(loop.iter, "range") and len(loop.iter.args) == 2 and u(loop.iter.args[0]) == cstart and \
        u(loop.iter.args[1]) in (f"{cstart} + {csize}", f"{csize} + {cstart}")
    ctx.check("R4", ok_range, mod, q, loop, f"the cluster is traversed as range({cstart}, {cstart} + {csize}) of the sorted order",
              construct=f"cluster traversal {_rename(loop.iter, {cstart: 'CS', csize: 'SZ'})}")
    rets = [s for s in fn.body if isinstance(s, ast.Return)]
    if len(rets) != 1 or not isinstance(rets[0].value, ast.Tuple) or len(rets[0].value.elts) != 3:
        raise AnchorError(f"{INNER}: expected `return a, b, c`")
    r_pts, r_n2o, r_o2n = rets[0].value.elts
    # names
    if not (isinstance(r_n2o, ast.Subscript) and isinstance(r_n2o.value, ast.Name) and isinstance(r_n2o.slice, ast.Slice)
            and r_n2o.slice.lower is None and isinstance(r_n2o.slice.upper, ast.Name)):
        raise Undecided(f"{INNER}: second return value is not `<new_2_old>[:<keep>]`")
    N2O, KEEP = r_n2o.value.id, r_n2o.slice.upper.id
    if not isinstance(r_o2n, ast.Name):
        raise Undecided(f"{INNER}: third return value is not a name")
    O2N = r_o2n.id
    # unique columns array: the base of the window slice
    if isinstance(r_pts, ast.Name):
        WIN = r_pts.id
        wdefs = [s for s in stmts_local(fn) if isinstance(s, ast.Assign) and u(s.targets[0]) == WIN]
        bases = {u(s.value.value) for s in wdefs if isinstance(s.value, ast.Subscript)}
        if len(bases) != 1:
            raise Undecided(f"{INNER}: window `{WIN}` is not a slice of one array")
        UC = bases.pop()
    elif isinstance(r_pts, ast.Subscript) and isinstance(r_pts.value, ast.Name):
        WIN, UC, wdefs = None, r_pts.value.id, []
    else:
        raise Undecided(f"{INNER}: first return value not recognised")
    roles = {N2O: "N2O", O2N: "O2N", UC: "UC", KEEP: "KEEP", sidx: "SIDX", points: "PTS", I: "I", cstart: "CS"}
    if WIN:
        roles[WIN] = "WIN"

    def canon(e):
        return _rename(inline_locals(loop, e, stop=[k for k in roles]), roles)
    # candidate column
    COLFORM = "PTS[:, SIDX[I]]"
    # branch on "no twin"
    ifs = [s for s in loop.body if isinstance(s, ast.If)]
    if len(ifs) != 1:
        raise Undecided(f"{INNER}: expected one new-point/twin branch in the loop")
    br = ifs[0]
    test = inline_locals(loop, br.test, stop=list(roles))
    W = None
    new_body, twin_body = None, None
    t = br.test
    if isinstance(t, ast.UnaryOp) and isinstance(t.op, ast.Not) and _is_np(t.operand, "any") and isinstance(t.operand.args[0], ast.Name):
        W = t.operand.args[0].id
        new_body, twin_body = br.body, br.orelse
    elif _is_np(t, "any") and isinstance(t.args[0], ast.Name):
        W = t.args[0].id
        new_body, twin_body = br.orelse, br.body
    else:
        raise Undecided(f"{INNER}: branch test `{u(t)}` not recognised (expected [not] np.any(<within_tol>))")
    roles[W] = "W"

    def store_map(body):
        out = {}
        for s in body:
            if isinstance(s, ast.Assign) and isinstance(s.targets[0], ast.Subscript):
                out.setdefault(canon(s.targets[0].value), []).append((canon(s.targets[0].slice), canon(s.value), s))
        return out
    # --- new representative --------------------------------------------------------------
    sm = store_map(new_body)
    want = {"UC": ((":, KEEP",), (COLFORM,)),
            "O2N": (("I - CS",), ("KEEP",)),
            "N2O": (("KEEP",), ("SIDX[I]",))}
    for arr, (idx_forms, val_forms) in want.items():
        got = sm.get(arr, [])
        ok = len(got) == 1 and got[0][0] in idx_forms and got[0][1] in val_forms
        ctx.check("R4", ok, mod, q, got[0][2] if got else br,
                  f"a new representative must be recorded as {arr}[{idx_forms[0]}] = {val_forms[0]}; found "
                  f"{[(g[0], g[1]) for g in got]}", construct=f"new representative: {arr}[{idx_forms[0]}]",
                  facts={"found": [(g[0], g[1]) for g in got]})
    kinc = [s for s in new_body if isinstance(s, ast.AugAssign) and u(s.target) == KEEP]
    st_pos = [new_body.index(g[2]) for arr in want for g in sm.get(arr, [])]
    ok_keep = len(kinc) == 1 and isinstance(kinc[0].op, ast.Add) and u(kinc[0].value) == "1" and \
        all(p < new_body.index(kinc[0]) for p in st_pos)
    ctx.check("R4", ok_keep, mod, q, kinc[0] if kinc else br,
              "the number of representatives is advanced by one after the three arrays were written at the old value",
              construct="keep += 1 after the stores")
    if WIN:
        resl = [s for s in new_body if isinstance(s, ast.Assign) and u(s.targets[0]) == WIN]
        ok_resl = len(resl) == 1 and canon(resl[0].value) in ("UC[:, :KEEP]",) and kinc and \
            new_body.index(resl[0]) > new_body.index(kinc[0])
        ctx.check("R4", bool(ok_resl), mod, q, resl[0] if resl else br,
                  "the comparison window must be re-sliced to [:, :keep] after keep was advanced (otherwise the new "
                  "representative is never compared against)", construct="window re-sliced after keep += 1")
    # --- twin ---------------------------------------------------------------------------------
    idx_assign = [s for s in twin_body if isinstance(s, ast.Assign) and isinstance(s.targets[0], ast.Name)]
    IDX = None
    for s in idx_assign:
        c = canon(s.value)
        if "W" in c:
            IDX = s.targets[0].id
            first_forms = ("np.argmax(W)", "W.argmax()", "np.where(W)[0][0]", "np.flatnonzero(W)[0]", "np.nonzero(W)[0][0]")
            known_other = ("np.argmin(W)", "W.argmin()", "np.where(W)[0][-1]", "np.flatnonzero(W)[-1]", "np.nonzero(W)[0][-1]")
            if c not in first_forms and c not in known_other:
                raise Undecided(f"{INNER}: twin index `{u(s.value)}` not recognised")
            ctx.check("R4", c in first_forms, mod, q, s,
                      f"the twin of a repeated point is the first representative within tol; `{u(s.value)}` selects another one",
                      construct=f"twin index {c}")
    if IDX is None:
        raise Undecided(f"{INNER}: twin index assignment not found")
    roles[IDX] = "IDX"
    smt = store_map([s for s in twin_body if not isinstance(s, ast.If)])
    got = smt.get("O2N", [])
    ctx.check("R4", len(got) == 1 and got[0][0] == "I - CS" and got[0][1] == "IDX", mod, q, got[0][2] if got else br,
              "a repeated point maps to its twin: O2N[i - cluster_start] = idx", construct="twin: O2N[I - CS] = IDX",
              facts={"found": [(g[0], g[1]) for g in got]})
    # replacement
    unguarded = [k for k in ("N2O", "UC") if smt.get(k)]
    rep_ifs = [s for s in twin_body if isinstance(s, ast.If)]
    if unguarded:
        ctx.check("R4", False, mod, q, smt[unguarded[0]][0][2],
                  "the representative is replaced unconditionally: the last occurrence wins instead of the first",
                  construct="replacement without index guard")
        return
    if len(rep_ifs) != 1:
        ctx.check("R4", False, mod, q, br,
                  "no replacement of the representative by an earlier original index: the representative is the first in "
                  "norm order, not the first occurrence", construct="replacement branch missing")
        return
    rif = rep_ifs[0]
    tt = rif.test
    ok_guard = None
    if isinstance(tt, ast.Compare) and len(tt.ops) == 1:
        l, r = canon(tt.left), canon(tt.comparators[0])
        op = tt.ops[0]
        if (l, r) == ("SIDX[I]", "N2O[IDX]"):
            ok_guard = isinstance(op, (ast.Lt, ast.LtE))
        elif (l, r) == ("N2O[IDX]", "SIDX[I]"):
            ok_guard = isinstance(op, (ast.Gt, ast.GtE))
    if ok_guard is None:
        raise Undecided(f"{INNER}: replacement guard `{u(tt)}` not recognised")
    ctx.check("R4", ok_guard, mod, q, rif,
              "the representative may be replaced only by a point with a SMALLER original index (first occurrence wins)",
              construct=f"replacement guard {canon(tt)}")
    smr = store_map(rif.body)
    a = smr.get("N2O", [])
    b = smr.get("UC", [])
    ctx.check("R4", len(a) == 1 and a[0][0] == "IDX" and a[0][1] == "SIDX[I]", mod, q, a[0][2] if a else rif,
              "replacement must record the original index of the earlier point: N2O[idx] = sorted_idx[i]",
              construct="replacement: N2O[IDX] = SIDX[I]", facts={"found": [(g[0], g[1]) for g in a]})
    ctx.check("R4", len(b) == 1 and b[0][0] == ":, IDX" and b[0][1] == COLFORM, mod, q,
              b[0][2] if b else rif,
              "replacement must also replace the coordinates (unique_pts[:, k] == points[:, new_2_old[k]]): "
              "UC[:, idx] = col - index and coordinates are parallel updates",
              construct="replacement: UC[:, IDX] = col", facts={"found": [(g[0], g[1]) for g in b]})
    # returned window
    ok_ret = (WIN is not None and any(canon(s.value) == "UC[:, :KEEP]" for s in wdefs)) or \
        (WIN is None and canon(r_pts) == "UC[:, :KEEP]")
    ctx.check("R4", ok_ret, mod, q, rets[0], "the returned representatives are the first `keep` columns",
              construct="return UC[:, :KEEP], N2O[:KEEP], O2N")


def _check_reorder(ctx: Ctx, mod, outer: ast.FunctionDef, loop2: ast.For, role_of_store: dict, NU: str) -> None:
    q = OUTER
    rets = [s for s in outer.body if isinstance(s, ast.Return)]
    if len(rets) != 1 or not isinstance(rets[0].value, ast.Tuple) or len(rets[0].value.elts) != 3 \
            or not all(isinstance(e, ast.Name) for e in rets[0].value.elts):
        raise AnchorError(f"{OUTER}: expected a final `return a, b, c` of three names")
    RU, RN, RO = [e.id for e in rets[0].value.elts]
    # the returned names must be the arrays filled in the second loop
    filled = {k: u(role_of_store[k].targets[0].value) for k in role_of_store}
    if (filled["pts"], filled["n2o"], filled["o2n"]) != (RU, RN, RO):
        ctx.check("R5", False, mod, q, rets[0],
                  f"returned names ({RU}, {RN}, {RO}) are not the arrays filled per cluster ({filled['pts']}, {filled['n2o']}, {filled['o2n']}) "
                  f"in the documented order (points, new_2_old, old_2_new)", construct="returned triple")
        return
    tail = [s for s in outer.body if s.lineno > loop2.end_lineno and not isinstance(s, ast.Return)]
    roles = {RU: "U", RN: "N", RO: "O", NU: "NU"}
    # ordering variable
    ORD = None
    for s in tail:
        if isinstance(s, ast.Assign) and isinstance(s.targets[0], ast.Name) and _is_np(s.value, "argsort") \
                and u(s.value.args[0]) == RN:
            ORD = s.targets[0].id
            ord_stmt = s
    if ORD is None:
        ctx.check("R5", False, mod, q, rets[0], "no ordering = argsort(new_2_old): the first-occurrence order of the output is lost",
                  construct="ordering = argsort(new_2_old)")
        return
    roles[ORD] = "ORD"

    def canon(e):
        return _rename(e, roles)
    # sequence of last definitions
    def defs_of(name):
        return [s for s in tail if isinstance(s, ast.Assign) and isinstance(s.targets[0], ast.Name) and s.targets[0].id == name]
    # slicing to num_unique must precede the argsort
    nsl = [s for s in defs_of(RN) if canon(s.value) == "N[:NU]"]
    usl = [s for s in defs_of(RU) if canon(s.value) in ("U[:, :NU]",)]
    ok = len(nsl) == 1 and nsl[0].lineno < ord_stmt.lineno and len(usl) == 1
    ctx.check("R5", ok, mod, q, ord_stmt,
              "unused space must be sliced away ([:num_unique]) from new_2_old before it is argsorted, and from unique_pts",
              construct="slice to num_unique before argsort", facts={"n": [u(s) for s in nsl], "u": [u(s) for s in usl]})
    # gathers
    ulast = defs_of(RU)[-1] if defs_of(RU) else None
    nlast = defs_of(RN)[-1] if defs_of(RN) else None
    ok_u = ulast is not None and canon(ulast.value) == "U[:, ORD]" and ulast.lineno > ord_stmt.lineno
    ok_n = nlast is not None and canon(nlast.value) == "N[ORD]" and nlast.lineno > ord_stmt.lineno
    ctx.check("R5", ok_u, mod, q, ulast or rets[0],
              "returned points must be re-ordered by the first-occurrence ordering: unique_pts[:, ordering]",
              construct="unique_pts gather by ordering", facts={"last_def": u(ulast) if ulast else None})
    ctx.check("R5", ok_n, mod, q, nlast or rets[0],
              "returned new_2_old must be re-ordered with the same ordering: new_2_old[ordering]",
              construct="new_2_old gather by ordering", facts={"last_def": u(nlast) if nlast else None})
    # old_2_new through the inverse permutation
    olast = defs_of(RO)[-1] if defs_of(RO) else None
    if olast is None or olast.lineno < ord_stmt.lineno:
        ctx.check("R5", False, mod, q, rets[0],
                  "old_2_new is not re-mapped after the re-ordering: its entries still number the representatives in "
                  "cluster order", construct="old_2_new re-map missing")
        return
    v = olast.value
    verdict = None
    if isinstance(v, ast.Subscript) and canon(v.slice) == "O":
        base = v.value
        if isinstance(base, ast.Name) and base.id == ORD:
            verdict = False  # the permutation itself, not its inverse
        elif _is_np(base, "argsort") and canon(base.args[0]) == "ORD":
            verdict = True
        elif isinstance(base, ast.Name):
            LK = base.id
            scat = [s for s in tail if isinstance(s, ast.Assign) and isinstance(s.targets[0], ast.Subscript)
                    and u(s.targets[0].value) == LK]
            init = defs_of(LK)
            if len(scat) == 1 and canon(scat[0].targets[0].slice) == "ORD":
                val = canon(scat[0].value)
                if val in ("np.arange(len(ORD))", "np.arange(ORD.size)", "np.arange(ORD.shape[0])", "np.arange(NU)"):
                    verdict = scat[0].lineno < olast.lineno
                else:
                    raise Undecided(f"{OUTER}: inverse-permutation scatter value `{u(scat[0].value)}` not recognised")
            elif len(init) == 1 and _is_np(init[0].value, "argsort") and canon(init[0].value.args[0]) == "ORD":
                verdict = True
            elif len(scat) == 1 and canon(scat[0].value) == "ORD":
                verdict = False  # lookup[arange] = ordering  is the permutation itself
    if verdict is None:
        raise Undecided(f"{OUTER}: re-map of old_2_new `{u(olast)}` not recognised")
    ctx.check("R5", verdict, mod, q, olast,
              "entries of old_2_new are OLD positions of representatives; they must be sent through the INVERSE of "
              "`ordering` (lookup[ordering] = arange), not through ordering itself (the two agree only for involutions, "
              "e.g. when at most two representatives are swapped)", construct="old_2_new through inverse ordering",
              facts={"remap": u(olast)})


def _m(name, old, new, rule, control=False, count=1):
    return dict(name=name, file=FILE, old=old, new=new, rule=rule, control=control, count=count)


MUTANTS = [
    # the D8 finding is present on today's tree (known); these are further breakages
    _m("reference-never-updated", "            cluster_idx += 1\n            cluster_norm = current_norm\n",
       "            cluster_idx += 1\n", "R1"),
    _m("signed-gap-wrong-direction", "if abs(cluster_norm - current_norm) > tol:", "if cluster_norm - current_norm > tol:", "R1"),
    _m("key-squared-norm", "point_norms = np.sqrt(np.sum(points**2, axis=0))", "point_norms = np.sum(points**2, axis=0)", "R2", control=True),
    _m("key-l1-norm", "point_norms = np.sqrt(np.sum(points**2, axis=0))", "point_norms = np.sum(np.abs(points), axis=0)", "R2"),
    _m("threshold-half-tol", "if abs(cluster_norm - current_norm) > tol:", "if abs(cluster_norm - current_norm) > 0.5 * tol:", "R2"),
    _m("threshold-tol-squared", "if abs(cluster_norm - current_norm) > tol:", "if abs(cluster_norm - current_norm) > tol**2:", "R2"),
    _m("inner-unsquared-tol", "axis=0) < tol**2", "axis=0) < tol", "R2"),
    _m("inner-larger-tol", "            cluster_size=cluster_size,\n            tol=tol,", "            cluster_size=cluster_size,\n            tol=2 * tol,", "R2"),
    _m("loop-over-unsorted-norms", "for current_norm in point_norms[sorted_idx]:", "for current_norm in point_norms:", "R2"),
    _m("count-before-gap-test", "        if abs(cluster_norm - current_norm) > tol:\n            # Norms are not close. Moving to the next cluster.\n"
       "            cluster_idx += 1\n            cluster_norm = current_norm\n\n        close_norms_count[cluster_idx] += 1\n",
       "        close_norms_count[cluster_idx] += 1\n        if abs(cluster_norm - current_norm) > tol:\n"
       "            cluster_idx += 1\n            cluster_norm = current_norm\n", "R3"),
    _m("last-cluster-dropped", "close_norms_count = close_norms_count[: cluster_idx + 1]", "close_norms_count = close_norms_count[:cluster_idx]", "R3"),
    _m("offset-not-added", "] = old_2_new_inner + num_unique", "] = old_2_new_inner", "R3"),
    _m("start-advanced-by-uniques", "        cluster_start += cluster_size", "        cluster_start += unique_size_inner", "R3"),
    _m("start-size-swapped", "            cluster_start=cluster_start,\n            cluster_size=cluster_size,",
       "            cluster_start=cluster_size,\n            cluster_size=cluster_start,", "R3"),
    _m("replace-by-larger-index", "if sorted_idx[i] < new_2_old[idx]:", "if sorted_idx[i] > new_2_old[idx]:", "R4"),
    _m("replace-index-only", "                new_2_old[idx] = sorted_idx[i]\n                unique_cols[:, idx] = col\n",
       "                new_2_old[idx] = sorted_idx[i]\n", "R4"),
    _m("replace-coords-only", "                new_2_old[idx] = sorted_idx[i]\n                unique_cols[:, idx] = col\n",
       "                unique_cols[:, idx] = col\n", "R4"),
    _m("window-resliced-before-increment", "            keep += 1\n            unique_cols_keep = unique_cols[:, :keep]\n",
       "            unique_cols_keep = unique_cols[:, :keep]\n            keep += 1\n", "R4"),
    _m("twin-is-last-hit", "idx = np.argmax(within_tol)", "idx = np.argmin(within_tol)", "R4"),
    _m("new-rep-wrong-index", "new_2_old[keep] = sorted_idx[i]", "new_2_old[keep] = i", "R4"),
    _m("remap-with-permutation-not-inverse", "old_2_new = lookup[old_2_new]", "old_2_new = ordering[old_2_new]", "R5", control=True),
    _m("new_2_old-not-reordered", "    new_2_old = new_2_old[ordering]\n", "", "R5"),
    _m("points-not-reordered", "    unique_pts = unique_pts[:, ordering]\n", "", "R5"),
    _m("old_2_new-not-remapped", "    old_2_new = lookup[old_2_new]\n", "", "R5"),
    _m("inverse-built-backwards", "lookup[ordering] = np.arange(len(ordering))", "lookup[np.arange(len(ordering))] = ordering", "R5"),
]
