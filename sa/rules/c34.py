"""C34 - uniquify_point_set: soundness of the norm-based pruning, cluster bookkeeping,
first-occurrence representatives, final re-ordering of all three outputs."""
from __future__ import annotations

import ast
import copy

from ..core.astutil import u, call_name, kwarg, walk_local, parent_map, names_in, inline_locals, stmts_local, dotted
from ..core.loader import AnchorError, Undecided
from ..core.report import Ctx
from ..core import cfg as cfgmod

FILE = "src/porepy/utils/array_operations.py"
OUTER = "uniquify_point_set"
INNER = "_unique_points_in_cluster"

META = {
    "explanation": (
        "uniquify_point_set sorts the points by norm, splits the sorted sequence into clusters and compares points "
        "only inside a cluster. That pruning is sound iff two points in different clusters are certainly farther "
        "apart than tol. R1 decides the clause that makes it so: the quantity compared with tol is the gap between "
        "CONSECUTIVE sorted norms (the reference norm is re-assigned on every iteration of the clustering loop, or the "
        "gaps are np.diff of the sorted norms); with a reference that is re-assigned only when a cluster starts, two "
        "points whose norms differ by far less than tol can land in different clusters (D8, known finding). "
        "R2: the sort key is 1-Lipschitz w.r.t. the Euclidean distance used in the inner comparison (reverse triangle "
        "inequality), the threshold is tol on both sides (|dnorm| > tol  vs  squared distance < tol**2), the same tol "
        "and the same argsort array reach the inner function. R3: every point is counted in exactly one cluster, after "
        "the cluster index was advanced; all clusters are kept; the running offsets are advanced after use and the "
        "three per-cluster results are written at those offsets. R4 (inner function): a representative is replaced "
        "only by a point with a smaller original index and then index and coordinates are replaced together; a new "
        "representative writes all three arrays at `keep` before keep is advanced and the comparison window re-sliced; "
        "the twin index is the first hit. R5: ordering = argsort(new_2_old) is applied as a gather to unique_pts and "
        "new_2_old and as the INVERSE permutation to the entries of old_2_new, and those re-mapped values are the ones "
        "returned. R6 (intersect_sets): one KD-tree ball query, Euclidean (default p), radius tol, from the first set against "
        "the second, both trees built from the transposed (column) inputs; ia = positions of non-empty hit lists, ib = their "
        "contents, the mask has one entry per column of a and is set at ia, the hit list itself is returned. R7 "
        "(ismember_columns): both sets prepared alike (sorted along axis 0 or raw), stacked [a | b] and the inverse map cut "
        "after a's column count, mask = isin(ids of a, ids of b), index output = argsort(ids of b)[searchsorted(sorted ids "
        "of b, ids of the member columns of a)]. Not decided: numerical behaviour of the tolerance comparisons."),
    "rule_text": "one obligation per clustering loop, per threshold/key/argument, per bookkeeping statement, per store, per output",
    "trusted_base": ["python ast", "sa.core (loader, astutil, cfg)", "reverse triangle inequality | ||x||-||y|| | <= ||x-y||"],
    "assumptions": ["the normaliser applied to a copy of each anchored function (guard-continue -> if/else, one level of same-module helper inlining incl. early returns, c34.normalise) preserves behaviour", "points are columns (axis 0 is the coordinate axis), as documented",
                    "accepted sound pruning forms are: chained gap in a loop; np.diff of the sorted norms. Another sound "
                    "design (e.g. re-scanning a tol window across cluster borders) would be reported as undecided/finding"],
    "technique": "dataflow + CFG post-dominance on the clustering loop, alpha-renamed template matching of index expressions",
}
MIN_INSTANCES = {"R1": 1, "R2": 6, "R3": 14, "R4": 12, "R5": 4, "R6": 9, "R7": 7}


# ------------------------------------------------------------------------------------
def _rename(e: ast.AST, roles: dict[str, str]) -> str:
    """unparse with local names replaced by role labels (alpha-renaming).  A bare slice
    expression (the .slice of a Subscript) is printed as it appears between the brackets."""
    e2 = copy.deepcopy(e)
    for n in ast.walk(e2):
        if isinstance(n, ast.Name) and n.id in roles:
            n.id = roles[n.id]
    if isinstance(e2, (ast.Slice, ast.Tuple)):
        return u(ast.Subscript(value=ast.Name(id="_", ctx=ast.Load()), slice=e2, ctx=ast.Load()))[2:-1]
    return u(e2)


def _is_np(call: ast.AST, name: str) -> bool:
    return isinstance(call, ast.Call) and call_name(call) == name


def _assigns(fn: ast.AST, name: str) -> list[ast.stmt]:
    out = []
    for s in stmts_local(fn):
        if isinstance(s, ast.Assign):
            for t in s.targets:
                if isinstance(t, ast.Name) and t.id == name:
                    out.append(s)
        elif isinstance(s, (ast.AugAssign, ast.AnnAssign)) and isinstance(s.target, ast.Name) and s.target.id == name:
            out.append(s)
    return out


def _norm_kind(e: ast.expr, pts: str) -> str:
    """Classify the sort key computed from the point array `pts` (columns are points)."""
    def axis0(c: ast.Call) -> bool:
        a = kwarg(c, "axis")
        if a is None and len(c.args) > 1:
            a = c.args[1]
        return isinstance(a, ast.Constant) and a.value == 0

    def is_sq(x) -> bool:
        return (isinstance(x, ast.BinOp) and isinstance(x.op, ast.Pow) and isinstance(x.right, ast.Constant)
                and x.right.value == 2 and u(x.left) == pts) or \
               (isinstance(x, ast.BinOp) and isinstance(x.op, ast.Mult) and u(x.left) == pts and u(x.right) == pts) or \
               (_is_np(x, "square") and u(x.args[0]) == pts)

    def is_abs(x) -> bool:
        return (_is_np(x, "abs") or _is_np(x, "absolute")) and x.args and u(x.args[0]) == pts

    def reduce_of(x, fname):
        """operand of np.<fname>(operand, axis=0) or of operand.<fname>(axis=0)"""
        if not _is_np(x, fname):
            return None
        f = x.func
        if isinstance(f, ast.Name) or (isinstance(f, ast.Attribute) and isinstance(f.value, ast.Name) and f.value.id in ("np", "numpy")):
            return x.args[0] if x.args and axis0(x) else None
        ax = kwarg(x, "axis") or (x.args[0] if x.args else None)
        return f.value if isinstance(ax, ast.Constant) and ax.value == 0 else None

    def sumsq(x) -> bool:
        o = reduce_of(x, "sum")
        return o is not None and is_sq(o)
    if _is_np(e, "sqrt") and e.args and sumsq(e.args[0]):
        return "l2"
    if isinstance(e, ast.BinOp) and isinstance(e.op, ast.Pow) and sumsq(e.left) and isinstance(e.right, ast.Constant) \
            and e.right.value == 0.5:
        return "l2"
    if _is_np(e, "norm") and e.args and u(e.args[0]) == pts and axis0(e):
        o = kwarg(e, "ord")
        if o is None or (isinstance(o, ast.Constant) and o.value in (None, 2)):
            return "l2"
        if isinstance(o, ast.Constant) and o.value == 1:
            return "l1"
        if u(o) in ("np.inf", "numpy.inf"):
            return "linf"
        return "unknown"
    if sumsq(e):
        return "l2-squared"
    o1, om = reduce_of(e, "sum"), reduce_of(e, "max")
    if o1 is not None and is_abs(o1):
        return "l1"
    if om is not None and is_abs(om):
        return "linf"
    return "unknown"


SOUND_KEYS = {"l2": "the Euclidean norm is 1-Lipschitz for the Euclidean distance (reverse triangle inequality)",
              "linf": "| |x|_inf - |y|_inf | <= |x-y|_inf <= |x-y|_2"}
UNSOUND_KEYS = {"l2-squared": "| |x|^2 - |y|^2 | = |x-y|(|x|+|y|) is not bounded by |x-y|",
                "l1": "| |x|_1 - |y|_1 | <= |x-y|_1 <= sqrt(d) |x-y|_2 only"}


def _threshold_kind(e: ast.expr, tol: str) -> str:
    """'tol' | 'geq' (certainly >= tol) | 'smaller' (can be < tol) | 'unknown'"""
    if isinstance(e, ast.Name) and e.id == tol:
        return "tol"
    if isinstance(e, ast.BinOp) and isinstance(e.op, ast.Mult):
        for a, b in ((e.left, e.right), (e.right, e.left)):
            if isinstance(a, ast.Constant) and isinstance(a.value, (int, float)) and isinstance(b, ast.Name) and b.id == tol:
                return "geq" if a.value >= 1 else "smaller"
    if isinstance(e, ast.BinOp) and isinstance(e.op, ast.Div) and isinstance(e.left, ast.Name) and e.left.id == tol \
            and isinstance(e.right, ast.Constant) and isinstance(e.right.value, (int, float)):
        return "geq" if 0 < e.right.value <= 1 else "smaller"
    if isinstance(e, ast.BinOp) and isinstance(e.op, ast.Pow) and isinstance(e.left, ast.Name) and e.left.id == tol \
            and isinstance(e.right, ast.Constant):
        return "smaller"  # tol**k < tol for tol < 1 (k > 1), > tol otherwise: not a bound
    return "unknown"


# ====================================================================================
#  normaliser: behaviour-preserving rewrites applied to a COPY of an anchored function before
#  the rules look at it (guard-continue -> if/else; one level of same-module helper inlining).
#  Exported: the other rule modules of this family import it.
# ====================================================================================

def _fold_list(stmts: list[ast.stmt], tail: bool) -> bool:
    """In a statement list in tail position of a loop body: `if c: A; continue` + REST  ->  `if c: A else: REST`."""
    changed = False
    i = 0
    while i < len(stmts):
        s = stmts[i]
        if isinstance(s, (ast.For, ast.While, ast.AsyncFor)):
            changed |= _fold_list(s.body, True)
        elif isinstance(s, ast.If) and tail:
            rest = stmts[i + 1:]
            b_cont = bool(s.body) and isinstance(s.body[-1], ast.Continue)
            o_cont = bool(s.orelse) and isinstance(s.orelse[-1], ast.Continue)
            if b_cont and not o_cont and not any(isinstance(n, (ast.Break,)) for n in ast.walk(s)):
                s.body = s.body[:-1] or [ast.copy_location(ast.Pass(), s)]
                s.orelse = list(s.orelse) + rest
                del stmts[i + 1:]
                changed = True
            elif o_cont and not b_cont:
                s.orelse = s.orelse[:-1]
                s.body = list(s.body) + rest
                del stmts[i + 1:]
                changed = True
            if i == len(stmts) - 1:
                changed |= _fold_list(s.body, True)
                changed |= _fold_list(s.orelse, True)
            else:
                changed |= _fold_list(s.body, False)
                changed |= _fold_list(s.orelse, False)
        elif isinstance(s, (ast.If, ast.With, ast.Try)):
            for blk in (getattr(s, "body", []), getattr(s, "orelse", []), getattr(s, "finalbody", [])):
                changed |= _fold_list(blk, False)
        i += 1
    if tail and stmts and isinstance(stmts[-1], ast.Continue) and len(stmts) > 1:
        stmts.pop()
        changed = True
    return changed


def fold_guard_continue(fn: ast.AST) -> bool:
    changed = False
    for n in ast.walk(fn):
        if isinstance(n, (ast.For, ast.While)) and not any(isinstance(x, ast.Break) for x in walk_local(n)):
            changed |= _fold_list(n.body, True)
    return changed


def _callee(mod, cls, call: ast.Call):
    f = call.func
    if isinstance(f, ast.Name):
        for st in mod.tree.body:
            if isinstance(st, ast.FunctionDef) and st.name == f.id:
                return st, False
    if isinstance(f, ast.Attribute) and isinstance(f.value, ast.Name) and f.value.id == "self" and cls is not None:
        for st in cls.body:
            if isinstance(st, ast.FunctionDef) and st.name == f.attr and not any(
                    u(d) in ("staticmethod", "classmethod", "property") for d in st.decorator_list):
                return st, True
    return None, False


_RET = "ret__"


def _terminates(stmts: list[ast.stmt]) -> bool:
    if not stmts:
        return False
    last = stmts[-1]
    if isinstance(last, ast.Return):
        return True
    if isinstance(last, ast.If):
        return _terminates(last.body) and _terminates(last.orelse)
    return False


def _linearise_returns(stmts: list[ast.stmt], name: str) -> list[ast.stmt] | None:
    """Rewrite a body with early returns (`if c: ...; return A` + rest) into nested if/else in which every
    `return E` has become `name = E`.  None if a return sits inside a loop / try / with."""
    out: list[ast.stmt] = []
    for i, s in enumerate(stmts):
        if isinstance(s, ast.Return):
            out.append(ast.copy_location(ast.Assign(targets=[ast.Name(id=name, ctx=ast.Store())],
                                                    value=s.value or ast.Constant(value=None)), s))
            return out
        if isinstance(s, ast.If) and any(isinstance(n, ast.Return) for n in ast.walk(s)):
            rest = stmts[i + 1:]
            body = _linearise_returns(s.body, name)
            if body is None:
                return None
            if _terminates(s.body):
                orelse = _linearise_returns(list(s.orelse) + rest, name)
                if orelse is None:
                    return None
                out.append(ast.copy_location(ast.If(test=s.test, body=body, orelse=orelse), s))
                return out
            if _terminates(s.orelse):
                orelse = _linearise_returns(s.orelse, name)
                body2 = _linearise_returns(list(s.body) + rest, name)
                if orelse is None or body2 is None:
                    return None
                out.append(ast.copy_location(ast.If(test=s.test, body=body2, orelse=orelse), s))
                return out
            return None  # a return on some but not all paths of a branch that also falls through: not handled
        if any(isinstance(n, ast.Return) for n in ast.walk(s)):
            return None
        out.append(s)
    return out


def _inlinable_body(callee: ast.FunctionDef):
    body = list(callee.body)
    if body and isinstance(body[0], ast.Expr) and isinstance(body[0].value, ast.Constant) and isinstance(body[0].value.value, str):
        body = body[1:]
    if not body:
        return None
    a = callee.args
    if a.vararg or a.kwarg or a.posonlyargs:
        return None
    rets = [n for n in walk_local(callee) if isinstance(n, ast.Return)]
    if any(isinstance(n, (ast.Yield, ast.YieldFrom, ast.FunctionDef, ast.ClassDef, ast.Global, ast.Nonlocal)) for n in ast.walk(callee)
           if n is not callee):
        return None
    if len(rets) > 1 or (len(rets) == 1 and rets[0] is not body[-1]):
        if not _terminates(body):
            return None
        lin = _linearise_returns(copy.deepcopy(body), _RET)
        if lin is None:
            return None
        return lin + [ast.Return(value=ast.Name(id=_RET, ctx=ast.Load()), lineno=body[-1].lineno, col_offset=0)]
    return body


def _assigned_names(node: ast.AST) -> set[str]:
    out = set()
    for n in ast.walk(node):
        if isinstance(n, ast.Name) and isinstance(n.ctx, (ast.Store, ast.Del)):
            out.add(n.id)
    return out


def inline_helpers(mod, fn: ast.FunctionDef, cls=None, exclude=frozenset()) -> bool:
    """Replace `x = helper(args)` / `helper(args)` / `return helper(args)` by the helper's body (one level)."""
    changed = False
    caller_names = {n.id for n in ast.walk(fn) if isinstance(n, ast.Name)} | {a.arg for a in fn.args.args}

    def expand(stmt: ast.stmt):
        nonlocal changed
        call = None
        if isinstance(stmt, ast.Assign) and isinstance(stmt.value, ast.Call):
            call = stmt.value
        elif isinstance(stmt, (ast.Expr, ast.Return)) and isinstance(stmt.value, ast.Call):
            call = stmt.value
        if call is None:
            return None
        callee, is_method = _callee(mod, cls, call)
        if callee is None or callee.name in exclude or callee.name == fn.name:
            return None
        body = _inlinable_body(callee)
        if body is None or any(isinstance(x, ast.Starred) for x in call.args) or any(k.arg is None for k in call.keywords):
            return None
        params = [a.arg for a in callee.args.args] + [a.arg for a in callee.args.kwonlyargs]
        bind: dict[str, ast.expr] = {}
        pos = list(callee.args.args)
        if is_method:
            bind[pos[0].arg] = ast.Name(id="self", ctx=ast.Load())
            pos = pos[1:]
        if len(call.args) > len(pos):
            return None
        for prm, a in zip(pos, call.args):
            bind[prm.arg] = a
        for k in call.keywords:
            if k.arg not in params or k.arg in bind:
                return None
            bind[k.arg] = k.value
        defaults = dict(zip([a.arg for a in callee.args.args][len(callee.args.args) - len(callee.args.defaults):], callee.args.defaults))
        for ka, kd in zip(callee.args.kwonlyargs, callee.args.kw_defaults):
            if kd is not None:
                defaults[ka.arg] = kd
        for prm in params:
            if prm not in bind:
                if prm not in defaults:
                    return None
                bind[prm] = defaults[prm]
        body = copy.deepcopy(body)
        holder = ast.Module(body=body, type_ignores=[])
        assigned = _assigned_names(holder)
        prelude = []
        rename: dict[str, str] = {}
        direct: dict[str, ast.expr] = {}
        for prm, a in bind.items():
            simple = isinstance(a, (ast.Name, ast.Constant)) or (isinstance(a, ast.Attribute) and dotted(a) is not None)
            if simple and prm not in assigned:
                direct[prm] = a
            else:
                new = prm if prm not in caller_names else f"{prm}__{callee.name}"
                rename[prm] = new
                prelude.append(ast.Assign(targets=[ast.Name(id=new, ctx=ast.Store())], value=copy.deepcopy(a), lineno=stmt.lineno, col_offset=0))
        for nm in assigned - set(bind):
            if nm in caller_names:
                rename[nm] = f"{nm}__{callee.name}"

        class T(ast.NodeTransformer):
            def visit_Name(self, n):
                if n.id in direct and isinstance(n.ctx, ast.Load):
                    return copy.deepcopy(direct[n.id])
                if n.id in rename:
                    n.id = rename[n.id]
                return n
        holder = T().visit(holder)
        body = holder.body
        ret = body[-1] if isinstance(body[-1], ast.Return) else None
        if ret is not None:
            body = body[:-1]
            rv = ret.value if ret.value is not None else ast.Constant(value=None)
            if isinstance(stmt, ast.Assign):
                body.append(ast.Assign(targets=stmt.targets, value=rv, lineno=stmt.lineno, col_offset=0))
            elif isinstance(stmt, ast.Return):
                body.append(ast.Return(value=rv, lineno=stmt.lineno, col_offset=0))
        elif isinstance(stmt, ast.Assign):
            return None
        changed = True
        return prelude + body

    def visit_block(stmts: list[ast.stmt]):
        i = 0
        while i < len(stmts):
            s = stmts[i]
            rep = expand(s)
            if rep is not None:
                stmts[i:i + 1] = rep
                i += len(rep)
                continue
            for blk_name in ("body", "orelse", "finalbody"):
                blk = getattr(s, blk_name, None)
                if isinstance(blk, list) and not isinstance(s, (ast.FunctionDef, ast.ClassDef)):
                    visit_block(blk)
            for h in getattr(s, "handlers", []) or []:
                visit_block(h.body)
            i += 1
    visit_block(fn.body)

    # expression-level: calls of helpers whose whole body is `return <expr>` are replaced by that expression
    class E(ast.NodeTransformer):
        def visit_Call(self, call):
            nonlocal changed
            self.generic_visit(call)
            callee, is_method = _callee(mod, cls, call)
            if callee is None or callee.name in exclude or callee.name == fn.name:
                return call
            body = _inlinable_body(callee)
            if body is None or len(body) != 1 or not isinstance(body[0], ast.Return) or body[0].value is None:
                return call
            if any(isinstance(x, ast.Starred) for x in call.args) or any(k.arg is None for k in call.keywords):
                return call
            pos = list(callee.args.args)
            bind = {}
            if is_method:
                bind[pos[0].arg] = ast.Name(id="self", ctx=ast.Load())
                pos = pos[1:]
            if len(call.args) > len(pos):
                return call
            for prm, a in zip(pos, call.args):
                bind[prm.arg] = a
            names = [a.arg for a in callee.args.args] + [a.arg for a in callee.args.kwonlyargs]
            for k in call.keywords:
                if k.arg not in names or k.arg in bind:
                    return call
                bind[k.arg] = k.value
            defaults = dict(zip([a.arg for a in callee.args.args][len(callee.args.args) - len(callee.args.defaults):], callee.args.defaults))
            for prm in names:
                if prm not in bind:
                    if prm not in defaults:
                        return call
                    bind[prm] = defaults[prm]
            # comprehension variables of the helper expression must not capture caller names
            expr = copy.deepcopy(body[0].value)

            class S(ast.NodeTransformer):
                def visit_Name(self, n):
                    if n.id in bind and isinstance(n.ctx, ast.Load):
                        return copy.deepcopy(bind[n.id])
                    return n
            changed = True
            return ast.copy_location(S().visit(expr), call)
    E().visit(fn)
    if changed:
        ast.fix_missing_locations(fn)
    return changed


def _renumber(fn: ast.FunctionDef) -> None:
    """Give statements consecutive line numbers in execution-text order (only after inlining)."""
    counter = [fn.lineno + 1]

    def block(stmts):
        for s in stmts:
            ln = counter[0]
            counter[0] += 1
            for n in ast.walk(s):
                if hasattr(n, "lineno"):
                    n.lineno = ln
                    n.end_lineno = ln
            for blk_name in ("body", "orelse", "finalbody"):
                blk = getattr(s, blk_name, None)
                if isinstance(blk, list) and blk and isinstance(blk[0], ast.stmt):
                    block(blk)
            for h in getattr(s, "handlers", []) or []:
                h.lineno = counter[0]
                block(h.body)
            s.lineno = ln
            s.end_lineno = counter[0] - 1
    block(fn.body)
    fn.end_lineno = counter[0]


def normalise(mod, fn: ast.FunctionDef, cls=None, exclude=frozenset()) -> ast.FunctionDef:
    """Copy of fn after the behaviour-preserving rewrites.  The original tree is never touched."""
    fn2 = copy.deepcopy(fn)
    inl = inline_helpers(mod, fn2, cls, frozenset(exclude))
    fold_guard_continue(fn2)
    if inl:
        _renumber(fn2)
    return fn2


def _parse_frag(text: str):
    try:
        return ast.parse(f"_[{text}]" if (":" in text or text.startswith(",")) else text, mode="eval")
    except SyntaxError:
        return None


def _verdict(text: str, accepted, vocab) -> bool | None:
    """True: an accepted form.  False: a different expression built from the KNOWN role names with only the operations
    that occur in the accepted forms (a genuinely different value).  None: anything else (unknown idiom -> undecided,
    never a finding)."""
    if text in accepted:
        return True
    tree = _parse_frag(text)
    if tree is None:
        return None
    ok_attrs: set[str] = {"shape", "size"}
    for a in accepted:
        ta = _parse_frag(a)
        if ta is not None:
            ok_attrs |= {n.attr for n in ast.walk(ta) if isinstance(n, ast.Attribute)}
    attrs = {n.attr for n in ast.walk(tree) if isinstance(n, ast.Attribute)}
    names = {n.id for n in ast.walk(tree) if isinstance(n, ast.Name)} - {"_", "np", "len", "range", "int"}
    if names <= set(vocab) and attrs <= ok_attrs:
        return False
    return None


def _decide(ctx: Ctx, rule: str, text: str, accepted, vocab, mod, q, node, msg, construct, facts=None) -> bool:
    v = _verdict(text, accepted, vocab)
    if v is None:
        raise Undecided(f"{q}: `{text}` is not one of the recognised forms {sorted(accepted)[:4]} and uses names outside the "
                        f"rule's vocabulary")
    return ctx.check(rule, v, mod, q, node, msg, construct=construct, facts=facts)


def _loop_elem(loop: ast.For):
    """(sequence expression | None, element texts, index name | None) of a for loop in one of the forms
    `for x in SEQ`, `for i, x in enumerate(SEQ)`, `for i in range(<n>)` + `x = SEQ[i]` in the body."""
    t, it = loop.target, loop.iter
    if isinstance(t, ast.Tuple) and len(t.elts) == 2 and all(isinstance(e, ast.Name) for e in t.elts) \
            and _is_np(it, "enumerate") and len(it.args) == 1:
        return it.args[0], {t.elts[1].id, f"{u(it.args[0])}[{t.elts[0].id}]"}, t.elts[0].id
    if isinstance(t, ast.Name) and _is_np(it, "range"):
        idx = t.id
        elems, seq = set(), None
        for s in loop.body:
            if isinstance(s, ast.Assign) and len(s.targets) == 1 and isinstance(s.targets[0], ast.Name) \
                    and isinstance(s.value, ast.Subscript) and idx in names_in(s.value.slice):
                elems.add(s.targets[0].id)
                elems.add(u(s.value))
                seq = s.value
        return seq, elems, idx
    if isinstance(t, ast.Name):
        return it, {t.id}, None
    return None, set(), None


def _gap_compare(test: ast.expr, cur_texts: set[str], tol: str):
    """Recognise the cluster-border test.  Returns dict(ref, fired, thr, signed_wrong) or None.
    `fired` is the truth value of the test for which a NEW cluster starts."""
    neg = False
    while isinstance(test, ast.UnaryOp) and isinstance(test.op, ast.Not):
        test, neg = test.operand, not neg
    if not (isinstance(test, ast.Compare) and len(test.ops) == 1):
        return None
    l, op, r = test.left, test.ops[0], test.comparators[0]

    def diff_of(e):
        is_abs = False
        if isinstance(e, ast.Call) and call_name(e) in ("abs", "absolute", "fabs") and len(e.args) == 1:
            e, is_abs = e.args[0], True
        if isinstance(e, ast.BinOp) and isinstance(e.op, ast.Sub):
            return e, is_abs
        return None, False
    dl, al = diff_of(l)
    dr, ar = diff_of(r)
    if dl is not None and tol in names_in(r):
        d, is_abs, thr, opn = dl, al, r, type(op)
    elif dr is not None and tol in names_in(l):
        d, is_abs, thr = dr, ar, l
        opn = {ast.Lt: ast.Gt, ast.LtE: ast.GtE, ast.Gt: ast.Lt, ast.GtE: ast.LtE}.get(type(op))
    else:
        return None
    if opn in (ast.Gt, ast.GtE):
        fired = True
    elif opn in (ast.Lt, ast.LtE):
        fired = False
    else:
        return None
    if neg:
        fired = not fired
    a, b = u(d.left), u(d.right)
    if a in cur_texts and b not in cur_texts and isinstance(d.right, ast.Name):
        ref, order = b, "cur-ref"
    elif b in cur_texts and a not in cur_texts and isinstance(d.left, ast.Name):
        ref, order = a, "ref-cur"
    else:
        return None
    return dict(ref=ref, fired=fired, thr=thr, signed_wrong=(not is_abs and order == "ref-cur"))


def _array_aliases(fn: ast.AST, name: str) -> set[str]:
    """names connected to `name` by `x = y`, `x = y[<slice>]` (the same running array under several names)."""
    names = {name}
    changed = True
    while changed:
        changed = False
        for s in stmts_local(fn):
            if isinstance(s, ast.Assign) and len(s.targets) == 1 and isinstance(s.targets[0], ast.Name):
                v = s.value
                base = v.value if isinstance(v, ast.Subscript) and isinstance(v.slice, ast.Slice) else v
                if isinstance(base, ast.Name):
                    pair = {s.targets[0].id, base.id}
                    if pair & names and not pair <= names:
                        names |= pair
                        changed = True
    return names


# ====================================================================================
def run(ctx: Ctx) -> None:
    mod = ctx.repo.module(FILE)
    _check_intersect(ctx, mod)
    _check_ismember(ctx, mod)
    outer = normalise(mod, mod.func(OUTER), exclude={INNER})
    inner = normalise(mod, mod.func(INNER))
    oparams = [a.arg for a in outer.args.args]
    if len(oparams) < 2:
        raise AnchorError(f"{OUTER}: expected parameters (points, tol)")
    P, T = oparams[0], oparams[1]
    iparams = [a.arg for a in inner.args.args]
    if len(iparams) != 5:
        raise AnchorError(f"{INNER}: expected 5 parameters, found {iparams}")

    # ---- anchors of the outer function ---------------------------------------------------
    calls = [s for s in stmts_local(outer) if isinstance(s, ast.Assign) and isinstance(s.value, ast.Call)
             and call_name(s.value) == INNER]
    if len(calls) != 1 or not isinstance(calls[0].targets[0], ast.Tuple) or len(calls[0].targets[0].elts) != 3:
        raise AnchorError(f"{OUTER}: expected one `a, b, c = {INNER}(...)`")
    call_stmt = calls[0]
    call = call_stmt.value
    UPI, N2OI, O2NI = [e.id for e in call_stmt.targets[0].elts]
    actual: dict[str, ast.expr] = {}
    for k, a in enumerate(call.args):
        actual[iparams[k]] = a
    for kw in call.keywords:
        if kw.arg not in iparams:
            raise AnchorError(f"{OUTER}: unknown keyword {kw.arg} in the call of {INNER}")
        actual[kw.arg] = kw.value
    if set(actual) != set(iparams):
        raise AnchorError(f"{OUTER}: call of {INNER} does not bind all parameters")
    ip_points, ip_sidx, ip_start, ip_size, ip_tol = iparams

    pm = parent_map(outer)
    loop2 = pm.get(call_stmt)
    if not isinstance(loop2, ast.For):
        raise AnchorError(f"{OUTER}: the call of {INNER} is not directly inside the loop over the clusters")
    seq2, elems2, idx2 = _loop_elem(loop2)
    if isinstance(seq2, ast.Subscript) and _is_np(loop2.iter, "range"):
        seq2 = seq2.value
    if not isinstance(seq2, ast.Name) or not elems2:
        raise Undecided(f"{OUTER}: the loop around {INNER} is not a recognised traversal of the cluster sizes")
    CNT = seq2.id
    size_names = {e for e in elems2 if e.isidentifier()}
    SIZE = actual[ip_size].id if isinstance(actual[ip_size], ast.Name) else None

    # argsort of the norms
    S = actual[ip_sidx].id if isinstance(actual[ip_sidx], ast.Name) else None
    sdef = _assigns(outer, S) if S else []
    if len(sdef) != 1 or not _is_np(sdef[0].value, "argsort") or not isinstance(sdef[0].value.args[0], ast.Name):
        raise AnchorError(f"{OUTER}: `{ip_sidx}=` argument is not a local defined once as np.argsort(<norms>)")
    N = sdef[0].value.args[0].id
    ndef = _assigns(outer, N)
    if len(ndef) != 1:
        raise AnchorError(f"{OUTER}: norms `{N}` not defined exactly once")

    # clustering loop: the loop that increments the counts
    cnt_names = _array_aliases(outer, CNT)
    incs = [s for s in stmts_local(outer) if isinstance(s, ast.AugAssign) and isinstance(s.target, ast.Subscript)
            and u(s.target.value) in cnt_names]
    loop1 = None
    for s in incs:
        p = s
        while p in pm and not isinstance(p, ast.For):
            p = pm[p]
        if isinstance(p, ast.For) and p is not loop2:
            loop1 = p
    vectorised = None
    if loop1 is None:
        # accepted vectorised form: gaps = np.diff(sorted norms) compared with tol
        for c in [c for c in walk_local(outer) if _is_np(c, "diff")]:
            par = pm.get(c)
            if isinstance(par, ast.Compare):
                vectorised = par
        if vectorised is None:
            raise AnchorError(f"{OUTER}: clustering loop (increments of `{CNT}`) not found")

    q = OUTER
    sorted_forms = (f"{N}[{S}]", f"np.sort({N})")
    # =========================== R1 pruning soundness =======================================
    if vectorised is not None:
        arg = vectorised.left.args[0] if isinstance(vectorised.left, ast.Call) else None
        arg_i = inline_locals(outer, arg, stop=[N, S]) if arg is not None else None
        ok_sorted = arg_i is not None and u(arg_i) in sorted_forms
        thr = _threshold_kind(vectorised.comparators[0], T)
        if not ok_sorted or thr == "unknown" or not isinstance(vectorised.ops[0], (ast.Gt, ast.GtE)):
            raise Undecided(f"{OUTER}: vectorised clustering `{u(vectorised)}` not recognised")
        ctx.check("R1", True, mod, q, vectorised, "cluster borders are gaps between consecutive sorted norms (np.diff)",
                  construct="norm-clustering: np.diff of sorted norms")
        ctx.check("R2", thr in ("tol", "geq"), mod, q, vectorised,
                  f"gap threshold `{u(vectorised.comparators[0])}` can be smaller than tol", construct="pruning threshold")
        raise Undecided(f"{OUTER}: vectorised clustering recognised, but the bookkeeping rules (R3) know only the loop form")

    seq1, cur_texts, idx1 = _loop_elem(loop1)
    if seq1 is None or not cur_texts:
        raise Undecided(f"{OUTER}: the clustering loop header `for {u(loop1.target)} in {u(loop1.iter)}` is not a recognised traversal")
    # which sequence is traversed: N[S] / np.sort(N) (possibly via a temporary), or N[S[i]] element-wise
    if isinstance(seq1, ast.Subscript) and idx1 is not None and not _is_np(loop1.iter, "enumerate"):
        el = inline_locals(outer, seq1, stop=[N, S, idx1])
        base_txt = u(el)
        if base_txt == f"{N}[{S}[{idx1}]]":
            it_txt = f"{N}[{S}]"
        elif isinstance(el, ast.Subscript) and u(el.slice) == idx1:
            it_txt = u(inline_locals(outer, el.value, stop=[N, S]))
        else:
            it_txt = base_txt
        rng = loop1.iter.args[-1] if len(loop1.iter.args) <= 2 else None
        full = rng is not None and len(loop1.iter.args) == 1 and u(inline_locals(outer, rng, stop=[N, S, P])) in (
            f"len({N})", f"{N}.size", f"{N}.shape[0]", f"{P}.shape[1]", f"len({S})", f"{S}.size", f"{S}.shape[0]",
            f"len({N}[{S}])", f"{N}[{S}].size")
        if not full:
            raise Undecided(f"{OUTER}: index range `{u(loop1.iter)}` of the clustering loop not recognised as 'all points'")
    else:
        it_txt = u(inline_locals(outer, seq1, stop=[N, S]))
    sorted_iter = it_txt in sorted_forms
    if not sorted_iter and not (set(names_in(ast.parse(it_txt, mode="eval"))) <= {N, S, "np"}):
        raise Undecided(f"{OUTER}: clustering loop iterates `{it_txt}`: not recognised")
    ctx.check("R2", sorted_iter, mod, q, loop1,
              f"the clustering loop must traverse the norms in ascending order through the same argsort array that "
              f"is handed to {INNER} (`{N}[{S}]`); it iterates `{it_txt}`",
              construct=f"clustering loop iterates {it_txt.replace(N, 'NORMS').replace(S, 'SIDX')}", facts={"iter": it_txt})
    if any(isinstance(n, (ast.Break, ast.Continue)) for n in walk_local(loop1)):
        raise Undecided(f"{OUTER}: break/continue in the clustering loop (not of the guard-continue form)")
    gaps = []
    for iff in [n for n in walk_local(loop1) if isinstance(n, ast.If)]:
        g = _gap_compare(inline_locals(loop1, iff.test, stop=list(cur_texts) + [T], depth=1)
                         if not isinstance(iff.test, ast.Compare) else iff.test, cur_texts, T)
        if g is not None:
            gaps.append((iff, g))
    if len(gaps) != 1:
        raise Undecided(f"{OUTER}: expected one `|ref - current| > tol` test in the clustering loop, found {len(gaps)}")
    gap_if, gp = gaps[0]
    REF, fired, gthr = gp["ref"], gp["fired"], gp["thr"]
    if gp["signed_wrong"]:
        ctx.check("R1", False, mod, q, gap_if.test,
                  "the compared difference is reference - current, which is never positive for ascending norms: no "
                  "cluster border is ever detected... (signed difference in the wrong direction)",
                  construct="norm-clustering: signed gap with wrong orientation")
        return
    CUR = sorted(t for t in cur_texts if t.isidentifier())[0] if any(t.isidentifier() for t in cur_texts) else sorted(cur_texts)[0]
    loop_cfg = cfgmod.build(loop1)  # CFG of one iteration of the body
    n_if = loop_cfg.node_for(gap_if)
    import networkx as nx
    g_nofire = loop_cfg.g.copy()
    fired_targets = []
    for succ in list(g_nofire.successors(n_if)):
        if g_nofire.edges[n_if, succ].get("cond") == fired:
            fired_targets.append(succ)
            g_nofire.remove_edge(n_if, succ)
    if len(fired_targets) != 1:
        raise Undecided(f"{OUTER}: both outcomes of the gap test lead to the same statement")
    f_node = fired_targets[0]

    def only_when_fired(node) -> bool:
        return not nx.has_path(g_nofire, cfgmod.ENTRY, node)
    ref_assigns = [s for s in walk_local(loop1) if isinstance(s, ast.Assign) and any(
        isinstance(t, ast.Name) and t.id == REF for t in s.targets)]
    other_writes = [s for s in walk_local(loop1) if isinstance(s, (ast.AugAssign, ast.AnnAssign))
                    and isinstance(s.target, ast.Name) and s.target.id == REF]
    if other_writes or any(u(s.value) not in cur_texts for s in ref_assigns):
        raise Undecided(f"{OUTER}: reference `{REF}` is written by something else than `{REF} = <current norm>`")
    nodes = {loop_cfg.node_for(s) for s in ref_assigns}
    chained = bool(nodes) and loop_cfg.every_path_passes(cfgmod.ENTRY, cfgmod.EXIT, nodes)
    only_at_start = bool(ref_assigns) and all(only_when_fired(n) for n in nodes)
    facts = {"reference": REF, "current": CUR, "test": u(gap_if.test),
             "reference_assignments": len(ref_assigns),
             "failing_input": "tol=1e-3, points (1-0.9999*tol, 0), (0, 1), (0, 1+0.001*tol) -> 3 unique points, two of them 1e-6 apart"}
    if chained:
        ctx.check("R1", True, mod, q, gap_if.test,
                  "the reference norm is re-assigned on every iteration: cluster borders are gaps between consecutive "
                  "sorted norms", construct="norm-clustering: chained gap", facts=facts)
    elif only_at_start:
        ctx.check("R1", False, mod, q, gap_if.test,
                  "pruning is unsound: each sorted norm is compared with the FIRST norm of the current cluster (the "
                  "reference is re-assigned only when a cluster starts), so two points whose norms differ by much less "
                  "than tol are split into different clusters whenever the border falls between them and are never "
                  "compared", construct="norm-clustering: reference norm reassigned only at cluster start",
                  facts=facts)
    elif not ref_assigns:
        ctx.check("R1", False, mod, q, gap_if.test,
                  "the reference norm is never re-assigned in the loop: every norm is compared with the first one",
                  construct="norm-clustering: reference norm never reassigned", facts=facts)
    else:
        raise Undecided(f"{OUTER}: reference `{REF}` is re-assigned on some but not all paths, in an unknown pattern")

    # =========================== R2 key / threshold / arguments ===========================
    nk = _norm_kind(ndef[0].value, P)
    if nk == "unknown":
        raise Undecided(f"{OUTER}: sort key `{u(ndef[0].value)}` is not a recognised norm of `{P}`")
    ctx.check("R2", nk in SOUND_KEYS, mod, q, ndef[0],
              f"sort key is {nk}: " + (SOUND_KEYS.get(nk) or UNSOUND_KEYS.get(nk, "")) +
              ("" if nk in SOUND_KEYS else " - a key gap > tol does not imply Euclidean distance > tol"),
              construct=f"sort key: {nk}", facts={"expr": u(ndef[0].value)})
    thr = _threshold_kind(gthr, T)
    if thr == "unknown":
        raise Undecided(f"{OUTER}: pruning threshold `{u(gthr)}` not recognised")
    ctx.check("R2", thr in ("tol", "geq"), mod, q, gap_if.test,
              f"pruning threshold `{u(gthr)}` can be smaller than the tolerance `{T}` used by the inner comparison: points "
              f"closer than tol would be separated", construct=f"pruning threshold: {_rename(gthr, {T: 'TOL'})}",
              facts={"threshold": u(gthr)})
    # inner comparison: squared Euclidean distance < tol**2
    _check_inner_distance(ctx, mod, inner, iparams)
    # arguments of the inner call
    ctx.check("R2", isinstance(actual[ip_tol], ast.Name) and actual[ip_tol].id == T, mod, q, call,
              f"{INNER} must receive the same tolerance that bounds the pruning (`{T}`); it receives `{u(actual[ip_tol])}`",
              construct=f"inner tol = {_rename(actual[ip_tol], {T: 'TOL'})}")
    ctx.check("R2", isinstance(actual[ip_points], ast.Name) and actual[ip_points].id == P, mod, q, call,
              f"{INNER} must receive the point array the norms were computed from", construct="inner points argument")
    # (sorted_idx: S is by construction the argument; its use in the loop is checked above)

    # =========================== R3 cluster bookkeeping ======================================
    cincs = [s for s in incs if _inside(pm, s, loop1.body, loop1)]
    if not cincs or any(not isinstance(c.op, ast.Add) or not (isinstance(c.value, ast.Constant) and c.value.value == 1)
                        or not isinstance(c.target.slice, ast.Name) for c in cincs) or len({c.target.slice.id for c in cincs}) != 1:
        raise Undecided(f"{OUTER}: count increments in the clustering loop are not of the form `{CNT}[k] += 1` with one index k")
    CI = cincs[0].target.slice.id
    inc_nodes = [loop_cfg.node_for(c) for c in cincs]
    every = loop_cfg.every_path_passes(cfgmod.ENTRY, cfgmod.EXIT, set(inc_nodes))
    twice = any(a != b and loop_cfg.reachable(a, b) for a in inc_nodes for b in inc_nodes)
    ctx.check("R3", every and not twice, mod, q, cincs[0], "every point must be counted in exactly one cluster: exactly one count "
              "increment runs on every path through the loop body", construct="count increment once per point")
    ci_writes = [s for s in walk_local(loop1) if isinstance(s, (ast.AugAssign, ast.Assign)) and any(
        isinstance(t, ast.Name) and t.id == CI for t in ([s.target] if isinstance(s, ast.AugAssign) else s.targets))]
    ok_ci = len(ci_writes) == 1 and isinstance(ci_writes[0], ast.AugAssign) and isinstance(ci_writes[0].op, ast.Add) \
        and isinstance(ci_writes[0].value, ast.Constant) and ci_writes[0].value.value == 1 \
        and only_when_fired(loop_cfg.node_for(ci_writes[0])) \
        and loop_cfg.every_path_passes(f_node, cfgmod.EXIT, {loop_cfg.node_for(ci_writes[0])}) | (f_node == loop_cfg.node_for(ci_writes[0]))
    ctx.check("R3", ok_ci, mod, q, ci_writes[0] if ci_writes else loop1,
              "the cluster index advances by one exactly when the gap test fires", construct="cluster index update")
    after_test = all(loop_cfg.dominates(n_if, c) for c in inc_nodes)
    if ok_ci:
        n_ci = loop_cfg.node_for(ci_writes[0])
        for c in inc_nodes:
            if c == f_node and c != n_ci:
                after_test = False
            elif loop_cfg.reachable(f_node, c, avoiding=frozenset({n_ci})):
                after_test = False
    ctx.check("R3", after_test, mod, q, cincs[0],
              "the point that opens a new cluster must be counted in the NEW cluster: the count increment must come after "
              "the gap test / cluster index update", construct="count increment after gap test")
    # slicing of the counts between the loops
    slices = [s for s in stmts_local(outer) if isinstance(s, ast.Assign) and len(s.targets) == 1 and u(s.targets[0]) in cnt_names
              and isinstance(s.value, ast.Subscript) and u(s.value.value) in cnt_names and isinstance(s.value.slice, ast.Slice)]
    if len(slices) == 1 and slices[0].value.slice.lower is None and slices[0].value.slice.upper is not None \
            and loop1.end_lineno < slices[0].lineno < loop2.lineno:
        up = _rename(inline_locals(outer, slices[0].value.slice.upper, stop=[CI]), {CI: "CI"})
        _decide(ctx, "R3", up, {"CI + 1", "1 + CI"}, {"CI"}, mod, q, slices[0],
                f"all clusters 0..cluster index must be kept (`{CNT}[: {CI} + 1]`) between the two loops; kept `[:{up}]`",
                construct=f"keep clusters [: {up}]", facts={"slice": u(slices[0])})
    elif not slices:
        raise Undecided(f"{OUTER}: no `{CNT} = {CNT}[: {CI} + 1]` between the loops: unknown way of bounding the clusters")
    else:
        raise Undecided(f"{OUTER}: slicing of the cluster counts not recognised: {[u(s) for s in slices]}")
    zero = [s for s in stmts_local(outer) if isinstance(s, ast.Assign) and len(s.targets) == 1 and u(s.targets[0]) in cnt_names
            and isinstance(s.value, ast.Call) and call_name(s.value) in ("zeros", "zeros_like")]
    if len(zero) != 1:
        raise Undecided(f"{OUTER}: initialisation of the cluster counts not recognised")
    ztxt = u(inline_locals(outer, zero[0].value.args[0], stop=[P, N, S])) if zero[0].value.args else ""
    z_ok = any(x in ztxt for x in (f"{P}.shape[1]", f"{N}.size", f"len({N})", f"{N}.shape[0]", f"{S}.size", f"len({S})")) \
        or (call_name(zero[0].value) == "zeros_like" and ztxt in (S, N))
    if not z_ok and not ({n for n in names_in(ast.parse(ztxt, mode="eval"))} <= {P, N, S, "np"}):
        raise Undecided(f"{OUTER}: size of the cluster count array `{ztxt}` not recognised")
    ctx.check("R3", z_ok, mod, q, zero[0],
              "the cluster counts start at zero with room for one cluster per point", construct="counts initialised to zeros(n_pts)")

    # second loop: offsets
    START = actual[ip_start].id if isinstance(actual[ip_start], ast.Name) else None
    if START is None or SIZE is None:
        raise Undecided(f"{OUTER}: start/size arguments of {INNER} are not local names")
    ok_args = SIZE in size_names and START not in size_names
    if not ok_args and not ({SIZE, START} & size_names):
        raise Undecided(f"{OUTER}: neither start nor size argument of {INNER} is the cluster-size loop element")
    ctx.check("R3", ok_args, mod, q, call,
              f"{INNER} must receive (cluster_start=<running start>, cluster_size=<loop variable>); it receives "
              f"({u(actual[ip_start])}, {u(actual[ip_size])})", construct="inner start/size arguments",
              facts={"start": u(actual[ip_start]), "size": u(actual[ip_size])})
    if not ok_args:
        return
    body2 = loop2.body
    stores = [s for s in body2 if isinstance(s, ast.Assign) and isinstance(s.targets[0], ast.Subscript)]
    # roles of the three result arrays: by the value stored
    NU = None
    role_of_store = {}
    for s in stores:
        vn = names_in(s.value)
        if not vn & {UPI, N2OI, O2NI}:
            vn = names_in(inline_locals(loop2, s.value, stop=[UPI, N2OI, O2NI], depth=1))
        if UPI in vn:
            role_of_store["pts"] = s
        elif N2OI in vn:
            role_of_store["n2o"] = s
        elif O2NI in vn:
            role_of_store["o2n"] = s
    if set(role_of_store) != {"pts", "n2o", "o2n"}:
        raise Undecided(f"{OUTER}: the three per-cluster result stores were not found in the second loop")
    # offset variable: the AugAssign by the number of inner uniques
    class _Adv:  # an advance `X += V` (possibly written `X = <end>` with <end> == X + V)
        def __init__(self, stmt, value):
            self.stmt, self.value = stmt, value
    aug_by = {}
    for s_ in body2:
        if isinstance(s_, ast.AugAssign) and isinstance(s_.target, ast.Name) and isinstance(s_.op, ast.Add):
            aug_by[s_.target.id] = _Adv(s_, s_.value)
        elif isinstance(s_, ast.Assign) and len(s_.targets) == 1 and isinstance(s_.targets[0], ast.Name):
            X = s_.targets[0].id
            e_ = s_.value
            if isinstance(e_, ast.Name):   # `X = x_end` with the temporary `x_end = X + V` computed earlier in the body
                d_ = [y.value for y in body2 if isinstance(y, ast.Assign) and len(y.targets) == 1 and u(y.targets[0]) == e_.id]
                e_ = d_[0] if len(d_) == 1 else e_
            if isinstance(e_, ast.BinOp) and isinstance(e_.op, ast.Add):
                if isinstance(e_.left, ast.Name) and e_.left.id == X:
                    aug_by[X] = _Adv(s_, e_.right)
                elif isinstance(e_.right, ast.Name) and e_.right.id == X:
                    aug_by[X] = _Adv(s_, e_.left)
    if START not in aug_by:
        if any(isinstance(s, ast.Assign) and any(u(t) == START for t in s.targets) for s in walk_local(loop2)):
            raise Undecided(f"{OUTER}: the cluster start `{START}` is recomputed in the loop in an unknown way")
        ctx.check("R3", False, mod, q, loop2, f"the running cluster start `{START}` is never advanced", construct="cluster_start advance")
        return
    others = [k for k in aug_by if k != START]
    if len(others) != 1:
        raise Undecided(f"{OUTER}: expected one running unique-count offset in the second loop, found {others}")
    NU = others[0]
    roles = {NU: "NU", START: "CS", SIZE: "SZ", S: "SIDX", UPI: "UPI", N2OI: "N2OI", O2NI: "O2NI"}
    vocab = set(roles.values())

    def canon(e):
        return _rename(inline_locals(loop2, e, stop=list(roles)), roles)
    K_forms = ("UPI.shape[1]", "N2OI.size", "N2OI.shape[0]", "len(N2OI)", "UPI.shape[-1]")
    k_nu = canon(aug_by[NU].value)
    _decide(ctx, "R3", k_nu, set(K_forms), vocab, mod, q, aug_by[NU].stmt,
            f"the unique-count offset advances by the number of representatives of the cluster; it advances by `{k_nu}`",
            construct=f"num_unique += {k_nu}")
    _decide(ctx, "R3", canon(aug_by[START].value), {"SZ"}, vocab, mod, q, aug_by[START].stmt,
            f"the cluster start advances by the cluster size; it advances by `{canon(aug_by[START].value)}`",
            construct=f"cluster_start += {canon(aug_by[START].value)}")
    # offsets are advanced after their last use in the body
    for nm, lab in ((NU, "unique-count offset"), (START, "cluster start")):
        pos = body2.index(aug_by[nm].stmt)
        later_reads = [s for s in body2[pos + 1:] if nm in names_in(s)]
        ctx.check("R3", not later_reads, mod, q, aug_by[nm].stmt,
                  f"the {lab} must be advanced after the per-cluster results were written with it",
                  construct=f"{lab} advanced last")
    # store shapes
    sl_ok = {f"NU:NU + {k}" for k in K_forms} | {f"NU:{k} + NU" for k in K_forms}
    t_pts = canon(role_of_store["pts"].targets[0].slice)
    t_n2o = canon(role_of_store["n2o"].targets[0].slice)
    _decide(ctx, "R3", t_pts, {f":, {x}" for x in sl_ok}, vocab, mod, q, role_of_store["pts"],
            f"cluster representatives must be written to columns [offset : offset + count]; target index `{t_pts}`",
            construct=f"unique_pts store [{t_pts}]")
    _decide(ctx, "R3", t_n2o, sl_ok, vocab, mod, q, role_of_store["n2o"],
            f"cluster new_2_old must be written to [offset : offset + count]; target index `{t_n2o}`",
            construct=f"new_2_old store [{t_n2o}]")
    ctx.check("R3", canon(role_of_store["pts"].value) == "UPI" and canon(role_of_store["n2o"].value) == "N2OI", mod, q,
              role_of_store["n2o"], "representatives and their original indices are copied unchanged",
              construct="inner results copied unchanged")
    t_o2n = canon(role_of_store["o2n"].targets[0].slice)
    v_o2n = canon(role_of_store["o2n"].value)
    o2n_targets = {"SIDX[np.arange(CS, CS + SZ)]", "SIDX[CS:CS + SZ]", "SIDX[np.arange(CS, SZ + CS)]", "SIDX[CS:SZ + CS]"}
    _decide(ctx, "R3", t_o2n, o2n_targets, vocab, mod, q, role_of_store["o2n"],
            f"old_2_new of the cluster members is scattered through the argsort array at [start : start + size]; target `{t_o2n}`",
            construct=f"old_2_new scatter [{t_o2n}]")
    _decide(ctx, "R3", v_o2n, {"O2NI + NU", "NU + O2NI"}, vocab, mod, q, role_of_store["o2n"],
            f"cluster-local unique numbers are shifted by the number of uniques found so far; value `{v_o2n}`",
            construct=f"old_2_new value {v_o2n}")

    # =========================== R4 inner function ================================================
    _check_inner(ctx, mod, inner, iparams)

    # =========================== R5 final reorder =================================================
    _check_reorder(ctx, mod, outer, loop2, role_of_store, NU)


def _inside(pm: dict, node: ast.AST, block: list, owner: ast.AST) -> bool:
    """node is (transitively) inside one of the statements of `block` (a body list of owner)."""
    cur = node
    while cur in pm:
        par = pm[cur]
        if par is owner:
            return any(cur is s for s in block)
        cur = par
    return False


def _check_inner_distance(ctx: Ctx, mod, inner: ast.FunctionDef, iparams) -> None:
    tol = iparams[4]
    cands = []
    for n in walk_local(inner):
        if isinstance(n, ast.Compare) and len(n.ops) == 1 and isinstance(n.ops[0], (ast.Lt, ast.LtE)) \
                and tol in names_in(n.comparators[0]):
            cands.append(n)
    if len(cands) != 1:
        raise Undecided(f"{INNER}: expected one `<distance> < <tol>` comparison, found {len(cands)}")
    c = cands[0]
    lhs = inline_locals(inner, c.left, stop=iparams)
    rhs = c.comparators[0]

    def sumsq(x):
        if not (_is_np(x, "sum") and x.args):
            return False
        a = kwarg(x, "axis")
        if not (isinstance(a, ast.Constant) and a.value == 0):
            return False
        b = x.args[0]
        return isinstance(b, ast.BinOp) and isinstance(b.op, ast.Pow) and isinstance(b.right, ast.Constant) and b.right.value == 2 \
            and isinstance(b.left, ast.BinOp) and isinstance(b.left.op, ast.Sub)
    if sumsq(lhs):
        lk = "squared"
    elif _is_np(lhs, "sqrt") and lhs.args and sumsq(lhs.args[0]):
        lk = "plain"
    else:
        raise Undecided(f"{INNER}: distance expression `{u(lhs)}` not recognised")
    if isinstance(rhs, ast.Name) and rhs.id == tol:
        rk = "plain"
    elif (isinstance(rhs, ast.BinOp) and isinstance(rhs.op, ast.Pow) and u(rhs.left) == tol and isinstance(rhs.right, ast.Constant)
          and rhs.right.value == 2) or (isinstance(rhs, ast.BinOp) and isinstance(rhs.op, ast.Mult) and u(rhs.left) == tol
                                        and u(rhs.right) == tol):
        rk = "squared"
    else:
        raise Undecided(f"{INNER}: tolerance expression `{u(rhs)}` not recognised")
    ctx.check("R2", lk == rk, mod, INNER, c,
              f"the inner test compares a {lk} Euclidean distance with a {rk} tolerance: 'equal' then means something else "
              f"than distance < tol, which is what the norm pruning bounds", construct=f"inner distance test: {lk} vs {rk}",
              facts={"lhs": u(lhs), "rhs": u(rhs)})



def _affine(e: ast.expr, syms: set[str]):
    """linear form {symbol: coeff, 1: const} of an expression over +, -, integer constants and the given names; else None"""
    if isinstance(e, ast.Constant) and isinstance(e.value, int) and not isinstance(e.value, bool):
        return {1: e.value}
    if isinstance(e, ast.Name) and e.id in syms:
        return {e.id: 1}
    if isinstance(e, ast.UnaryOp) and isinstance(e.op, ast.USub):
        a = _affine(e.operand, syms)
        return None if a is None else {k: -v for k, v in a.items()}
    if isinstance(e, ast.BinOp) and isinstance(e.op, (ast.Add, ast.Sub)):
        a, b = _affine(e.left, syms), _affine(e.right, syms)
        if a is None or b is None:
            return None
        out = dict(a)
        sg = 1 if isinstance(e.op, ast.Add) else -1
        for k, v in b.items():
            out[k] = out.get(k, 0) + sg * v
        return {k: v for k, v in out.items() if v != 0}
    return None


def _aff_sub(a: dict, b: dict) -> dict:
    out = dict(a)
    for k, v in b.items():
        out[k] = out.get(k, 0) - v
    return {k: v for k, v in out.items() if v != 0}


def _canon_positions(e: ast.AST, t: str, cs: str, pos: dict) -> ast.AST:
    """Rewrite every maximal +/- expression over (loop counter t, cluster start cs) by its value relative to the sorted
    position `pos` (the index used on the argsort array): pos -> I, pos - cs -> I - CS.  Other expressions are untouched."""
    class T(ast.NodeTransformer):
        def visit(self, n):
            if isinstance(n, (ast.BinOp, ast.Name, ast.UnaryOp)):
                a = _affine(n, {t, cs})
                if a is not None and a.get(t, 0) != 0:
                    d = _aff_sub(a, pos)
                    if d == {}:
                        return ast.copy_location(ast.Name(id="I", ctx=ast.Load()), n)
                    if d == {cs: -1}:
                        return ast.copy_location(ast.BinOp(left=ast.Name(id="I", ctx=ast.Load()), op=ast.Sub(),
                                                           right=ast.Name(id="CS", ctx=ast.Load())), n)
                    return n
            return self.generic_visit(n)
    return T().visit(copy.deepcopy(e))


def _check_inner(ctx: Ctx, mod, fn: ast.FunctionDef, iparams) -> None:
    q = INNER
    points, sidx, cstart, csize, tol = iparams
    loops = [s for s in fn.body if isinstance(s, ast.For)]
    if len(loops) != 1 or not isinstance(loops[0].target, ast.Name):
        raise AnchorError(f"{INNER}: expected one top-level for loop")
    loop = loops[0]
    I = loop.target.id
    if not _is_np(loop.iter, "range") or not (1 <= len(loop.iter.args) <= 2):
        raise Undecided(f"{INNER}: cluster traversal `{u(loop.iter)}` is not a range over the sorted positions")
    # The traversal is decided from the index actually used on the argsort array: position p = t + c.
    pos_forms = []
    for st in walk_local(loop):
        for n_ in ast.walk(st) if isinstance(st, ast.stmt) and not isinstance(st, (ast.For, ast.If)) else []:
            if isinstance(n_, ast.Subscript) and u(n_.value) == sidx:
                a_ = _affine(inline_locals(loop, n_.slice, stop=[I, cstart, csize]), {I, cstart})
                if a_ is None or a_.get(I, 0) != 1:
                    raise Undecided(f"{INNER}: index `{u(n_.slice)}` used on `{sidx}` is not <loop counter> + offset")
                if a_ not in pos_forms:
                    pos_forms.append(a_)
    if len(pos_forms) != 1:
        raise Undecided(f"{INNER}: `{sidx}` is indexed in {len(pos_forms)} different ways inside the cluster loop")
    POS = pos_forms[0]
    off = _aff_sub(POS, {I: 1})                      # p = t + off
    lo = _affine(loop.iter.args[0], {cstart, csize}) if len(loop.iter.args) == 2 else {}
    hi = _affine(inline_locals(fn, loop.iter.args[-1], stop=[cstart, csize]), {cstart, csize})
    if lo is None or hi is None:
        raise Undecided(f"{INNER}: bounds of `{u(loop.iter)}` are not linear in ({cstart}, {csize})")

    def plus(a, b):
        return _aff_sub(a, {k: -v for k, v in b.items()})
    first, last = plus(lo, off), plus(hi, off)
    ok_range = first == {cstart: 1} and last == {cstart: 1, csize: 1}

    def show(a):
        return " + ".join((f"{v}*{k}" if v != 1 else str(k)) if k != 1 else str(v) for k, v in sorted(a.items(), key=lambda kv: str(kv[0]))) or "0"
    ctx.check("R4", ok_range, mod, q, loop,
              f"the cluster must cover the sorted positions [{cstart}, {cstart} + {csize}): `{sidx}` is read at positions "
              f"[{show(first)}, {show(last)}) (loop `{u(loop.iter)}`, index `{show(POS)}`)",
              construct=f"cluster traversal positions [{show(first).replace(cstart, 'CS').replace(csize, 'SZ')}, "
                        f"{show(last).replace(cstart, 'CS').replace(csize, 'SZ')})")
    rets = [s for s in fn.body if isinstance(s, ast.Return)]
    if len(rets) != 1 or not isinstance(rets[0].value, ast.Tuple) or len(rets[0].value.elts) != 3:
        raise AnchorError(f"{INNER}: expected `return a, b, c`")
    r_pts, r_n2o, r_o2n = rets[0].value.elts
    # names
    if not (isinstance(r_n2o, ast.Subscript) and isinstance(r_n2o.value, ast.Name) and isinstance(r_n2o.slice, ast.Slice)
            and r_n2o.slice.lower is None and isinstance(r_n2o.slice.upper, ast.Name)):
        raise Undecided(f"{INNER}: second return value is not `<new_2_old>[:<keep>]`")
    N2O, KEEP = r_n2o.value.id, r_n2o.slice.upper.id
    if not isinstance(r_o2n, ast.Name):
        raise Undecided(f"{INNER}: third return value is not a name")
    O2N = r_o2n.id
    # unique columns array: the base of the window slice
    if isinstance(r_pts, ast.Name):
        WIN = r_pts.id
        wdefs = [s for s in stmts_local(fn) if isinstance(s, ast.Assign) and u(s.targets[0]) == WIN]
        bases = {u(s.value.value) for s in wdefs if isinstance(s.value, ast.Subscript)}
        if len(bases) != 1:
            raise Undecided(f"{INNER}: window `{WIN}` is not a slice of one array")
        UC = bases.pop()
    elif isinstance(r_pts, ast.Subscript) and isinstance(r_pts.value, ast.Name):
        WIN, UC, wdefs = None, r_pts.value.id, []
    else:
        raise Undecided(f"{INNER}: first return value not recognised")
    roles = {N2O: "N2O", O2N: "O2N", UC: "UC", KEEP: "KEEP", sidx: "SIDX", points: "PTS", I: "I", cstart: "CS"}
    if WIN:
        roles[WIN] = "WIN"

    roles.pop(I, None)

    def canon(e):
        e2 = _canon_positions(inline_locals(loop, e, stop=[k for k in roles] + [I]), I, cstart, POS)
        return _rename(e2, roles)
    # candidate column
    COLFORM = "PTS[:, SIDX[I]]"
    # branch on "no twin"
    ifs = [s for s in loop.body if isinstance(s, ast.If)]
    if len(ifs) != 1:
        raise Undecided(f"{INNER}: expected one new-point/twin branch in the loop")
    br = ifs[0]
    W = None
    new_body, twin_body = None, None
    t = br.test
    if isinstance(t, ast.Name):
        t = inline_locals(loop, t, stop=list(roles))
    neg = False
    while isinstance(t, ast.UnaryOp) and isinstance(t.op, ast.Not):
        t, neg = t.operand, not neg

    def any_of(e):
        if _is_np(e, "any") and e.args and isinstance(e.args[0], ast.Name):
            return e.args[0].id
        if _is_np(e, "any") and not e.args and isinstance(e.func, ast.Attribute) and isinstance(e.func.value, ast.Name):
            return e.func.value.id
        return None
    W = any_of(t)
    if W is None:
        raise Undecided(f"{INNER}: branch test `{u(br.test)}` not recognised (expected [not] np.any(<within_tol>))")
    new_body, twin_body = (br.body, br.orelse) if neg else (br.orelse, br.body)
    roles[W] = "W"

    def store_map(body):
        out = {}
        for s in body:
            if isinstance(s, ast.Assign) and isinstance(s.targets[0], ast.Subscript):
                out.setdefault(canon(s.targets[0].value), []).append((canon(s.targets[0].slice), canon(s.value), s))
        return out
    # --- new representative --------------------------------------------------------------
    sm = store_map(new_body)
    want = {"UC": ((":, KEEP",), (COLFORM,)),
            "O2N": (("I - CS",), ("KEEP",)),
            "N2O": (("KEEP",), ("SIDX[I]",))}
    vocab = set(roles.values()) | {"W", "IDX", "I"}

    def store_verdict(got, idx_forms, val_forms):
        if len(got) != 1:
            return False if not got else None
        a, b = _verdict(got[0][0], set(idx_forms), vocab), _verdict(got[0][1], set(val_forms), vocab)
        if a is None or b is None:
            return None
        return a and b
    for arr, (idx_forms, val_forms) in want.items():
        got = sm.get(arr, [])
        ok = store_verdict(got, idx_forms, val_forms)
        if ok is None:
            raise Undecided(f"{INNER}: store(s) into {arr} in the new-representative arm not recognised: {[(g[0], g[1]) for g in got]}")
        ctx.check("R4", ok, mod, q, got[0][2] if got else br,
                  f"a new representative must be recorded as {arr}[{idx_forms[0]}] = {val_forms[0]}; found "
                  f"{[(g[0], g[1]) for g in got]}", construct=f"new representative: {arr}[{idx_forms[0]}]",
                  facts={"found": [(g[0], g[1]) for g in got]})
    kinc = [s for s in new_body if (isinstance(s, ast.AugAssign) and u(s.target) == KEEP and isinstance(s.op, ast.Add)
                                    and u(s.value) == "1")
            or (isinstance(s, ast.Assign) and u(s.targets[0]) == KEEP and u(s.value) in (f"{KEEP} + 1", f"1 + {KEEP}"))]
    st_pos = [new_body.index(g[2]) for arr in want for g in sm.get(arr, [])]
    ok_keep = len(kinc) == 1 and all(p < new_body.index(kinc[0]) for p in st_pos)
    ctx.check("R4", ok_keep, mod, q, kinc[0] if kinc else br,
              "the number of representatives is advanced by one after the three arrays were written at the old value",
              construct="keep += 1 after the stores")
    if WIN:
        resl = [s for s in new_body if isinstance(s, ast.Assign) and u(s.targets[0]) == WIN]
        ok_resl = len(resl) == 1 and canon(resl[0].value) in ("UC[:, :KEEP]",) and kinc and \
            new_body.index(resl[0]) > new_body.index(kinc[0])
        ctx.check("R4", bool(ok_resl), mod, q, resl[0] if resl else br,
                  "the comparison window must be re-sliced to [:, :keep] after keep was advanced (otherwise the new "
                  "representative is never compared against)", construct="window re-sliced after keep += 1")
    # --- twin ---------------------------------------------------------------------------------
    idx_assign = [s for s in twin_body if isinstance(s, ast.Assign) and isinstance(s.targets[0], ast.Name)]
    IDX = None
    for s in idx_assign:
        c = canon(s.value)
        if "W" in c:
            IDX = s.targets[0].id
            first_forms = ("np.argmax(W)", "W.argmax()", "np.where(W)[0][0]", "np.flatnonzero(W)[0]", "np.nonzero(W)[0][0]")
            known_other = ("np.argmin(W)", "W.argmin()", "np.where(W)[0][-1]", "np.flatnonzero(W)[-1]", "np.nonzero(W)[0][-1]")
            if c not in first_forms and c not in known_other:
                raise Undecided(f"{INNER}: twin index `{u(s.value)}` not recognised")
            ctx.check("R4", c in first_forms, mod, q, s,
                      f"the twin of a repeated point is the first representative within tol; `{u(s.value)}` selects another one",
                      construct=f"twin index {c}")
    if IDX is None:
        raise Undecided(f"{INNER}: twin index assignment not found")
    roles[IDX] = "IDX"
    smt = store_map([s for s in twin_body if not isinstance(s, ast.If)])
    got = smt.get("O2N", [])
    vocab = vocab | {"IDX"}
    okt = store_verdict(got, ("I - CS",), ("IDX",))
    if okt is None:
        raise Undecided(f"{INNER}: twin store into O2N not recognised: {[(g[0], g[1]) for g in got]}")
    ctx.check("R4", okt, mod, q, got[0][2] if got else br,
              "a repeated point maps to its twin: O2N[i - cluster_start] = idx", construct="twin: O2N[I - CS] = IDX",
              facts={"found": [(g[0], g[1]) for g in got]})
    # replacement
    unguarded = [k for k in ("N2O", "UC") if smt.get(k)]
    rep_ifs = [s for s in twin_body if isinstance(s, ast.If)]
    if unguarded:
        ctx.check("R4", False, mod, q, smt[unguarded[0]][0][2],
                  "the representative is replaced unconditionally: the last occurrence wins instead of the first",
                  construct="replacement without index guard")
        return
    if len(rep_ifs) != 1:
        ctx.check("R4", False, mod, q, br,
                  "no replacement of the representative by an earlier original index: the representative is the first in "
                  "norm order, not the first occurrence", construct="replacement branch missing")
        return
    rif = rep_ifs[0]
    tt = rif.test
    ok_guard = None
    if isinstance(tt, ast.Compare) and len(tt.ops) == 1:
        l, r = canon(tt.left), canon(tt.comparators[0])
        op = tt.ops[0]
        if (l, r) == ("SIDX[I]", "N2O[IDX]"):
            ok_guard = isinstance(op, (ast.Lt, ast.LtE))
        elif (l, r) == ("N2O[IDX]", "SIDX[I]"):
            ok_guard = isinstance(op, (ast.Gt, ast.GtE))
    if ok_guard is None:
        raise Undecided(f"{INNER}: replacement guard `{u(tt)}` not recognised")
    ctx.check("R4", ok_guard, mod, q, rif,
              "the representative may be replaced only by a point with a SMALLER original index (first occurrence wins)",
              construct=f"replacement guard {canon(tt)}")
    smr = store_map(rif.body)
    a = smr.get("N2O", [])
    b = smr.get("UC", [])
    va, vb = store_verdict(a, ("IDX",), ("SIDX[I]",)), store_verdict(b, (":, IDX",), (COLFORM,))
    if va is None or vb is None:
        raise Undecided(f"{INNER}: replacement stores not recognised: {[(g[0], g[1]) for g in a + b]}")
    ctx.check("R4", va, mod, q, a[0][2] if a else rif,
              "replacement must record the original index of the earlier point: N2O[idx] = sorted_idx[i]",
              construct="replacement: N2O[IDX] = SIDX[I]", facts={"found": [(g[0], g[1]) for g in a]})
    ctx.check("R4", vb, mod, q,
              b[0][2] if b else rif,
              "replacement must also replace the coordinates (unique_pts[:, k] == points[:, new_2_old[k]]): "
              "UC[:, idx] = col - index and coordinates are parallel updates",
              construct="replacement: UC[:, IDX] = col", facts={"found": [(g[0], g[1]) for g in b]})
    # returned window
    ok_ret = (WIN is not None and any(canon(s.value) == "UC[:, :KEEP]" for s in wdefs)) or \
        (WIN is None and canon(r_pts) == "UC[:, :KEEP]")
    ctx.check("R4", ok_ret, mod, q, rets[0], "the returned representatives are the first `keep` columns",
              construct="return UC[:, :KEEP], N2O[:KEEP], O2N")


def _check_reorder(ctx: Ctx, mod, outer: ast.FunctionDef, loop2: ast.For, role_of_store: dict, NU: str) -> None:
    q = OUTER
    rets = [s for s in outer.body if isinstance(s, ast.Return)]
    if len(rets) != 1 or not isinstance(rets[0].value, ast.Tuple) or len(rets[0].value.elts) != 3 \
            or not all(isinstance(e, ast.Name) for e in rets[0].value.elts):
        raise AnchorError(f"{OUTER}: expected a final `return a, b, c` of three names")
    RU, RN, RO = [e.id for e in rets[0].value.elts]
    # the returned names must be the arrays filled in the second loop
    filled = {k: u(role_of_store[k].targets[0].value) for k in role_of_store}
    if (filled["pts"], filled["n2o"], filled["o2n"]) != (RU, RN, RO):
        ctx.check("R5", False, mod, q, rets[0],
                  f"returned names ({RU}, {RN}, {RO}) are not the arrays filled per cluster ({filled['pts']}, {filled['n2o']}, {filled['o2n']}) "
                  f"in the documented order (points, new_2_old, old_2_new)", construct="returned triple")
        return
    tail = [s for s in outer.body if s.lineno > loop2.end_lineno and not isinstance(s, ast.Return)]
    roles = {RU: "U", RN: "N", RO: "O", NU: "NU"}
    # ordering variable
    ORD = None
    for s in tail:
        if isinstance(s, ast.Assign) and isinstance(s.targets[0], ast.Name) and _is_np(s.value, "argsort") \
                and s.value.args and RN in names_in(s.value.args[0]):
            ORD = s.targets[0].id
            ord_stmt = s
    if ORD is None:
        ctx.check("R5", False, mod, q, rets[0], "no ordering = argsort(new_2_old): the first-occurrence order of the output is lost",
                  construct="ordering = argsort(new_2_old)")
        return
    roles[ORD] = "ORD"

    def canon(e):
        return _rename(e, roles)
    # sequence of last definitions
    def defs_of(name):
        return [s for s in tail if isinstance(s, ast.Assign) and isinstance(s.targets[0], ast.Name) and s.targets[0].id == name]
    # slicing to num_unique must precede the argsort
    nsl = [s for s in defs_of(RN) if canon(s.value) == "N[:NU]"]
    usl = [s for s in defs_of(RU) if canon(s.value) in ("U[:, :NU]",)]
    arg_txt = canon(ord_stmt.value.args[0])
    ok = len(nsl) == 1 and nsl[0].lineno < ord_stmt.lineno and len(usl) == 1 and arg_txt == "N"
    if not ok:
        unsliced = not nsl and arg_txt == "N" and not any("NU" in canon(s.value) for s in defs_of(RN))
        missing_u = len(nsl) == 1 and nsl[0].lineno < ord_stmt.lineno and arg_txt == "N" and not any("NU" in canon(s.value) for s in defs_of(RU))
        if not (unsliced or missing_u):
            raise Undecided(f"{OUTER}: slicing of the result arrays to the number of unique points not recognised "
                            f"(argsort of `{arg_txt}`, {[u(s) for s in defs_of(RN) + defs_of(RU)]})")
    ctx.check("R5", ok, mod, q, ord_stmt,
              "unused space must be sliced away ([:num_unique]) from new_2_old before it is argsorted, and from unique_pts",
              construct="slice to num_unique before argsort", facts={"n": [u(s) for s in nsl], "u": [u(s) for s in usl]})
    # gathers
    ulast = defs_of(RU)[-1] if defs_of(RU) else None
    nlast = defs_of(RN)[-1] if defs_of(RN) else None
    rvocab = set(roles.values())
    ok_u = ulast is not None and ulast.lineno > ord_stmt.lineno and _verdict(canon(ulast.value), {"U[:, ORD]"}, rvocab)
    ok_n = nlast is not None and nlast.lineno > ord_stmt.lineno and _verdict(canon(nlast.value), {"N[ORD]"}, rvocab)
    if ok_u is None or ok_n is None:
        raise Undecided(f"{OUTER}: re-ordering of the outputs not recognised: `{u(ulast)}`, `{u(nlast)}`")
    ok_u, ok_n = bool(ok_u), bool(ok_n)
    ctx.check("R5", ok_u, mod, q, ulast or rets[0],
              "returned points must be re-ordered by the first-occurrence ordering: unique_pts[:, ordering]",
              construct="unique_pts gather by ordering", facts={"last_def": u(ulast) if ulast else None})
    ctx.check("R5", ok_n, mod, q, nlast or rets[0],
              "returned new_2_old must be re-ordered with the same ordering: new_2_old[ordering]",
              construct="new_2_old gather by ordering", facts={"last_def": u(nlast) if nlast else None})
    # old_2_new through the inverse permutation
    olast = defs_of(RO)[-1] if defs_of(RO) else None
    if olast is None or olast.lineno < ord_stmt.lineno:
        ctx.check("R5", False, mod, q, rets[0],
                  "old_2_new is not re-mapped after the re-ordering: its entries still number the representatives in "
                  "cluster order", construct="old_2_new re-map missing")
        return
    v = olast.value
    verdict = None
    if isinstance(v, ast.Subscript) and canon(v.slice) == "O":
        base = v.value
        if isinstance(base, ast.Name) and base.id == ORD:
            verdict = False  # the permutation itself, not its inverse
        elif _is_np(base, "argsort") and canon(base.args[0]) == "ORD":
            verdict = True
        elif isinstance(base, ast.Name):
            LK = base.id
            for _ in range(4):  # follow plain aliases `lookup = inv`
                d1 = defs_of(LK)
                if len(d1) == 1 and isinstance(d1[0].value, ast.Name):
                    LK = d1[0].value.id
                else:
                    break
            scat = [s for s in tail if isinstance(s, ast.Assign) and isinstance(s.targets[0], ast.Subscript)
                    and u(s.targets[0].value) == LK]
            init = defs_of(LK)
            if len(scat) == 1 and canon(scat[0].targets[0].slice) == "ORD":
                val = canon(scat[0].value)
                if val in ("np.arange(len(ORD))", "np.arange(ORD.size)", "np.arange(ORD.shape[0])", "np.arange(NU)"):
                    verdict = scat[0].lineno < olast.lineno
                else:
                    raise Undecided(f"{OUTER}: inverse-permutation scatter value `{u(scat[0].value)}` not recognised")
            elif len(init) == 1 and _is_np(init[0].value, "argsort") and canon(init[0].value.args[0]) == "ORD":
                verdict = True
            elif len(scat) == 1 and canon(scat[0].value) == "ORD":
                verdict = False  # lookup[arange] = ordering  is the permutation itself
    if verdict is None:
        raise Undecided(f"{OUTER}: re-map of old_2_new `{u(olast)}` not recognised")
    ctx.check("R5", verdict, mod, q, olast,
              "entries of old_2_new are OLD positions of representatives; they must be sent through the INVERSE of "
              "`ordering` (lookup[ordering] = arange), not through ordering itself (the two agree only for involutions, "
              "e.g. when at most two representatives are swapped)", construct="old_2_new through inverse ordering",
              facts={"remap": u(olast)})


# ====================================================================================
#  membership helpers: intersect_sets (R6), ismember_columns (R7)
# ====================================================================================

def _defs_map(fn: ast.AST) -> dict[str, list[ast.expr]]:
    """name -> expressions that define (or are stored into) it, in source order."""
    out: dict[str, list[ast.expr]] = {}
    for s in stmts_local(fn):
        if isinstance(s, ast.Assign):
            for t in s.targets:
                tl = t.elts if isinstance(t, (ast.Tuple, ast.List)) else [t]
                for k_, x in enumerate(tl):
                    val = s.value
                    if isinstance(t, (ast.Tuple, ast.List)):
                        if isinstance(val, (ast.Tuple, ast.List)) and len(val.elts) == len(tl):
                            val = val.elts[k_]          # a, b = x, y
                        elif isinstance(val, ast.Call):
                            val = ast.copy_location(ast.Subscript(value=val, slice=ast.Constant(value=k_), ctx=ast.Load()), val)  # _, b = f()
                    if isinstance(x, ast.Name):
                        out.setdefault(x.id, []).append(val)
                    elif isinstance(x, ast.Subscript) and isinstance(x.value, ast.Name):
                        out.setdefault(x.value.id, []).append(s.value)
                        out.setdefault(x.value.id, []).append(x.slice)
        elif isinstance(s, ast.AnnAssign) and s.value is not None and isinstance(s.target, ast.Name):
            out.setdefault(s.target.id, []).append(s.value)
        elif isinstance(s, ast.AugAssign) and isinstance(s.target, ast.Name):
            out.setdefault(s.target.id, []).append(s.value)
        elif isinstance(s, ast.Expr) and isinstance(s.value, ast.Call) and isinstance(s.value.func, ast.Attribute) \
                and s.value.func.attr in ("append", "extend", "add", "update") and isinstance(s.value.func.value, ast.Name) and s.value.args:
            out.setdefault(s.value.func.value.id, []).append(s.value.args[0])
        elif isinstance(s, ast.For):
            for x in ast.walk(s.target):
                if isinstance(x, ast.Name):
                    out.setdefault(x.id, []).append(s.iter)
    return out


def _closure(defs: dict[str, list[ast.expr]], name: str) -> set[str]:
    seen, todo = set(), [name]
    while todo:
        n = todo.pop()
        if n in seen:
            continue
        seen.add(n)
        for e in defs.get(n, []):
            todo.extend(names_in(e) - seen)
    return seen


def _points_arg(e: ast.expr, params: list[str]):
    """(parameter, transposed?) for the argument of a KDTree constructor."""
    if isinstance(e, ast.Attribute) and e.attr == "T" and isinstance(e.value, ast.Name) and e.value.id in params:
        return e.value.id, True
    if isinstance(e, ast.Call) and call_name(e) == "transpose":
        base = e.args[0] if e.args else (e.func.value if isinstance(e.func, ast.Attribute) else None)
        if isinstance(base, ast.Name) and base.id in params:
            return base.id, True
    if isinstance(e, ast.Name) and e.id in params:
        return e.id, False
    return None, None


def _norm_param(pe) -> str:
    """'l2' | 'other:<text>' | 'unknown' for the p= argument of a KD-tree ball query."""
    if pe is None:
        return "l2"
    if isinstance(pe, ast.Constant) and isinstance(pe.value, (int, float)) and not isinstance(pe.value, bool):
        return "l2" if pe.value == 2 else f"other:{pe.value}"
    if u(pe) in ("np.inf", "numpy.inf", "math.inf", "inf", "float('inf')"):
        return "other:inf"
    return "unknown"


def _check_intersect(ctx: Ctx, mod) -> None:
    q = "intersect_sets"
    fn = normalise(mod, mod.func(q))
    params = [a.arg for a in fn.args.args]
    if len(params) < 3:
        raise AnchorError(f"{q}: expected parameters (a, b, tol)")
    A, B, TOL = params[:3]
    defs = _defs_map(fn)
    trees: dict[str, tuple] = {}
    for name, exprs in defs.items():
        for e in exprs:
            if isinstance(e, ast.Call) and call_name(e) in ("KDTree", "cKDTree") and e.args:
                trees[name] = _points_arg(e.args[0], params) + (e,)

    def tree_of(e):
        if isinstance(e, ast.Name) and e.id in trees:
            return trees[e.id]
        if isinstance(e, ast.Call) and call_name(e) in ("KDTree", "cKDTree") and e.args:
            return _points_arg(e.args[0], params) + (e,)
        return (None, None, None)
    queries = [c for c in walk_local(fn) if isinstance(c, ast.Call) and isinstance(c.func, ast.Attribute)
               and c.func.attr in ("query_ball_tree", "query_ball_point", "query_pairs", "sparse_distance_matrix", "query",
                                   "count_neighbors")]
    if not queries:
        raise Undecided(f"{q}: no KD-tree proximity query found (a different comparison strategy is an unknown idiom)")
    ctx.check("R6", len(queries) == 1, mod, q, queries[0],
              f"all four results must come from ONE proximity query; found {len(queries)}: {[u(c)[:60] for c in queries]}",
              construct="one proximity query")
    qc = queries[0]
    if qc.func.attr != "query_ball_tree":
        raise Undecided(f"{q}: proximity query `{qc.func.attr}` is not the known ball-tree form")
    other = qc.args[0] if qc.args else kwarg(qc, "other")
    r = qc.args[1] if len(qc.args) > 1 else kwarg(qc, "r")
    pe = qc.args[2] if len(qc.args) > 2 else kwarg(qc, "p")
    eps = qc.args[3] if len(qc.args) > 3 else kwarg(qc, "eps")
    ta, tb = tree_of(qc.func.value), tree_of(other) if other is not None else (None, None, None)
    if ta[0] is None or tb[0] is None:
        raise Undecided(f"{q}: the trees of `{u(qc)}` are not KDTree(<parameter>[.T]) objects")
    ctx.check("R6", (ta[0], tb[0]) == (A, B), mod, q, qc,
              f"the query must go from the first set `{A}` against the second set `{B}` (the result is indexed by the columns of "
              f"`{A}` and holds column numbers of `{B}`); it goes from `{ta[0]}` against `{tb[0]}`",
              construct=f"query from {'a' if ta[0] == A else 'b'} against {'b' if tb[0] == B else 'a'}")
    for lab, t in (("first", ta), ("second", tb)):
        ctx.check("R6", t[1] is True, mod, q, t[2],
                  f"set members are COLUMNS; KDTree takes one point per row, so the {lab} tree must be built from the transposed "
                  f"input (`{t[0]}.T`); found `{u(t[2])}`", construct=f"{lab} tree built from transposed input: {t[1]}")
    # radius
    if r is None:
        raise Undecided(f"{q}: query radius not found")
    rk = _threshold_kind(r, TOL)
    if rk == "unknown":
        raise Undecided(f"{q}: query radius `{u(r)}` not recognised")
    exact_r = rk == "tol" or (rk == "geq" and isinstance(r, ast.BinOp) and any(
        isinstance(x, ast.Constant) and x.value == 1 for x in (r.left, r.right)))
    ctx.check("R6", exact_r, mod, q, qc, f"the ball radius must be the tolerance `{TOL}` itself; found `{u(r)}`",
              construct=f"query radius {_rename(r, {TOL: 'TOL'})}")
    nk = _norm_param(pe)
    if nk == "unknown":
        raise Undecided(f"{q}: Minkowski parameter `{u(pe)}` of the ball query not recognised")
    ctx.check("R6", nk == "l2", mod, q, qc,
              "columns are equal when their EUCLIDEAN distance is within tol: the ball query must use the default p=2"
              + ("" if nk == "l2" else f"; p={nk.split(':')[-1]} reports columns at distance up to sqrt(nd)*tol (max-norm) / "
                                       f"misses columns (1-norm) compared with brute force"), construct=f"query norm {nk}")
    if eps is not None and not (isinstance(eps, ast.Constant) and eps.value == 0):
        ctx.check("R6", False, mod, q, qc, f"approximate ball query (eps={u(eps)}): members within tol may be missed",
                  construct=f"query eps {u(eps)}")
    # result variable
    pm = parent_map(fn)
    par = pm.get(qc)
    if not (isinstance(par, ast.Assign) and len(par.targets) == 1 and isinstance(par.targets[0], ast.Name)):
        raise Undecided(f"{q}: the query result is not bound to a local name")
    I = par.targets[0].id
    rets = [s for s in walk_local(fn) if isinstance(s, ast.Return)]
    if len(rets) != 1 or not isinstance(rets[0].value, ast.Tuple) or len(rets[0].value.elts) != 4 \
            or not all(isinstance(e, ast.Name) for e in rets[0].value.elts):
        raise AnchorError(f"{q}: expected one `return ia, ib, a_in_b, intersection` of four names")
    r0, r1, r2, r3 = [e.id for e in rets[0].value.elts]
    ctx.check("R6", r3 == I, mod, q, rets[0], f"the fourth result must be the per-column hit list of the query itself (`{I}`); it is `{r3}`",
              construct="fourth result is the query result")

    def _gen_roles(target, it):
        """(index variable, element variable) of a loop/comprehension over the hit list I"""
        if _is_np(it, "enumerate") and it.args and u(it.args[0]) == I and isinstance(target, ast.Tuple) and len(target.elts) == 2:
            return u(target.elts[0]), u(target.elts[1])
        if _is_np(it, "range") and len(it.args) == 1 and u(it.args[0]) in (f"len({I})", f"{A}.shape[-1]", f"{A}.shape[1]") \
                and isinstance(target, ast.Name):
            return target.id, None
        if u(it) == I and isinstance(target, ast.Name):
            return None, target.id
        return None, None
    idx_vars, elem_vars = set(), set()
    for st in walk_local(fn):
        if isinstance(st, ast.For):
            iv, ev_ = _gen_roles(st.target, st.iter)
            if iv:
                idx_vars.add(iv)
            if ev_:
                elem_vars.add(ev_)

    def tags_of(e: ast.expr) -> set[str]:
        tags = set()
        bound_i, bound_e = set(idx_vars), set(elem_vars)
        for c in ast.walk(e):
            if isinstance(c, (ast.ListComp, ast.GeneratorExp, ast.SetComp)):
                li, le = set(), set()
                for g_ in c.generators:
                    iv, ev_ = _gen_roles(g_.target, g_.iter)
                    if iv:
                        li.add(iv)
                    if ev_:
                        le.add(ev_)
                for g_ in c.generators:  # `for j in hits`: variables drawn from one hit list are contents
                    if names_in(g_.iter) & le:
                        le |= {x.id for x in ast.walk(g_.target) if isinstance(x, ast.Name)}
                en = names_in(c.elt)
                if en & li and not any(isinstance(x, ast.Subscript) and u(x.value) == I for x in ast.walk(c.elt)):
                    tags.add("pos")
                if en & le or any(isinstance(x, ast.Subscript) and u(x.value) == I for x in ast.walk(c.elt)):
                    tags.add("con" if not (isinstance(c.elt, ast.Compare) or _is_np(c.elt, "len") or _is_np(c.elt, "bool")) else "len")
            if isinstance(c, ast.Call) and call_name(c) in ("flatnonzero", "nonzero", "where", "argwhere"):
                tags.add("pos")
            if isinstance(c, ast.Call) and call_name(c) in ("hstack", "concatenate", "from_iterable", "chain") and I in names_in(c):
                tags.add("con")
        top = {n.id for n in ast.walk(e) if isinstance(n, ast.Name)}
        if isinstance(e, ast.Name) and e.id in bound_i:
            tags.add("pos")
        if isinstance(e, ast.Name) and e.id in bound_e:
            tags.add("con")
        return tags

    def kind(name: str) -> str:
        """'positions' (indices of a-columns with a hit), 'contents' (b-column numbers found), 'mixed', 'none'"""
        clo = _closure(defs, name)
        if I not in clo:
            return "none"
        tags = set()
        for n in clo - {I}:
            for e in defs.get(n, []):
                tags |= tags_of(e)
        tags.discard("len")
        if "pos" in tags and "con" in tags:
            # a flatnonzero over a list of lengths is still positions
            return "mixed"
        return "positions" if "pos" in tags else ("contents" if "con" in tags else "none")
    k0, k1 = kind(r0), kind(r1)
    if "none" in (k0, k1) or "mixed" in (k0, k1):
        raise Undecided(f"{q}: cannot classify how `{r0}` / `{r1}` are derived from the query result `{I}` ({k0}, {k1})")
    ctx.check("R6", k0 == "positions", mod, q, rets[0],
              f"the first result lists the columns of `{A}` that have a hit (positions in the hit list); `{r0}` is derived as {k0}",
              construct=f"first result derived as {k0}")
    ctx.check("R6", k1 == "contents", mod, q, rets[0],
              f"the second result lists the columns of `{B}` that were hit (contents of the hit list); `{r1}` is derived as {k1}",
              construct=f"second result derived as {k1}")
    # polarity of the non-emptiness filter: every `len(<one hit list>) <op> k` in the function
    for c in [c for c in walk_local(fn) if isinstance(c, ast.Compare) and len(c.ops) == 1 and isinstance(c.left, ast.Call)
              and call_name(c.left) == "len" and c.left.args and isinstance(c.comparators[0], ast.Constant)]:
        arg = c.left.args[0]
        is_elem = (isinstance(arg, ast.Subscript) and u(arg.value) == I) or (isinstance(arg, ast.Name) and arg.id != I and (
            arg.id in elem_vars or any(arg.id == _gen_roles(g_.target, g_.iter)[1] for comp in walk_local(fn)
                                       if isinstance(comp, (ast.ListComp, ast.GeneratorExp)) for g_ in comp.generators)))
        if not is_elem:
            continue
        k = c.comparators[0].value
        op = c.ops[0]
        ok = (isinstance(op, ast.Gt) and k == 0) or (isinstance(op, ast.GtE) and k == 1) or (isinstance(op, ast.NotEq) and k == 0)
        ctx.check("R6", ok, mod, q, c, f"a column of `{A}` is a member iff its hit list is NON-empty; the filter is `{u(c)}`",
                  construct=f"hit filter len(HITS[i]) {type(op).__name__} {k}")
    # the membership mask
    mdefs = defs.get(r2, [])
    alloc = [e for e in mdefs if isinstance(e, ast.Call) and call_name(e) in ("zeros", "full", "zeros_like")]
    if alloc:
        sz = u(alloc[0].args[0]) if alloc[0].args else ""
        ctx.check("R6", sz in (f"{A}.shape[-1]", f"{A}.shape[1]") and "bool" in u(alloc[0]), mod, q, alloc[0],
                  f"the mask has one boolean entry per column of `{A}`; allocated as `{u(alloc[0])}`",
                  construct=f"mask allocation {_rename(alloc[0], {A: 'A', B: 'B'})}")
        stores = [s for s in stmts_local(fn) if isinstance(s, ast.Assign) and isinstance(s.targets[0], ast.Subscript)
                  and u(s.targets[0].value) == r2]
        ok_store = len(stores) == 1 and isinstance(stores[0].value, ast.Constant) and stores[0].value.value is True \
            and isinstance(stores[0].targets[0].slice, ast.Name) and kind(stores[0].targets[0].slice.id) == "positions"
        ctx.check("R6", ok_store, mod, q, stores[0] if stores else rets[0],
                  f"the mask is set True exactly at the columns of `{A}` that have a hit; found {[u(s) for s in stores]}",
                  construct="mask set at hit positions")
    else:
        clo = _closure(defs, r2)
        if I not in clo:
            ctx.check("R6", False, mod, q, rets[0], f"the membership mask `{r2}` is not derived from the query result",
                      construct="mask derived from the query")
        else:
            raise Undecided(f"{q}: membership mask `{r2}` built in an unknown way")
    ctx.sample({"rule": "R6", "query": u(qc), "results": [r0, r1, r2, r3], "kinds": [k0, k1]})


def _check_ismember(ctx: Ctx, mod) -> None:
    q = "ismember_columns"
    fn = normalise(mod, mod.func(q))
    params = [a.arg for a in fn.args.args]
    if len(params) < 2:
        raise AnchorError(f"{q}: expected parameters (a, b, ...)")
    A, B = params[:2]
    defs = _defs_map(fn)
    rets = [s for s in walk_local(fn) if isinstance(s, ast.Return)]
    if len(rets) != 1 or not isinstance(rets[0].value, ast.Tuple) or len(rets[0].value.elts) != 2:
        raise AnchorError(f"{q}: expected one `return mask, index`")

    def single(name):
        d = defs.get(name, [])
        return d[0] if len(d) == 1 else None

    def resolve(e, depth=0):
        """follow single-assignment locals"""
        while isinstance(e, ast.Name) and single(e.id) is not None and depth < 6:
            e = single(e.id)
            depth += 1
        return e
    M_e, OUT_e = rets[0].value.elts
    m_def = resolve(M_e)
    if not (isinstance(m_def, ast.Call) and call_name(m_def) in ("isin", "in1d") and len(m_def.args) >= 2):
        raise Undecided(f"{q}: membership mask `{u(m_def)[:60]}` is not np.isin(<ids of a>, <ids of b>)")
    # the two id vectors: slices of the inverse map
    def split_of(e):
        e = resolve(e)
        if isinstance(e, ast.Subscript) and isinstance(e.slice, ast.Slice) and e.slice.step is None and isinstance(e.value, ast.Name):
            lo, hi = e.slice.lower, e.slice.upper
            if lo is None and hi is not None:
                return e.value.id, "head", hi
            if hi is None and lo is not None:
                return e.value.id, "tail", lo
        return None
    s1, s2 = split_of(m_def.args[0]), split_of(m_def.args[1])
    if s1 is None or s2 is None or s1[0] != s2[0]:
        raise Undecided(f"{q}: arguments of `{u(m_def)}` are not a head/tail split of one inverse map")
    IND = s1[0]
    # stacking
    def unique_sources(name: str, seen: set[str]):
        out = []
        for e in defs.get(name, []):
            e0 = e
            while isinstance(e0, ast.Call) and isinstance(e0.func, ast.Attribute) and e0.func.attr in (
                    "ravel", "flatten", "squeeze", "reshape", "astype", "copy") and not (
                    isinstance(e0.func.value, ast.Name) and e0.func.value.id in ("np", "numpy")):
                e0 = e0.func.value
            if isinstance(e0, ast.Subscript) and _is_np(e0.value, "unique") and isinstance(e0.slice, ast.Constant):
                out.append((e0.value, e0.slice.value))
            elif isinstance(e0, ast.Name):
                if e0.id not in seen:
                    seen.add(e0.id)
                    out += unique_sources(e0.id, seen)
            else:
                out.append((None, u(e0)[:60]))
        return out
    uniq = unique_sources(IND, {IND})
    if not uniq or any(c is None for c, _ in uniq):
        raise Undecided(f"{q}: `{IND}` does not come from np.unique(..., return_inverse=True): {[k for c, k in uniq if c is None]}")
    stacked = None
    for uq, pos in uniq:
        flags = [k.arg for k in uq.keywords if k.arg and k.arg.startswith("return_") and isinstance(k.value, ast.Constant) and k.value.value]
        want_pos = 1 + (1 if "return_index" in flags else 0)
        ctx.check("R7", "return_inverse" in flags and pos == want_pos, mod, q, uq,
                  f"`{IND}` must be the inverse map (class id per stacked column): np.unique is asked for {flags} and output "
                  f"number {pos} is taken", construct=f"unique flags {flags} output {pos}")
        ax = kwarg(uq, "axis")
        if ax is not None:
            ctx.check("R7", isinstance(ax, ast.Constant) and ax.value in (1, -1), mod, q, uq,
                      f"set members are columns: uniqueness along axis=1; found axis={u(ax)}", construct=f"unique axis {u(ax)}")
        c0 = resolve(uq.args[0]) if uq.args else None
        if stacked is None:
            stacked = c0
        elif u(stacked) != u(c0):
            raise Undecided(f"{q}: the np.unique calls work on different arrays")
    if not (isinstance(stacked, ast.Call) and call_name(stacked) in ("hstack", "concatenate", "column_stack") and stacked.args
            and isinstance(stacked.args[0], (ast.Tuple, ast.List)) and len(stacked.args[0].elts) == 2):
        raise Undecided(f"{q}: stacked array `{u(stacked)[:60] if stacked is not None else None}` is not np.hstack((<a>, <b>))")
    X, Y = stacked.args[0].elts

    def origin(e):
        """which parameter an operand of the stack comes from, and how: {(param, 'raw'|'sorted0'|'sorted?')}"""
        out = set()
        exprs = defs.get(e.id, []) if isinstance(e, ast.Name) and e.id not in (A, B) else [e]
        for d in exprs:
            if isinstance(d, ast.Name) and d.id in (A, B):
                out.add((d.id, "raw"))
            elif isinstance(d, ast.Call) and call_name(d) == "sort" and d.args and isinstance(d.args[0], ast.Name) and d.args[0].id in (A, B):
                ax = kwarg(d, "axis") or (d.args[1] if len(d.args) > 1 else None)
                out.add((d.args[0].id, "sorted0" if isinstance(ax, ast.Constant) and ax.value == 0 else f"sorted(axis={u(ax) if ax is not None else 'default'})"))
            else:
                out.add((None, u(d)[:40]))
        return out
    ox, oy = origin(X), origin(Y)
    if any(p is None for p, _ in ox | oy):
        raise Undecided(f"{q}: operands of the stack are not the (sorted) parameters: {sorted(map(str, ox | oy))}")
    px, py = {p for p, _ in ox}, {p for p, _ in oy}
    if len(px) != 1 or len(py) != 1 or px == py:
        raise Undecided(f"{q}: operands of the stack mix the parameters: {px}, {py}")
    first, second = px.pop(), py.pop()
    ctx.check("R7", {k for _, k in ox} == {k for _, k in oy} and {k for _, k in ox} <= {"raw", "sorted0"}, mod, q, stacked,
              f"both sets must be prepared the same way (both sorted within each column, axis=0, or both raw); "
              f"`{first}`: {sorted(k for _, k in ox)}, `{second}`: {sorted(k for _, k in oy)}",
              construct=f"stack operands {sorted(k for _, k in ox)} / {sorted(k for _, k in oy)}")
    # the two preparations must happen in the same arms
    pmap = parent_map(fn)
    if isinstance(X, ast.Name) and isinstance(Y, ast.Name) and X.id not in (A, B):
        arms_x = [(id(pmap.get(s)), type(s.value).__name__) for s in stmts_local(fn) if isinstance(s, ast.Assign) and u(s.targets[0]) == X.id]
        arms_y = [(id(pmap.get(s)), type(s.value).__name__) for s in stmts_local(fn) if isinstance(s, ast.Assign) and u(s.targets[0]) == Y.id]
        ctx.check("R7", arms_x == arms_y, mod, q, stacked, "the two sets are sorted / left raw in the same branches",
                  construct="parallel preparation of a and b")
    # split consistent with the stacking order
    part = {s1[1]: m_def.args[0], s2[1]: m_def.args[1]}
    bound1, bound2 = resolve(s1[2]), resolve(s2[2])
    if u(bound1) != u(bound2):
        ctx.check("R7", False, mod, q, m_def, f"head and tail of `{IND}` are cut at different positions (`{u(bound1)}` / `{u(bound2)}`)",
                  construct="split bound")
        return
    first_name = X.id if isinstance(X, ast.Name) else first
    ok_bound = isinstance(bound1, ast.Subscript) and isinstance(bound1.value, ast.Attribute) and bound1.value.attr == "shape" \
        and u(bound1.slice) in ("-1", "1") and u(bound1.value.value) in (first_name, first)
    if not ok_bound and not (isinstance(bound1, ast.Subscript) and isinstance(bound1.value, ast.Attribute) and bound1.value.attr == "shape"):
        raise Undecided(f"{q}: split position `{u(bound1)}` not recognised")
    ctx.check("R7", ok_bound, mod, q, m_def,
              f"the stacked columns are [{first} | {second}]; the inverse map must be cut after the number of columns of "
              f"`{first}`; it is cut at `{u(bound1)}`", construct=f"split at {_rename(bound1, {A: 'A', B: 'B'})} for stack [{first}|{second}]")
    # roles: ids of a = the part belonging to parameter A
    ids_of = {first: "head", second: "tail"}
    arg0_part, arg1_part = s1[1], s2[1]
    ctx.check("R7", (arg0_part, arg1_part) == (ids_of[A], ids_of[B]), mod, q, m_def,
              f"the mask answers 'is column of `{A}` in `{B}`': np.isin(<ids of {A}>, <ids of {B}>); the arguments are the "
              f"{arg0_part} and the {arg1_part} of the inverse map of [{first} | {second}]",
              construct=f"isin({arg0_part}, {arg1_part}) for stack [{first}|{second}]")
    # index output: sort_ind[searchsorted(ids_b[sort_ind], ids_a[mask])]
    out_def = resolve(OUT_e)
    IA_txt, IB_txt = u(m_def.args[0]), u(m_def.args[1])
    M_txt = u(M_e)
    if isinstance(out_def, ast.Call) and call_name(out_def) == "searchsorted":
        ctx.check("R7", False, mod, q, out_def,
                  f"np.searchsorted returns positions in the SORTED ids of `{B}`; they must be mapped back through the argsort "
                  f"to columns of `{B}` (agrees only when the ids of b happen to be ascending)",
                  construct="index output through argsort of b ids")
        return
    if not (isinstance(out_def, ast.Subscript) and isinstance(out_def.value, ast.Name)):
        raise Undecided(f"{q}: index output `{u(out_def)[:60]}` is not <argsort of b ids>[<positions>]")
    SI = out_def.value.id
    si_def = single(SI)
    ok_si = isinstance(si_def, ast.Call) and call_name(si_def) == "argsort" and si_def.args and u(si_def.args[0]) == IB_txt
    ctx.check("R7", bool(ok_si), mod, q, out_def,
              f"positions found in the sorted ids of `{B}` must be mapped back through the same argsort (`np.argsort({IB_txt})`); "
              f"`{SI}` is `{u(si_def) if si_def is not None else None}`", construct="index output through argsort of b ids")
    ss = resolve(out_def.slice)
    if not (isinstance(ss, ast.Call) and call_name(ss) == "searchsorted" and len(ss.args) >= 2):
        ctx.check("R7", False, mod, q, out_def,
                  f"the index output must be argsort[searchsorted(sorted ids of {B}, ids of member columns of {A})]; found `{u(out_def)}`",
                  construct="index output form")
        return
    hay, needle = u(resolve(ss.args[0])), u(resolve(ss.args[1]))
    ctx.check("R7", hay in (f"{IB_txt}[{SI}]", f"np.sort({IB_txt})"), mod, q, ss,
              f"np.searchsorted needs the ids of `{B}` in ascending order (`{IB_txt}[{SI}]`); the haystack is `{hay}`",
              construct=f"searchsorted haystack sorted: {hay in (f'{IB_txt}[{SI}]', f'np.sort({IB_txt})')}")
    ctx.check("R7", needle == f"{IA_txt}[{M_txt}]", mod, q, ss,
              f"only member columns of `{A}` may be searched (`{IA_txt}[{M_txt}]`): for a non-member searchsorted returns an "
              f"insertion point, not a twin; the needle is `{needle}`", construct="searchsorted needle restricted to members")
    ctx.sample({"rule": "R7", "stack": [first, second], "inverse": IND, "mask": u(m_def)})


def _m(name, old, new, rule, control=False, count=1):
    return dict(name=name, file=FILE, old=old, new=new, rule=rule, control=control, count=count)


MUTANTS = [
    _m("seed-intersect-sets-max-norm", "intersection = a_tree.query_ball_tree(b_tree, tol)",
       "intersection = a_tree.query_ball_tree(b_tree, tol, p=np.inf)", "R6"),
    _m("intersect-one-norm", "intersection = a_tree.query_ball_tree(b_tree, tol)", "intersection = a_tree.query_ball_tree(b_tree, tol, p=1)", "R6"),
    _m("intersect-radius-doubled", "intersection = a_tree.query_ball_tree(b_tree, tol)", "intersection = a_tree.query_ball_tree(b_tree, 2 * tol)", "R6"),
    _m("intersect-query-direction-swapped", "intersection = a_tree.query_ball_tree(b_tree, tol)", "intersection = b_tree.query_ball_tree(a_tree, tol)", "R6"),
    _m("intersect-tree-not-transposed", "    b_tree = KDTree(b.T)", "    b_tree = KDTree(b)", "R6"),
    _m("intersect-mask-sized-by-b", "a_in_b = np.zeros(a.shape[-1], dtype=bool)", "a_in_b = np.zeros(b.shape[-1], dtype=bool)", "R6"),
    _m("intersect-mask-at-b-indices", "    a_in_b[ia] = True", "    a_in_b[ib] = True", "R6"),
    _m("intersect-results-swapped", "return ia_unique, ib_unique, a_in_b, intersection", "return ib_unique, ia_unique, a_in_b, intersection", "R6"),
    _m("intersect-approximate-query", "intersection = a_tree.query_ball_tree(b_tree, tol)", "intersection = a_tree.query_ball_tree(b_tree, tol, eps=0.5)", "R6"),
    _m("ismember-b-not-sorted", "        sb = np.sort(b, axis=0)", "        sb = b", "R7"),
    _m("ismember-b-sorted-across-columns", "        sb = np.sort(b, axis=0)", "        sb = np.sort(b, axis=1)", "R7"),
    _m("ismember-split-at-b-count", "    num_a = sa.shape[-1]", "    num_a = sb.shape[-1]", "R7"),
    _m("ismember-stack-order-swapped", "    c = np.hstack((sa, sb))", "    c = np.hstack((sb, sa))", "R7"),
    _m("ismember-isin-swapped", "ismem_a = np.isin(ind_a, ind_b)", "ismem_a = np.isin(ind_b, ind_a)", "R7"),
    _m("ismember-haystack-unsorted", "ypos = np.searchsorted(ind_b[sort_ind], ind_a[ismem_a])", "ypos = np.searchsorted(ind_b, ind_a[ismem_a])", "R7"),
    _m("ismember-positions-not-mapped-back", "    ia = sort_ind[ypos]", "    ia = ypos", "R7"),
    _m("ismember-needle-all-columns", "ypos = np.searchsorted(ind_b[sort_ind], ind_a[ismem_a])", "ypos = np.searchsorted(ind_b[sort_ind], ind_a)", "R7"),
    _m("ismember-unique-return-index", "_, ind = np.unique(c, axis=1, return_inverse=True)", "_, ind = np.unique(c, axis=1, return_index=True)", "R7"),
    # the D8 finding is present on today's tree (known); these are further breakages
    _m("reference-never-updated", "            cluster_idx += 1\n            cluster_norm = current_norm\n",
       "            cluster_idx += 1\n", "R1"),
    _m("signed-gap-wrong-direction", "if abs(cluster_norm - current_norm) > tol:", "if cluster_norm - current_norm > tol:", "R1"),
    _m("key-squared-norm", "point_norms = np.sqrt(np.sum(points**2, axis=0))", "point_norms = np.sum(points**2, axis=0)", "R2", control=True),
    _m("key-l1-norm", "point_norms = np.sqrt(np.sum(points**2, axis=0))", "point_norms = np.sum(np.abs(points), axis=0)", "R2"),
    _m("threshold-half-tol", "if abs(cluster_norm - current_norm) > tol:", "if abs(cluster_norm - current_norm) > 0.5 * tol:", "R2"),
    _m("threshold-tol-squared", "if abs(cluster_norm - current_norm) > tol:", "if abs(cluster_norm - current_norm) > tol**2:", "R2"),
    _m("inner-unsquared-tol", "axis=0) < tol**2", "axis=0) < tol", "R2"),
    _m("inner-larger-tol", "            cluster_size=cluster_size,\n            tol=tol,", "            cluster_size=cluster_size,\n            tol=2 * tol,", "R2"),
    _m("loop-over-unsorted-norms", "for current_norm in point_norms[sorted_idx]:", "for current_norm in point_norms:", "R2"),
    _m("count-before-gap-test", "        if abs(cluster_norm - current_norm) > tol:\n            # Norms are not close. Moving to the next cluster.\n"
       "            cluster_idx += 1\n            cluster_norm = current_norm\n\n        close_norms_count[cluster_idx] += 1\n",
       "        close_norms_count[cluster_idx] += 1\n        if abs(cluster_norm - current_norm) > tol:\n"
       "            cluster_idx += 1\n            cluster_norm = current_norm\n", "R3"),
    _m("last-cluster-dropped", "close_norms_count = close_norms_count[: cluster_idx + 1]", "close_norms_count = close_norms_count[:cluster_idx]", "R3"),
    _m("offset-not-added", "] = old_2_new_inner + num_unique", "] = old_2_new_inner", "R3"),
    _m("start-advanced-by-uniques", "        cluster_start += cluster_size", "        cluster_start += unique_size_inner", "R3"),
    _m("start-size-swapped", "            cluster_start=cluster_start,\n            cluster_size=cluster_size,",
       "            cluster_start=cluster_size,\n            cluster_size=cluster_start,", "R3"),
    _m("replace-by-larger-index", "if sorted_idx[i] < new_2_old[idx]:", "if sorted_idx[i] > new_2_old[idx]:", "R4"),
    _m("replace-index-only", "                new_2_old[idx] = sorted_idx[i]\n                unique_cols[:, idx] = col\n",
       "                new_2_old[idx] = sorted_idx[i]\n", "R4"),
    _m("replace-coords-only", "                new_2_old[idx] = sorted_idx[i]\n                unique_cols[:, idx] = col\n",
       "                unique_cols[:, idx] = col\n", "R4"),
    _m("window-resliced-before-increment", "            keep += 1\n            unique_cols_keep = unique_cols[:, :keep]\n",
       "            unique_cols_keep = unique_cols[:, :keep]\n            keep += 1\n", "R4"),
    _m("twin-is-last-hit", "idx = np.argmax(within_tol)", "idx = np.argmin(within_tol)", "R4"),
    _m("new-rep-wrong-index", "new_2_old[keep] = sorted_idx[i]", "new_2_old[keep] = i", "R4"),
    _m("remap-with-permutation-not-inverse", "old_2_new = lookup[old_2_new]", "old_2_new = ordering[old_2_new]", "R5", control=True),
    _m("new_2_old-not-reordered", "    new_2_old = new_2_old[ordering]\n", "", "R5"),
    _m("points-not-reordered", "    unique_pts = unique_pts[:, ordering]\n", "", "R5"),
    _m("old_2_new-not-remapped", "    old_2_new = lookup[old_2_new]\n", "", "R5"),
    _m("inverse-built-backwards", "lookup[ordering] = np.arange(len(ordering))", "lookup[np.arange(len(ordering))] = ordering", "R5"),
]
