"""C36 - array slicers: operator purity, copy completeness, __matmul__ dispatch, reflected
dunder <-> pending-symbol table and evaluation order, transpose, kernel index spaces."""
from __future__ import annotations

import ast

from ..core import cfg as cfgmod
from ..core.astutil import (u, dotted, walk_local, calls_in, call_name, kwarg, methods, names_in, attrs_of,
                            stmts_local, assigned_targets, body_nodoc, subst)
from ..core.loader import AnchorError, Undecided
from ..core.report import Ctx

MATOPS = "src/porepy/numerics/linalg/matrix_operations.py"
CLS = "ArraySlicer"
KERNELS = ("_slice_vector", "_slice_matrix")
SWEEP_DIRS = ("src/porepy/numerics/ad", "src/porepy/numerics/linalg")

# Language facts: dunder base name -> python binary operator.
PY_SYMBOL = {"add": "+", "sub": "-", "mul": "*", "truediv": "/", "pow": "**", "matmul": "@",
             "floordiv": "//", "mod": "%"}
BINARY_BASES = set(PY_SYMBOL) | {"and", "or", "xor", "lshift", "rshift", "divmod",
                                 "eq", "ne", "lt", "le", "gt", "ge"}

# ========================================================================================
# Refactoring-tolerant normalisation (also imported by c38/c39/c40).
#   * one-level inlining of private helpers (methods of the class or its bases in the module, module
#     functions, nested defs) whose only `return` is their last statement
#   * copy propagation of single-assignment locals bound to a name, a constant or a pure attribute chain
#     (`bf = self.bf`, `ids = geom.cell_ids`, `operand = other`)
#   * module-/class-level literal constants substituted at their uses
#   * `.transpose()` -> `.T`;  "...{}...".format(a) / "...%s..." % a  -> f-string
# The result is a deep copy; the repository tree is never modified.
# ========================================================================================
import copy as _copy
import re as _re
import string as _string


def bound_names(fn: ast.AST) -> dict[str, int]:
    """name -> number of binding sites in fn (parameters count as one; nested scopes not entered)."""
    out: dict[str, int] = {}

    def add(n: str) -> None:
        out[n] = out.get(n, 0) + 1

    if isinstance(fn, (ast.FunctionDef, ast.AsyncFunctionDef)):
        a = fn.args
        for x in a.posonlyargs + a.args + a.kwonlyargs + ([a.vararg] if a.vararg else []) + ([a.kwarg] if a.kwarg else []):
            add(x.arg)
    for n in walk_local(fn):
        if n is fn:
            continue
        if isinstance(n, (ast.Assign, ast.AugAssign, ast.For, ast.AsyncFor, ast.With, ast.AsyncWith)) or \
                (isinstance(n, ast.AnnAssign) and n.value is not None):
            for t in assigned_targets(n):
                if isinstance(t, ast.Name):
                    add(t.id)
        elif isinstance(n, (ast.FunctionDef, ast.AsyncFunctionDef, ast.ClassDef)):
            add(n.name)
        elif isinstance(n, ast.ExceptHandler) and n.name:
            add(n.name)
        elif isinstance(n, (ast.Import, ast.ImportFrom)):
            for al in n.names:
                add((al.asname or al.name).split(".")[0])
        elif isinstance(n, ast.NamedExpr) and isinstance(n.target, ast.Name):
            add(n.target.id)
        elif isinstance(n, ast.Delete):
            for t in n.targets:
                if isinstance(t, ast.Name):
                    add(t.id)
    return out


def _is_chain(e: ast.AST) -> bool:
    while isinstance(e, ast.Attribute):
        e = e.value
    return isinstance(e, ast.Name)


def _chain_root(e: ast.AST) -> str:
    while isinstance(e, ast.Attribute):
        e = e.value
    return e.id  # type: ignore[union-attr]


class _Subst(ast.NodeTransformer):
    def __init__(self, mapping: dict[str, ast.expr], root: ast.AST | None = None):
        self.mapping = mapping
        self.changed = False
        self.root = root

    def _scoped(self, node, shadow: set):
        if node is self.root or not (shadow & set(self.mapping)):
            return self.generic_visit(node)
        saved = self.mapping
        self.mapping = {k: v for k, v in saved.items() if k not in shadow}
        try:
            return self.generic_visit(node)
        finally:
            self.mapping = saved

    def visit_FunctionDef(self, node: ast.FunctionDef):
        return self._scoped(node, set(bound_names(node)))

    def visit_Lambda(self, node: ast.Lambda):
        a = node.args
        return self._scoped(node, {x.arg for x in a.posonlyargs + a.args + a.kwonlyargs})

    def visit_Name(self, n: ast.Name):
        if isinstance(n.ctx, ast.Load) and n.id in self.mapping:
            self.changed = True
            return ast.copy_location(_copy.deepcopy(self.mapping[n.id]), n)
        return n


class _Rename(ast.NodeTransformer):
    def __init__(self, mapping: dict[str, str]):
        self.mapping = mapping

    def visit_Name(self, n: ast.Name):
        if n.id in self.mapping:
            n.id = self.mapping[n.id]
        return n

    def visit_arg(self, n: ast.arg):
        if n.arg in self.mapping:
            n.arg = self.mapping[n.arg]
        return n


def _fmt_to_joined(tmpl: str, args: list[ast.expr], kwargs: dict[str, ast.expr]):
    vals: list[ast.expr] = []
    auto = 0
    try:
        parsed = list(_string.Formatter().parse(tmpl))
    except ValueError:
        return None
    for lit, field, spec, conv in parsed:
        if lit:
            vals.append(ast.Constant(value=lit))
        if field is None:
            continue
        if field == "":
            if auto >= len(args):
                return None
            v = args[auto]
            auto += 1
        elif field.isdigit():
            if int(field) >= len(args):
                return None
            v = args[int(field)]
        elif field in kwargs:
            v = kwargs[field]
        else:
            return None
        fs = ast.JoinedStr(values=[ast.Constant(value=spec)]) if spec else None
        vals.append(ast.FormattedValue(value=_copy.deepcopy(v), conversion=ord(conv) if conv else -1, format_spec=fs))
    return ast.JoinedStr(values=vals)


_PCT = _re.compile(r"%(?:\((\w+)\))?[#0\- +]*\d*(?:\.\d+)?([sdifrgeExX%])")


def _pct_to_joined(tmpl: str, right: ast.expr):
    args = list(right.elts) if isinstance(right, ast.Tuple) else [right]
    vals: list[ast.expr] = []
    pos = 0
    k = 0
    for m in _PCT.finditer(tmpl):
        if m.start() > pos:
            vals.append(ast.Constant(value=tmpl[pos:m.start()]))
        pos = m.end()
        if m.group(2) == "%":
            vals.append(ast.Constant(value="%"))
            continue
        if m.group(1) is not None or k >= len(args):
            return None
        vals.append(ast.FormattedValue(value=_copy.deepcopy(args[k]), conversion=-1, format_spec=None))
        k += 1
    if pos < len(tmpl):
        vals.append(ast.Constant(value=tmpl[pos:]))
    if k != len(args):
        return None
    return ast.JoinedStr(values=vals)


class _Idioms(ast.NodeTransformer):
    """x.transpose() -> x.T ; constant-template .format / % -> JoinedStr."""

    def visit_Call(self, n: ast.Call):
        self.generic_visit(n)
        f = n.func
        if isinstance(f, ast.Attribute) and f.attr == "transpose" and not n.args and not n.keywords:
            return ast.copy_location(ast.Attribute(value=f.value, attr="T", ctx=ast.Load()), n)
        if isinstance(f, ast.Attribute) and f.attr == "format" and isinstance(f.value, ast.Constant) and isinstance(f.value.value, str) \
                and not any(isinstance(a, ast.Starred) for a in n.args) and all(k.arg for k in n.keywords):
            j = _fmt_to_joined(f.value.value, list(n.args), {k.arg: k.value for k in n.keywords})
            if j is not None:
                return ast.copy_location(j, n)
        return n

    def visit_BinOp(self, n: ast.BinOp):
        self.generic_visit(n)
        if isinstance(n.op, ast.Mod) and isinstance(n.left, ast.Constant) and isinstance(n.left.value, str):
            j = _pct_to_joined(n.left.value, n.right)
            if j is not None:
                return ast.copy_location(j, n)
        return n


def split_tuple_assign(s: ast.stmt):
    """`a, b = x, y` -> `a = x; b = y` when no right-hand side reads something the statement writes."""
    if not (isinstance(s, ast.Assign) and len(s.targets) == 1 and isinstance(s.targets[0], (ast.Tuple, ast.List))
            and isinstance(s.value, (ast.Tuple, ast.List)) and len(s.targets[0].elts) == len(s.value.elts)):
        return None
    tg, vs = s.targets[0].elts, s.value.elts
    if any(isinstance(x, ast.Starred) for x in list(tg) + list(vs)):
        return None
    written = {u(t) for t in tg} | {n.id for t in tg for n in [t] if isinstance(n, ast.Name)}
    for v in vs:
        txt = {u(n) for n in ast.walk(v) if isinstance(n, (ast.Name, ast.Attribute, ast.Subscript))}
        if txt & written:
            return None
    out = []
    for t, v in zip(tg, vs):
        out.append(ast.copy_location(ast.Assign(targets=[t], value=v), s))
    return out


def loops_to_comprehensions(stmts: list[ast.stmt]) -> list[ast.stmt]:
    """`L = []` ... `for t in X: L.append(E)`  ->  `L = [E for t in X]`   (same for `D = {}` / `D[k] = E`),
    when nothing between the two statements mentions L and the loop body is that single statement."""
    out = list(stmts)
    changed = True
    while changed:
        changed = False
        for i, s in enumerate(out):
            if not (isinstance(s, (ast.Assign, ast.AnnAssign)) and getattr(s, "value", None) is not None):
                continue
            tg = assigned_targets(s)
            if len(tg) != 1 or not isinstance(tg[0], ast.Name):
                continue
            L = tg[0].id
            v = s.value
            empty_list = (isinstance(v, ast.List) and not v.elts) or (isinstance(v, ast.Call) and u(v.func) == "list" and not v.args)
            empty_dict = (isinstance(v, ast.Dict) and not v.keys) or (isinstance(v, ast.Call) and u(v.func) == "dict" and not v.args and not v.keywords)
            if not (empty_list or empty_dict):
                continue
            for j in range(i + 1, len(out)):
                t = out[j]
                if isinstance(t, ast.For) and not t.orelse and len(t.body) == 1:
                    b = t.body[0]
                    comp = None
                    gen = ast.comprehension(target=t.target, iter=t.iter, ifs=[], is_async=0)
                    inner_if = None
                    if isinstance(b, ast.If) and not b.orelse and len(b.body) == 1 and L not in names_in(b.test):
                        inner_if, b = b.test, b.body[0]
                        gen.ifs = [inner_if]
                    if empty_list and isinstance(b, ast.Expr) and isinstance(b.value, ast.Call) and isinstance(b.value.func, ast.Attribute) \
                            and b.value.func.attr == "append" and u(b.value.func.value) == L and len(b.value.args) == 1 \
                            and L not in names_in(b.value.args[0]) and L not in names_in(t.iter):
                        comp = ast.ListComp(elt=b.value.args[0], generators=[gen])
                    if empty_dict and isinstance(b, ast.Assign) and len(b.targets) == 1 and isinstance(b.targets[0], ast.Subscript) \
                            and u(b.targets[0].value) == L and L not in names_in(b.value) and L not in names_in(b.targets[0].slice) \
                            and L not in names_in(t.iter):
                        comp = ast.DictComp(key=b.targets[0].slice, value=b.value, generators=[gen])
                    if comp is not None:
                        new = ast.copy_location(ast.Assign(targets=[ast.Name(id=L, ctx=ast.Store())], value=comp), t)
                        out = out[:i] + out[i + 1:j] + [new] + out[j + 1:]
                        changed = True
                        break
                if any(isinstance(n, ast.Name) and n.id == L for n in ast.walk(t)):
                    break
            if changed:
                break
    return out


def unroll_generator_assign(s: ast.stmt, lookup) -> list[ast.stmt] | None:
    """`a, b, c = (E(x, y) for x, y in TABLE)` with a literal TABLE of matching length (given directly or through a
    name that `lookup` resolves to a literal tuple/list) -> `a = E(x0, y0); b = E(x1, y1); ...`."""
    if not (isinstance(s, ast.Assign) and len(s.targets) == 1 and isinstance(s.targets[0], (ast.Tuple, ast.List))
            and isinstance(s.value, (ast.GeneratorExp, ast.ListComp)) and len(s.value.generators) == 1 and not s.value.generators[0].ifs):
        return None
    gen = s.value.generators[0]
    tab = gen.iter
    if isinstance(tab, ast.Name):
        tab = lookup(tab.id)
    if not isinstance(tab, (ast.Tuple, ast.List)) or len(tab.elts) != len(s.targets[0].elts) or any(isinstance(x, ast.Starred) for x in tab.elts):
        return None
    out = []
    for tg, row in zip(s.targets[0].elts, tab.elts):
        mapping: dict[str, ast.expr] = {}
        if isinstance(gen.target, ast.Name):
            mapping[gen.target.id] = row
        elif isinstance(gen.target, (ast.Tuple, ast.List)) and isinstance(row, (ast.Tuple, ast.List)) and len(gen.target.elts) == len(row.elts) \
                and all(isinstance(x, ast.Name) for x in gen.target.elts):
            mapping = {x.id: y for x, y in zip(gen.target.elts, row.elts)}
        else:
            return None
        val = _Subst(mapping).visit(_copy.deepcopy(s.value.elt))
        out.append(ast.copy_location(ast.Assign(targets=[tg], value=val), s))
    return out


class Normalizer:
    def __init__(self, module):
        self.mod = module
        tree = module.tree
        self.mod_funcs = {n.name: n for n in tree.body if isinstance(n, ast.FunctionDef)}
        self.classes = {n.name: n for n in tree.body if isinstance(n, ast.ClassDef)}
        self.mod_consts = self._consts(tree.body)
        self._cc_cache: dict[int, dict] = {}

    @staticmethod
    def _consts(body: list[ast.stmt]) -> dict[str, ast.Constant]:
        seen: dict[str, list] = {}
        for s in body:
            for t in assigned_targets(s):
                if isinstance(t, ast.Name):
                    seen.setdefault(t.id, []).append(s)
        out = {}
        for name, ss in seen.items():
            if len(ss) == 1 and isinstance(ss[0], (ast.Assign, ast.AnnAssign)) and isinstance(getattr(ss[0], "value", None), ast.Constant) \
                    and len(assigned_targets(ss[0])) == 1 and isinstance(ss[0].value.value, (str, int, float, bool)):
                out[name] = ss[0].value
        return out

    def lookup_method(self, cls: ast.ClassDef | None, name: str, depth: int = 0):
        if cls is None or depth > 4:
            return None
        m = methods(cls).get(name)
        if m is not None:
            return m
        for b in cls.bases:
            d = dotted(b)
            if d and d.split(".")[-1] in self.classes:
                r = self.lookup_method(self.classes[d.split(".")[-1]], name, depth + 1)
                if r is not None:
                    return r
        return None

    # -- public ----------------------------------------------------------------------------
    def function(self, fn: ast.FunctionDef, cls: ast.ClassDef | None = None, inline: bool = True, keep=(),
                 outer_bound=(), local_consts: bool = True) -> ast.FunctionDef:
        out = _copy.deepcopy(fn)
        self._inline(out, cls, set(keep), nested_source=fn, enabled=inline)
        out = _Idioms().visit(out)
        self._constants(out, cls, set(outer_bound))
        self._copyprop(out, local_consts)
        out = _Idioms().visit(out)
        ast.fix_missing_locations(out)
        return out

    def methods(self, cls: ast.ClassDef, inline: bool = True, keep=()) -> dict[str, ast.FunctionDef]:
        return {n: self.function(f, cls, inline, keep) for n, f in methods(cls).items()}

    def helper_returns(self, call: ast.Call, cls: ast.ClassDef | None, nested_source: ast.FunctionDef | None = None, keep=()):
        """For a call of a private helper (any number of `return`s): the returned expressions with the helper's
        parameters replaced by the call's arguments; None if the callee is not such a helper."""
        nested = {s.name: s for s in (nested_source.body if nested_source is not None else []) if isinstance(s, ast.FunctionDef)}
        r = self._resolve(call, cls, nested, set(keep))
        if r is None:
            return None
        h, recv = r
        a = h.args
        if a.vararg or a.kwarg or a.kwonlyargs or a.posonlyargs or any(isinstance(x, ast.Starred) for x in call.args) \
                or any(k.arg is None for k in call.keywords):
            return None
        params = [x.arg for x in a.args]
        names = list(params)
        argmap: dict[str, ast.expr] = {}
        if recv is not None and names:
            argmap[names[0]] = recv
            names = names[1:]
        if len(call.args) > len(names):
            return None
        for nm, v in zip(names, call.args):
            argmap[nm] = v
        for k in call.keywords:
            if k.arg not in params or k.arg in argmap:
                return None
            argmap[k.arg] = k.value
        for nm, dv in zip(params[len(params) - len(a.defaults):], a.defaults):
            argmap.setdefault(nm, dv)
        if set(params) - set(argmap):
            return None
        counts = bound_names(h)
        if any(counts.get(p, 0) > 1 for p in params):
            return None  # a parameter is re-bound inside the helper
        rets = [n for n in walk_local(h) if isinstance(n, ast.Return) and n.value is not None]
        out = []
        for rt in rets:
            sub = _Subst(dict(argmap))
            out.append(sub.visit(_copy.deepcopy(rt.value)))
        return out

    # -- constants ----------------------------------------------------------------------------
    def _constants(self, fn: ast.FunctionDef, cls, outer_bound: set) -> None:
        local = set(bound_names(fn)) | outer_bound
        for sub in ast.walk(fn):
            if sub is not fn and isinstance(sub, (ast.FunctionDef, ast.Lambda)):
                local |= set(bound_names(sub)) if isinstance(sub, ast.FunctionDef) else {a.arg for a in sub.args.args}
        mapping = {k: v for k, v in self.mod_consts.items() if k not in local}
        if mapping:
            _Subst(mapping, fn).visit(fn)
        if cls is not None:
            if id(cls) not in self._cc_cache:
                cc0 = self._consts(cls.body)
                inst = {t.attr for n in ast.walk(cls) if isinstance(n, (ast.Assign, ast.AugAssign, ast.AnnAssign))
                        for t in assigned_targets(n) if isinstance(t, ast.Attribute)} if cc0 else set()
                self._cc_cache[id(cls)] = {k: v for k, v in cc0.items() if k not in inst}
            cc = self._cc_cache[id(cls)]
            if cc:
                class T(ast.NodeTransformer):
                    def visit_Attribute(self, n: ast.Attribute):
                        self.generic_visit(n)
                        if isinstance(n.ctx, ast.Load) and n.attr in cc and isinstance(n.value, ast.Name) and \
                                n.value.id in ("self", "cls", cls.name):
                            return ast.copy_location(_copy.deepcopy(cc[n.attr]), n)
                        return n
                T().visit(fn)

    # -- copy propagation ------------------------------------------------------------------------
    @staticmethod
    def _copyprop(fn: ast.FunctionDef, local_consts: bool = True) -> None:
        for _ in range(6):
            counts = bound_names(fn)
            params = set(_params(fn))
            order = {id(st): k for k, st in enumerate(x for x in ast.walk(fn) if isinstance(x, ast.stmt))}
            stores_txt: dict[str, int] = {}   # attribute chain -> position of its LAST store in the function
            for s in ast.walk(fn):
                if isinstance(s, (ast.Assign, ast.AugAssign, ast.AnnAssign)):
                    for t in assigned_targets(s):
                        if isinstance(t, ast.Attribute):
                            stores_txt[u(t)] = max(stores_txt.get(u(t), -1), order[id(s)])
            mapping: dict[str, ast.expr] = {}
            for s in stmts_local(fn):
                tgt = None
                if isinstance(s, ast.Assign) and len(s.targets) == 1 and isinstance(s.targets[0], ast.Name):
                    tgt = s.targets[0].id
                elif isinstance(s, ast.AnnAssign) and s.value is not None and isinstance(s.target, ast.Name):
                    tgt = s.target.id
                if tgt is None or counts.get(tgt, 0) != 1 or tgt in params:
                    continue
                e = s.value
                ok = False
                if isinstance(e, ast.Constant):
                    ok = local_consts
                elif isinstance(e, ast.Name):
                    ok = counts.get(e.id, 0) <= 1 and e.id != tgt
                elif isinstance(e, ast.Attribute) and _is_chain(e) and counts.get(_chain_root(e), 0) <= 1 and _chain_root(e) != tgt:
                    # the aliased chain must not be stored at or after the point where the alias is bound
                    ok = not any((txt == u(e) or u(e).startswith(txt + ".")) and pos >= order[id(s)] for txt, pos in stores_txt.items())
                if ok:
                    mapping[tgt] = e
            # drop chains through other mapped names (resolved in the next round)
            mapping = {k: v for k, v in mapping.items() if not (names_in(v) & set(mapping))}
            if not mapping:
                return
            sub = _Subst(mapping, fn)
            sub.visit(fn)
            if not sub.changed:
                return

    # -- helper inlining ---------------------------------------------------------------------------
    def _resolve(self, call: ast.Call, cls, nested: dict[str, ast.FunctionDef], keep: set):
        f = call.func
        if isinstance(f, ast.Attribute) and f.attr.startswith("_") and not f.attr.startswith("__") and f.attr not in keep:
            h = self.lookup_method(cls, f.attr)
            if h is not None:
                static = any(u(d).endswith("staticmethod") for d in h.decorator_list)
                return h, (None if static else f.value)
        if isinstance(f, ast.Name) and f.id.startswith("_") and f.id not in keep:
            h = nested.get(f.id) or self.mod_funcs.get(f.id)
            if h is not None:
                return h, None
        return None

    @staticmethod
    def _inlinable(h: ast.FunctionDef) -> bool:
        a = h.args
        if a.vararg or a.kwarg or a.kwonlyargs or a.posonlyargs:
            return False
        if any(not u(d).endswith("staticmethod") for d in h.decorator_list):
            return False
        body = body_nodoc(h)
        if not body or len(body) > 60:
            return False
        rets = []
        for n in walk_local(h):
            if isinstance(n, (ast.Yield, ast.YieldFrom, ast.Global, ast.Nonlocal, ast.Await)):
                return False
            if isinstance(n, ast.Return):
                rets.append(n)
        return len(rets) == 0 or (len(rets) == 1 and rets[0] is body[-1])

    def _inline(self, fn: ast.FunctionDef, cls, keep: set, nested_source: ast.FunctionDef, enabled: bool = True) -> None:
        nested = {s.name: s for s in nested_source.body if isinstance(s, ast.FunctionDef)}
        caller_names = {n.id for n in ast.walk(fn) if isinstance(n, ast.Name)} | set(_params(fn))
        state = {"k": 0}

        def one(s: ast.stmt):
            call, kind = None, None
            if isinstance(s, ast.Expr) and isinstance(s.value, ast.Call):
                call, kind = s.value, "expr"
            elif isinstance(s, ast.Assign) and isinstance(s.value, ast.Call):
                call, kind = s.value, "assign"
            elif isinstance(s, ast.AnnAssign) and isinstance(s.value, ast.Call) and isinstance(s.target, ast.Name):
                call, kind = s.value, "assign"
            elif isinstance(s, ast.Return) and isinstance(s.value, ast.Call):
                call, kind = s.value, "return"
            if call is None:
                return None
            r = self._resolve(call, cls, nested, keep)
            if r is None:
                return None
            h, recv = r
            if h is fn or h.name == fn.name or not self._inlinable(h):
                return None
            params = [x.arg for x in h.args.args]
            if any(isinstance(a, ast.Starred) for a in call.args) or any(k.arg is None for k in call.keywords):
                return None
            argmap: dict[str, ast.expr] = {}
            names = list(params)
            if recv is not None:
                if not names:
                    return None
                argmap[names[0]] = recv
                names = names[1:]
            if len(call.args) > len(names):
                return None
            for nm, a in zip(names, call.args):
                argmap[nm] = a
            for k in call.keywords:
                if k.arg not in params or k.arg in argmap:
                    return None
                argmap[k.arg] = k.value
            d = h.args.defaults
            for nm, dv in zip(params[len(params) - len(d):], d):
                argmap.setdefault(nm, dv)
            if set(params) - set(argmap):
                return None
            hb = bound_names(h)
            state["k"] += 1
            suffix = f"__{h.name.strip('_')}{state['k'] if state['k'] > 1 else ''}"
            rename: dict[str, str] = {}
            for nm in hb:
                same = nm in params and isinstance(argmap[nm], ast.Name) and argmap[nm].id == nm and hb[nm] == 1
                if same:
                    continue
                if nm in params or nm in caller_names:
                    rename[nm] = nm + suffix
            pre = []
            for p in params:
                if p in rename:
                    pre.append(ast.Assign(targets=[ast.Name(id=rename[p], ctx=ast.Store())], value=_copy.deepcopy(argmap[p])))
            body = [_Rename(rename).visit(_copy.deepcopy(b)) for b in body_nodoc(h)]
            tail: list[ast.stmt] = []
            if body and isinstance(body[-1], ast.Return):
                rv = body.pop().value or ast.Constant(value=None)
            else:
                rv = ast.Constant(value=None)
            if kind == "expr":
                if not isinstance(rv, ast.Constant):
                    tail = [ast.Expr(value=rv)]
            elif kind == "return":
                tail = [ast.Return(value=rv)]
            elif isinstance(s, ast.AnnAssign):
                tail = [ast.Assign(targets=[s.target], value=rv)]
            else:
                tail = [ast.Assign(targets=s.targets, value=rv)]
            new = pre + body + tail
            for x in pre + tail:
                ast.copy_location(x, s)
            caller_names.update(rename.values())
            caller_names.update(hb)
            return new

        def lookup_literal(name: str):
            """Literal tuple/list bound once to `name` in the function or at module level."""
            from ..core.astutil import single_assign_value
            v = single_assign_value(fn, name)
            if v is None and name not in bound_names(fn):
                defs = [st for st in self.mod.tree.body if isinstance(st, (ast.Assign, ast.AnnAssign)) and getattr(st, "value", None) is not None
                        and [u(t) for t in assigned_targets(st)] == [name]]
                v = defs[0].value if len(defs) == 1 else None
            return v

        def block(stmts: list[ast.stmt], allow: bool = True) -> list[ast.stmt]:
            out: list[ast.stmt] = []
            for s in loops_to_comprehensions(stmts):
                if isinstance(s, (ast.FunctionDef, ast.AsyncFunctionDef, ast.ClassDef)):
                    out.append(s)
                    continue
                sp = split_tuple_assign(s) or unroll_generator_assign(s, lookup_literal)
                if sp is not None:
                    out.extend(block(sp, allow))
                    continue
                for fld in ("body", "orelse", "finalbody"):
                    lst = getattr(s, fld, None)
                    if isinstance(lst, list) and lst and isinstance(lst[0], ast.stmt):
                        setattr(s, fld, block(lst, allow))
                for hd in getattr(s, "handlers", []) or []:
                    hd.body = block(hd.body, allow)
                for cs in getattr(s, "cases", []) or []:
                    cs.body = block(cs.body, allow)
                rep = one(s) if (enabled and allow) else None
                out.extend(block(rep, False) if rep is not None else [s])
            return out

        fn.body = block(fn.body)
        ast.fix_missing_locations(fn)



META = {
    "explanation": (
        "Static analysis of ArraySlicer (matrix_operations.py). R1 purity: reaching-definitions over a "
        "hand-built CFG of every (non in-place) binary dunder show that no attribute/item store, setattr or del "
        "reaches an object that may alias a parameter (self included); stores are allowed only on objects bound "
        "to a fresh copy/constructor call. R2: copy() transfers every attribute that any method of the class "
        "stores, either explicitly (new.A = self.A) or through a constructor parameter that __init__ stores "
        "into / derives A from, and passes every constructor parameter from the attribute that stores it. "
        "R3: __matmul__ has an isinstance arm for ndarray, sparse, AdArray, scalar and slicer operands, each "
        "routed to the right kernel (vector kernel on x / x.val / np.full(domain_size, x), matrix kernel on "
        "x / x.jac, AdArray(val, jac) in that order) and a final raising else. R4: each reflected dunder stores "
        "the python symbol of its own operator and its *other* operand on a copy of self and returns that copy; "
        "the slicer arm of __matmul__ does the same on a copy of its operand with self and '@'; the evaluation "
        "string is `self.<operand> <op> <sliced>` (pending operand on the left; an operator table "
        "{symbol: operator.<fn>} applied as TABLE[op](operand, sliced) is checked entry by entry instead), taken iff an "
        "operand is pending (if/else, conditional expression or early return). R7: an operator that stores a pending "
        "operand does so only after looking at an operand that is already pending (known finding D18). R8: outside the owning "
        "classes (ArraySlicer; classes keeping an ArraySlicer in an attribute such as Projection._slicer) slicer state is stored "
        "only on objects the function created itself (constructor call or copy on every path, by reaching definitions); a "
        "store on a parameter or on a component of another object (op.children[1]._slicer = ...) is a finding. All methods are "
        "analysed on normalised deep copies (private one-level helpers inlined, aliases / module constants propagated, "
        "tuple assignments split, .format/% templates as f-strings), so behaviour-preserving refactorings do not "
        "change the verdict. "
        "R5: transpose() swaps domain/range indices and sizes and does not carry the onto shortcut over. "
        "R6: both kernels read with the domain indices, write/size with the range indices/size and agree on the "
        "onto shortcut. Thorough tier: the R1 analysis swept over every class under numerics/ad and "
        "numerics/linalg (R1S: stores on a non-self operand are findings, everything else is a note). "
        "Decides these structural clauses, not the numerical equality with the explicit projection matrix."),
    "rule_text": "one obligation per (binary dunder | attribute | constructor parameter | operand kind | reflected dunder | kernel site)",
    "trusted_base": ["python ast", "sa.core (loader, astutil, cfg)", "Python data model for binary operators"],
    "assumptions": ["X.copy(), copy.copy/deepcopy(X) and constructor calls return objects not aliased with X",
                    "the pending operation is applied only through the eval f-string in __matmul__",
                    "attributes of a slicer are only stored inside the class body"],
    "technique": "AST normalisation (helper inlining, copy propagation) + CFG reaching definitions + alias classification; def-use table agreement between __init__, copy, transpose and the dunders",
}
MIN_INSTANCES = {"R1": 7, "R2": 13, "R3": 5, "R4": 10, "R5": 5, "R6": 5, "R7": 6, "R8": 1}


# ----------------------------------------------------------------------------------------
# reaching definitions + alias classification (module-local helper)
# ----------------------------------------------------------------------------------------

def _params(fn: ast.FunctionDef) -> list[str]:
    a = fn.args
    out = [x.arg for x in a.posonlyargs + a.args + a.kwonlyargs]
    if a.vararg:
        out.append(a.vararg.arg)
    if a.kwarg:
        out.append(a.kwarg.arg)
    return out


def _node_defs(s: ast.AST) -> list[str]:
    """Simple names (re)bound by the CFG node standing for `s`."""
    if isinstance(s, (ast.Assign, ast.AugAssign, ast.AnnAssign, ast.For, ast.AsyncFor, ast.With, ast.AsyncWith)):
        if isinstance(s, ast.AnnAssign) and s.value is None:
            return []
        return [t.id for t in assigned_targets(s) if isinstance(t, ast.Name)]
    if isinstance(s, ast.ExceptHandler) and s.name:
        return [s.name]
    if isinstance(s, (ast.FunctionDef, ast.ClassDef, ast.AsyncFunctionDef)):
        return [s.name]
    if isinstance(s, (ast.Import, ast.ImportFrom)):
        return [(a.asname or a.name).split(".")[0] for a in s.names]
    return []


def _reaching(c: cfgmod.CFG, fn: ast.FunctionDef) -> dict[int, dict[str, frozenset]]:
    """IN state per CFG node: name -> set of defining CFG nodes (cfgmod.ENTRY = parameter binding)."""
    gen = {n: _node_defs(s) for n, s in c.stmt.items()}
    entry_out = {p: frozenset([cfgmod.ENTRY]) for p in _params(fn)}
    IN: dict[int, dict[str, frozenset]] = {n: {} for n in c.g.nodes}
    OUT: dict[int, dict[str, frozenset]] = {n: {} for n in c.g.nodes}
    OUT[cfgmod.ENTRY] = entry_out
    work = list(c.g.nodes)
    while work:
        n = work.pop()
        if n == cfgmod.ENTRY:
            continue
        new_in: dict[str, set] = {}
        for p in c.g.predecessors(n):
            for k, v in OUT[p].items():
                new_in.setdefault(k, set()).update(v)
        fin = {k: frozenset(v) for k, v in new_in.items()}
        out = dict(fin)
        for name in gen.get(n, []):
            out[name] = frozenset([n])
        if fin != IN[n] or out != OUT[n]:
            IN[n], OUT[n] = fin, out
            work.extend(c.g.successors(n))
    return IN


FRESH_METHODS = {"copy", "deepcopy", "__copy__", "__deepcopy__"}


class _Alias:
    """Classifies what a name may refer to at a CFG node: a set of tags
    'fresh' | 'param:<p>' | 'unknown'."""

    def __init__(self, fn: ast.FunctionDef, parts: bool = False):
        self.fn = fn
        self.parts = parts   # report a component of another object (a.b, a[i]) as 'part:<expr>' instead of its root's tags
        self.cfg = cfgmod.build(fn)
        self.IN = _reaching(self.cfg, fn)

    def of_name(self, name: str, node: int, depth: int = 0) -> set[str]:
        defs = self.IN.get(node, {}).get(name)
        if not defs:
            return {"unknown"}  # global / closure / builtin
        out: set[str] = set()
        for d in defs:
            if d == cfgmod.ENTRY:
                out.add(f"param:{name}")
                continue
            s = self.cfg.stmt[d]
            if isinstance(s, ast.Assign) and len(s.targets) == 1 and isinstance(s.targets[0], ast.Name):
                out |= self.of_expr(s.value, d, depth + 1)
            elif isinstance(s, ast.AnnAssign) and s.value is not None and isinstance(s.target, ast.Name):
                out |= self.of_expr(s.value, d, depth + 1)
            else:
                out.add("unknown")
        return out

    def of_expr(self, e: ast.expr, node: int, depth: int = 0) -> set[str]:
        if depth > 12:
            return {"unknown"}
        if isinstance(e, ast.Name):
            return self.of_name(e.id, node, depth)
        if isinstance(e, ast.Call):
            f = e.func
            if isinstance(f, ast.Attribute) and f.attr in FRESH_METHODS:
                return {"fresh"}  # X.copy(), copy.copy(X), copy.deepcopy(X)
            cn = call_name(e) or ""
            if cn == "cast" and len(e.args) == 2:
                return self.of_expr(e.args[1], node, depth + 1)  # typing.cast is the identity
            if cn[:1].isupper():
                return {"fresh"}  # constructor call
            if cn == "type" or (isinstance(f, ast.Call) and call_name(f) == "type"):
                return {"fresh"}  # type(self)(...)
            return {"unknown"}
        if isinstance(e, ast.IfExp):
            return self.of_expr(e.body, node, depth + 1) | self.of_expr(e.orelse, node, depth + 1)
        if isinstance(e, (ast.Attribute, ast.Subscript)) and self.parts:
            return {"part:" + u(e)[:60]}
        if isinstance(e, (ast.Attribute, ast.Subscript)):
            # a component / view of the root object: mutating it mutates the root
            return self.of_expr(_root(e), node, depth + 1) if isinstance(_root(e), ast.Name) else {"unknown"}
        if isinstance(e, (ast.BinOp, ast.UnaryOp, ast.Compare, ast.BoolOp, ast.Constant, ast.List, ast.Tuple,
                          ast.Dict, ast.Set, ast.JoinedStr, ast.ListComp, ast.DictComp, ast.SetComp)):
            return {"fresh"}
        return {"unknown"}

    def mutations(self):
        """Yield (cfg node, stmt, root name, description) for each statement that stores
        into / deletes from an object reachable from a name."""
        for n, s in self.cfg.stmt.items():
            tgts: list[ast.expr] = []
            if isinstance(s, (ast.Assign, ast.AugAssign, ast.AnnAssign)):
                if isinstance(s, ast.AnnAssign) and s.value is None:
                    continue
                tgts = assigned_targets(s)
            elif isinstance(s, ast.Delete):
                tgts = list(s.targets)
            for t in tgts:
                if isinstance(t, (ast.Attribute, ast.Subscript)):
                    r = _root(t)
                    if isinstance(r, ast.Name):
                        kind = "attribute store" if isinstance(t, ast.Attribute) and t.value is r else "in-place item/nested store"
                        yield n, s, r.id, kind
            if isinstance(s, (ast.Expr, ast.Assign, ast.Return)):
                for c in [x for x in walk_local(s) if isinstance(x, ast.Call)]:
                    if call_name(c) in ("setattr", "delattr") and isinstance(c.func, ast.Name) and c.args and isinstance(
                            c.args[0], ast.Name):
                        yield n, s, c.args[0].id, call_name(c)
                    if isinstance(c.func, ast.Attribute) and c.func.attr == "__setattr__" and isinstance(c.func.value, ast.Name):
                        yield n, s, c.func.value.id, "__setattr__"


def _root(e: ast.expr) -> ast.expr:
    while isinstance(e, (ast.Attribute, ast.Subscript)):
        e = e.value
    return e


def _is_binary_dunder(name: str, fn: ast.FunctionDef) -> bool:
    if not (name.startswith("__") and name.endswith("__")):
        return False
    base = name[2:-2]
    if base.startswith("i") and base[1:] in BINARY_BASES and base not in BINARY_BASES:
        return False  # in-place forms may mutate self by definition
    if base in BINARY_BASES or (base.startswith("r") and base[1:] in BINARY_BASES):
        return len(fn.args.posonlyargs + fn.args.args) == 2
    return False


def _purity(fn: ast.FunctionDef):
    """-> (certain: list[(stmt, root, kind, tags)], soft: list[...]) for one dunder.
    certain = store on an object that may alias a parameter; soft = unknown receiver."""
    al = _Alias(fn)
    certain, soft = [], []
    for n, s, rootname, kind in al.mutations():
        tags = al.of_name(rootname, n)
        ptags = sorted(t for t in tags if t.startswith("param:"))
        if ptags:
            certain.append((s, rootname, kind, ptags))
        elif "unknown" in tags:
            soft.append((s, rootname, kind, sorted(tags)))
    return certain, soft


# ----------------------------------------------------------------------------------------
# __init__ facts: which attribute stores / derives from which constructor parameter
# ----------------------------------------------------------------------------------------

def _init_facts(init: ast.FunctionDef):
    """-> (attr_rhs: attr -> list[rhs expr], deps: attr -> set[param], stores: param -> set[attr])."""
    params = [p for p in _params(init) if p != "self"]
    # flow-insensitive: local name -> params it may derive from
    dep: dict[str, set[str]] = {p: {p} for p in params}
    assigns = [s for s in stmts_local(init) if isinstance(s, (ast.Assign, ast.AnnAssign)) and getattr(s, "value", None) is not None]
    def data_names(e: ast.expr) -> set[str]:
        skip = set()
        for n in ast.walk(e):
            if isinstance(n, ast.Compare) and all(isinstance(o, (ast.Is, ast.IsNot)) for o in n.ops) and \
                    all(isinstance(c, ast.Constant) and c.value is None for c in n.comparators):
                skip |= {id(x) for x in ast.walk(n)}
        return {n.id for n in ast.walk(e) if isinstance(n, ast.Name) and id(n) not in skip}

    changed = True
    while changed:
        changed = False
        for s in assigns:
            for t in assigned_targets(s):
                if isinstance(t, ast.Name):
                    d = set()
                    for nm in data_names(s.value):
                        d |= dep.get(nm, set())
                    if not d <= dep.setdefault(t.id, set()):
                        dep[t.id] |= d
                        changed = True
    attr_rhs: dict[str, list[ast.expr]] = {}
    for s in assigns:
        for t in assigned_targets(s):
            if isinstance(t, ast.Attribute) and isinstance(t.value, ast.Name) and t.value.id == "self":
                attr_rhs.setdefault(t.attr, []).append(s.value)
    deps = {a: set().union(*[set().union(*[dep.get(nm, set()) for nm in data_names(r)] or [set()]) for r in rs])
            for a, rs in attr_rhs.items()}
    stores: dict[str, set[str]] = {p: set() for p in params}
    for a, rs in attr_rhs.items():
        for r in rs:
            p = _primary_param(r, params)
            if p:
                stores[p].add(a)
    return attr_rhs, deps, stores


def _primary_param(r: ast.expr, params: list[str]) -> str | None:
    """`p`, `cast(T, p)`, `p if p is not None else <default>`: the attribute stores parameter p."""
    if isinstance(r, ast.Name) and r.id in params:
        return r.id
    if isinstance(r, ast.Call) and call_name(r) == "cast" and len(r.args) == 2:
        return _primary_param(r.args[1], params)
    if isinstance(r, ast.IfExp):
        p = _primary_param(r.body, params)
        if p and p in names_in(r.test):
            return p
        p = _primary_param(r.orelse, params)
        if p and p in names_in(r.test):
            return p
    return None


def _self_attr_source(e: ast.expr) -> str | None:
    """`self.A` / `self.A.copy()` / `np.array(self.A)` / `np.copy(self.A)` -> 'A'."""
    if isinstance(e, ast.Attribute) and isinstance(e.value, ast.Name) and e.value.id == "self":
        return e.attr
    if isinstance(e, ast.Call):
        if isinstance(e.func, ast.Attribute) and e.func.attr == "copy" and not e.args:
            return _self_attr_source(e.func.value)
        if call_name(e) in ("array", "copy", "asarray", "deepcopy") and len(e.args) >= 1:
            return _self_attr_source(e.args[0])
    return None


def _ctor_call(fn: ast.FunctionDef, clsname: str):
    """The `<local> = ClassName(...)` statement of a method; -> (local name, call) or None."""
    for s in stmts_local(fn):
        if isinstance(s, (ast.Assign, ast.AnnAssign)) and isinstance(getattr(s, "value", None), ast.Call):
            c = s.value
            f = c.func
            is_ctor = (isinstance(f, ast.Name) and f.id == clsname) or u(f) in ("type(self)", "self.__class__")
            tg = assigned_targets(s)
            if is_ctor and len(tg) == 1 and isinstance(tg[0], ast.Name):
                return tg[0].id, c
    for s in stmts_local(fn):
        if isinstance(s, ast.Return) and isinstance(s.value, ast.Call):
            f = s.value.func
            if (isinstance(f, ast.Name) and f.id == clsname) or u(f) in ("type(self)", "self.__class__"):
                return None, s.value
    return None


def _ctor_args(call: ast.Call, init: ast.FunctionDef) -> dict[str, ast.expr]:
    params = [p for p in _params(init) if p != "self"]
    out: dict[str, ast.expr] = {}
    for i, a in enumerate(call.args):
        if isinstance(a, ast.Starred):
            raise Undecided("constructor call with *args")
        if i < len(params):
            out[params[i]] = a
    for k in call.keywords:
        if k.arg is None:
            raise Undecided("constructor call with **kwargs")
        out[k.arg] = k.value
    return out


# ----------------------------------------------------------------------------------------

def _r7_pending_slot(ctx: Ctx, mod, meths, pend) -> None:
    """R7 (added by the coordinator): the pending operand/operation is a single slot.  A method that stores a new
    pending operand on a copy of a slicer must either refuse / compose when the copied slicer already carries a
    pending operation (the source's pending attribute is read in a guard or in the stored value), or the earlier
    pending operation is silently dropped: `2.0 * (3.0 * S) @ y` then equals `2.0 * (S @ y)`."""
    operand_attr = pend[0]
    n = 0
    for name, fn in meths.items():
        if not _is_binary_dunder(name, fn):
            continue  # helpers are inlined into the operators (one level); findings are reported on the operators
        order = {id(st): k for k, st in enumerate(stmts_local(fn))}
        stores_ = [st for st in stmts_local(fn) if isinstance(st, ast.Assign) and any(
            isinstance(t, ast.Attribute) and t.attr == operand_attr for t in st.targets)]
        if not stores_:
            continue
        n += 1
        st = stores_[0]
        # a read of the pending operand at or before the store (a guard, or composition in the stored value);
        # the evaluation site of __matmul__ comes after its slicer arm and does not count
        guarding = []
        for s2 in stmts_local(fn):
            if order[id(s2)] > order[id(st)]:
                continue
            heads = [s2.test] if isinstance(s2, (ast.If, ast.While)) else ([] if isinstance(s2, (ast.For, ast.With, ast.Try)) else [s2])
            for h in heads:
                guarding += [nd for nd in ast.walk(h) if isinstance(nd, ast.Attribute) and nd.attr == operand_attr and isinstance(nd.ctx, ast.Load)]
        ctx.check("R7", bool(guarding), mod, f"{CLS}.{name}", st,
                  f"{name} stores a new pending operand on a copy without looking at a pending operation the copied slicer may already "
                  f"carry: the earlier operation is dropped (e.g. 2.0 * (3.0 * S) @ y gives 2.0 * (S @ y); S0 @ (5.0 * S) @ y loses the 5.0)",
                  construct=f"{CLS}.{name}: pending slot overwritten")
    if n < 6:
        raise AnchorError(f"{CLS}: expected at least 6 operators storing a pending operand, found {n}")


OPS = "src/porepy/numerics/ad/operators.py"


def _r8_foreign_state_stores(ctx: Ctx, slicer_attrs: set[str]) -> None:
    """R8: slicer state is owned by its object.  Outside the owning classes (ArraySlicer for its own attributes; the
    classes that keep an ArraySlicer in an attribute, e.g. Projection._slicer, for that attribute) a function may store
    into such state only on an object it created itself: on every path the target is bound to a constructor call or a
    copy (copy.copy / copy.deepcopy / .copy()).  A store on a parameter, on a component of another object
    (op.children[1]) or on an alias of one rewires a slicer that other operator trees still use."""
    scope = SWEEP_DIRS if ctx.tier != "thorough" else ("src/porepy",)
    mods = [m for d in scope for m in ctx.repo.modules(d)]
    if not any(m.rel == OPS for m in mods):
        raise AnchorError(f"{OPS} not in the analysed scope")
    # attributes that hold an ArraySlicer, with the classes that own them
    holders: dict[str, set[str]] = {}
    for m in mods:
        for cq, cls in m.classes():
            for fn in methods(cls).values():
                for st in stmts_local(fn):
                    if isinstance(st, (ast.Assign, ast.AnnAssign)) and getattr(st, "value", None) is not None:
                        txt = u(st.value) + (u(st.annotation) if isinstance(st, ast.AnnAssign) else "")
                        if CLS in txt:
                            for t in assigned_targets(st):
                                if isinstance(t, ast.Attribute) and u(t.value) == "self":
                                    holders.setdefault(t.attr, set()).add(cq.split(".")[-1])
    if not holders:
        raise AnchorError("no attribute holding an ArraySlicer found (Projection._slicer expected)")
    owners = {a: {CLS} for a in slicer_attrs}
    for a, cs in holders.items():
        owners.setdefault(a, set()).update(cs)
    ctx.sample({"rule": "R8", "slicer_holding_attributes": {a: sorted(c) for a, c in holders.items()}})
    n = 0
    for m in mods:
        subclasses = {cq.split(".")[-1]: {(dotted(b) or "").split(".")[-1] for b in cls.bases} for cq, cls in m.classes()}
        for q, fn in m.functions():
            cls_of = q.split(".")[-2] if "." in q else None
            sites = []
            for st in stmts_local(fn):
                tgts = assigned_targets(st) if isinstance(st, (ast.Assign, ast.AugAssign, ast.AnnAssign)) and getattr(st, "value", True) is not None else []
                for t in tgts:
                    if isinstance(t, ast.Attribute) and t.attr in owners:
                        sites.append((st, t.value, t.attr))
                for c in (calls_in(st) if isinstance(st, ast.Expr) else []):
                    if isinstance(c.func, ast.Name) and c.func.id == "setattr" and len(c.args) == 3 and isinstance(c.args[1], ast.Constant) \
                            and c.args[1].value in owners:
                        sites.append((st, c.args[0], c.args[1].value))
            if not sites:
                continue
            al = None
            for st, recv, attr in sites:
                own = owners[attr]
                if cls_of is not None and (cls_of in own or (subclasses.get(cls_of, set()) & own)):
                    continue  # the owning class manages its own state (R1/R2/R4 look at ArraySlicer itself)
                n += 1
                if al is None:
                    al = _Alias(fn, parts=True)
                node = al.cfg.node_for(st)
                if isinstance(recv, ast.Name):
                    tags = al.of_name(recv.id, node)
                else:
                    tags = al.of_expr(recv, node)
                foreign = sorted(t for t in tags if t.startswith(("param:", "part:")))
                if not foreign and tags != {"fresh"}:
                    raise Undecided(f"{m.rel}:{q}: `{u(st)}` stores slicer state on `{u(recv)}` whose origin is not a recognised "
                                    f"constructor call / copy / parameter / component ({sorted(tags)})")
                what = "; ".join(("the parameter " + t[6:]) if t.startswith("param:") else ("the existing object " + t[5:]) for t in foreign)
                ctx.check("R8", not foreign, m, q, st,
                          f"`{u(st)}` replaces slicer state (`{attr}`, owned by {sorted(own)}) of an object this function did not create: "
                          f"`{u(recv)}` may be {what}; every other operator tree using that object now evaluates differently. Store on a copy "
                          f"(copy.copy / .copy()) or a new object", construct=u(st), facts={"receiver": u(recv), "origin": sorted(tags)},
                          desc=f"`{u(st)}`: the receiver is created in this function (copy / constructor) on every path")
    if n == 0:
        raise AnchorError("no store into slicer state outside the owning classes found (sum_projection_list expected)")


def run(ctx: Ctx) -> None:
    mod = ctx.repo.module(MATOPS)
    cls = mod.cls(CLS)
    norm = Normalizer(mod)
    # every method with private one-level helpers inlined, aliases/constants propagated (deep copies)
    meths = norm.methods(cls, inline=True, keep=KERNELS)
    for need in ("__init__", "copy", "transpose", "__matmul__", "_slice_vector", "_slice_matrix"):
        if need not in meths:
            raise AnchorError(f"{MATOPS}:{CLS}.{need} missing")
    init = meths["__init__"]
    attr_rhs, deps, stores = _init_facts(init)
    ctor_params = [p for p in _params(init) if p != "self"]
    if not all(stores.get(p) for p in ctor_params):
        raise Undecided(f"{CLS}.__init__: cannot tell which attribute stores parameter(s) "
                        f"{[p for p in ctor_params if not stores.get(p)]}")
    ctx.sample({"rule": "init", "stores": {p: sorted(a) for p, a in stores.items()},
                "derived": {a: sorted(d) for a, d in deps.items()}})

    _r1_purity(ctx, mod, cls, meths)
    _r2_copy(ctx, mod, cls, meths, attr_rhs, deps, stores, ctor_params)
    pend = _r4_eval_site(ctx, mod, meths)          # (operand_attr, operation_attr, result_var)
    _r3_dispatch(ctx, mod, meths, pend, stores)
    _r4_reflected(ctx, mod, meths, pend)
    onto_attrs = _r6_kernels(ctx, mod, meths, stores, deps)
    _r5_transpose(ctx, mod, meths, stores, ctor_params, onto_attrs)
    _r7_pending_slot(ctx, mod, meths, pend)
    _r8_foreign_state_stores(ctx, set(_class_attrs_of(meths)))
    if ctx.tier == "thorough":
        _sweep(ctx)
        _notes(ctx, meths, pend)


# ---------------- R1 ---------------------------------------------------------------------

def _r1_purity(ctx: Ctx, mod, cls, meths) -> None:
    for name, fn in meths.items():
        if not _is_binary_dunder(name, fn):
            continue
        certain, soft = _purity(fn)
        if soft:
            s, rootname, kind, tags = soft[0]
            raise Undecided(f"{CLS}.{name}: {kind} on `{rootname}` whose origin is not a recognised "
                            f"copy/constructor/parameter ({u(s)})")
        q = f"{CLS}.{name}"
        if not certain:
            ctx.check("R1", True, mod, q, fn, "binary operator must not mutate its operands", construct=f"{name}: no store on an operand")
            continue
        for s, rootname, kind, ptags in certain:
            who = ", ".join(t.split(":")[1] for t in ptags)
            ctx.check("R1", False, mod, q, s,
                      f"{name} performs an {kind} on `{rootname}`, which may be the operand `{who}` itself: the operator "
                      f"mutates its operand (every later use of that slicer sees the pending state); work on a copy",
                      construct=u(s), facts={"root": rootname, "aliases": ptags})


# ---------------- R2 ---------------------------------------------------------------------

def _class_attrs_of(meths: dict) -> dict[str, list[str]]:
    """attribute name -> methods storing it (on any receiver; receivers inside the class
    body are slicers: self, copies, transposes)."""
    out: dict[str, list[str]] = {}
    for name, fn in meths.items():
        for s in stmts_local(fn):
            if isinstance(s, ast.AnnAssign) and s.value is None:
                continue
            for t in assigned_targets(s):
                if isinstance(t, ast.Attribute) and isinstance(t.value, ast.Name):
                    out.setdefault(t.attr, []).append(name)
            for a, _src in _setattr_loop(s):
                out.setdefault(a, []).append(name)
    return out


def _setattr_loop(s: ast.stmt) -> list[tuple[str, ast.Call]]:
    """`for n in ("a", "b"): setattr(T, n, getattr(S, n))` -> [("a", call), ("b", call)]."""
    if not (isinstance(s, ast.For) and isinstance(s.target, ast.Name) and isinstance(s.iter, (ast.Tuple, ast.List))
            and all(isinstance(e, ast.Constant) and isinstance(e.value, str) for e in s.iter.elts)):
        return []
    out = []
    for st in s.body:
        if isinstance(st, ast.Expr) and isinstance(st.value, ast.Call) and isinstance(st.value.func, ast.Name) \
                and st.value.func.id == "setattr" and len(st.value.args) == 3 and u(st.value.args[1]) == s.target.id:
            out += [(e.value, st.value) for e in s.iter.elts]
    return out


def _r2_copy(ctx: Ctx, mod, cls, meths, attr_rhs, deps, stores, ctor_params) -> None:
    fn = meths["copy"]
    q = f"{CLS}.copy"
    attrs = _class_attrs_of(meths)
    if len(attrs) < 3:
        raise AnchorError(f"{CLS}: attribute stores not found")
    rets = [s for s in stmts_local(fn) if isinstance(s, ast.Return)]
    # form (b): return copy.copy(self) / copy.deepcopy(self): transfers everything
    if len(rets) == 1 and isinstance(rets[0].value, ast.Call) and dotted(rets[0].value.func) in ("copy.copy", "copy.deepcopy") \
            and [u(a) for a in rets[0].value.args][:1] == ["self"]:
        for a in sorted(attrs):
            ctx.check("R2", True, mod, q, rets[0], f"copy() transfers {a}", construct=f"copy transfers {a}")
        for p in ctor_params:
            ctx.check("R2", True, mod, q, rets[0], f"copy() preserves {p}", construct=f"copy passes {p}")
        return
    cc = _ctor_call(fn, CLS)
    if cc is None:
        raise Undecided(f"{q}: neither a constructor call nor copy.copy/deepcopy(self)")
    new, call = cc
    if new is None:
        new = "<returned>"
    elif not any(isinstance(r.value, ast.Name) and r.value.id == new for r in rets):
        raise Undecided(f"{q}: constructed object `{new}` is not what is returned")
    args = _ctor_args(call, meths["__init__"])
    passed_ok: set[str] = set()
    for p in ctor_params:
        e = args.get(p)
        src = _self_attr_source(e) if e is not None else None
        ok = src is not None and src in stores[p]
        if ok:
            passed_ok.add(p)
        if e is not None and src is None:
            raise Undecided(f"{q}: constructor argument {p}={u(e)} is not an attribute of self")
        msg = (f"copy() does not pass constructor parameter `{p}` (the copy recomputes it from defaults)" if e is None else
               f"copy() passes {p}={u(e)}, but __init__ stores `{p}` in {sorted(stores[p])}")
        ctx.check("R2", ok, mod, q, call, msg, construct=f"copy passes {p}" + ("" if ok else f" <- {u(e) if e is not None else 'missing'}"),
                  facts={"param": p, "arg": u(e) if e is not None else None, "stored_in": sorted(stores[p])},
                  desc=f"copy() passes constructor parameter {p} from the attribute that stores it")
    explicit: dict[str, ast.stmt] = {}
    looped: dict[str, ast.stmt] = {}
    for s in stmts_local(fn):
        if isinstance(s, ast.Assign):
            for t in s.targets:
                if isinstance(t, ast.Attribute) and isinstance(t.value, ast.Name) and t.value.id == new:
                    explicit[t.attr] = s
        for a, call in _setattr_loop(s):
            v = call.args[2]
            same = (u(call.args[0]) == new and isinstance(v, ast.Call) and isinstance(v.func, ast.Name) and v.func.id == "getattr"
                    and [u(x) for x in v.args] == ["self", u(call.args[1])])
            if not same:
                raise Undecided(f"{q}: attribute loop `{u(call)}` is not setattr({new}, name, getattr(self, name))")
            looped[a] = s
    for a in sorted(attrs):
        if a in looped and a not in explicit:
            ctx.check("R2", True, mod, q, looped[a], "", construct=f"copy transfers {a}", desc=f"copy() transfers {a} in an attribute loop")
            continue
        if a in explicit:
            src = _self_attr_source(explicit[a].value)
            ok = src == a
            if src is None:
                raise Undecided(f"{q}: {u(explicit[a])} is not a transfer from self")
            ctx.check("R2", ok, mod, q, explicit[a], f"copy() sets {a} from self.{src} (must be self.{a})",
                      construct=f"copy transfers {a}" + ("" if ok else f" <- self.{src}"),
                      desc=f"copy() transfers {a} explicitly")
            continue
        d = deps.get(a)
        via_ctor = bool(d) and d <= passed_ok
        why = ("it is initialised to a constant in __init__" if a in attr_rhs and not d else
               "it is never set by __init__" if a not in attr_rhs else
               f"it derives from constructor parameter(s) {sorted(d - passed_ok)} that copy() does not pass faithfully")
        ctx.check("R2", via_ctor, mod, q, fn,
                  f"copy() does not transfer `{a}` (stored by {sorted(set(attrs[a]))}): {why}, so the copy silently "
                  f"resets it", construct=f"copy transfers {a}" + ("" if via_ctor else " <- missing"),
                  facts={"attr": a, "derives_from": sorted(d or []), "explicit": sorted(explicit)},
                  desc=f"copy() transfers {a} through constructor parameter(s) {sorted(d or [])}")
    ctx.sample({"rule": "R2", "attributes": sorted(attrs), "explicit": sorted(explicit), "via_ctor": sorted(passed_ok)})


# ---------------- R4 (evaluation site) -----------------------------------------------------

OPERATOR_FN = {"add": "add", "sub": "sub", "mul": "mul", "truediv": "truediv", "pow": "pow", "matmul": "matmul",
               "floordiv": "floordiv", "mod": "mod"}


def _application_site(mod, fn: ast.FunctionDef):
    """Where the pending operation is applied: -> (node, left expr, right expr, operation expr, table | None).
    Forms: eval(f"<left> {<op>} <right>")  |  TABLE[<op>](<left>, <right>) with a module-level dict
    {symbol: operator.<function>}."""
    for c in calls_in(fn):
        if isinstance(c.func, ast.Name) and c.func.id == "eval" and c.args:
            js = c.args[0]
            if not isinstance(js, ast.JoinedStr):
                raise Undecided(f"{CLS}.{fn.name}: eval argument is not an f-string / format of a literal template")
            fmt = [v for v in js.values if isinstance(v, ast.FormattedValue)]
            if len(fmt) != 1:
                raise Undecided(f"{CLS}.{fn.name}: eval string must interpolate exactly the operation symbol")
            text = "".join(" +__OP__+ " if isinstance(v, ast.FormattedValue) else str(v.value) for v in js.values)
            try:
                tree = ast.parse(text.strip(), mode="eval").body
            except SyntaxError:
                raise Undecided(f"{CLS}.{fn.name}: eval text does not parse as `<a> <op> <b>`")
            if not (isinstance(tree, ast.BinOp) and isinstance(tree.left, ast.BinOp) and u(tree.left.right) == "__OP__"):
                raise Undecided(f"{CLS}.{fn.name}: eval text is not of the form `<a> <op> <b>`")
            return c, tree.left.left, tree.right, fmt[0].value, None
        if isinstance(c.func, ast.Subscript) and isinstance(c.func.value, ast.Name) and len(c.args) == 2 and not c.keywords:
            tname = c.func.value.id
            tdef = [st for st in mod.tree.body if isinstance(st, (ast.Assign, ast.AnnAssign)) and getattr(st, "value", None) is not None
                    and [u(t) for t in assigned_targets(st)] == [tname]]
            if len(tdef) == 1 and isinstance(tdef[0].value, ast.Dict) and all(isinstance(k, ast.Constant) for k in tdef[0].value.keys):
                table = {k.value: v for k, v in zip(tdef[0].value.keys, tdef[0].value.values)}
                return c, c.args[0], c.args[1], c.func.slice, (tname, table, tdef[0])
    return None


def _r4_eval_site(ctx: Ctx, mod, meths):
    from ..core.astutil import parent_map, single_assign_value
    fn = meths["__matmul__"]
    site = _application_site(mod, fn)
    if site is None:
        # the evaluation may have been moved into a (non-inlinable) helper called from __matmul__
        for c in calls_in(fn):
            if isinstance(c.func, ast.Attribute) and u(c.func.value) == "self" and c.func.attr in meths and c.func.attr != "__matmul__":
                site = _application_site(mod, meths[c.func.attr])
                if site is not None:
                    fn = meths[c.func.attr]
                    break
    q = f"{CLS}.{fn.name}"
    if site is None:
        raise Undecided(f"{CLS}.__matmul__: no site applying the pending operation (eval of an f-string / operator table) found")
    ev, left, right, opexpr, table = site

    def as_self_attr(e: ast.expr) -> str | None:
        if isinstance(e, ast.Name):
            v = single_assign_value(fn, e.id)
            if v is not None:
                e = v
        return e.attr if isinstance(e, ast.Attribute) and u(e.value) == "self" else None

    operation_attr = as_self_attr(opexpr)
    if operation_attr is None:
        raise Undecided(f"{q}: the applied operation `{u(opexpr)}` is not an attribute of self")
    sides = {"left": left, "right": right}
    attr_side = [k for k, v in sides.items() if as_self_attr(v) is not None]
    name_side = [k for k, v in sides.items() if isinstance(v, ast.Name) and as_self_attr(v) is None]
    if len(attr_side) != 1 or len(name_side) != 1:
        raise Undecided(f"{q}: operands of the pending operation are not (self.<pending operand>, <local result>)")
    operand_attr = as_self_attr(sides[attr_side[0]])
    res_var = sides[name_side[0]].id
    ok = attr_side[0] == "left"
    ctx.check("R4", ok, mod, q, ev,
              f"pending operation evaluates `{u(left)} <op> {u(right)}`; the reflected dunders store the LEFT operand "
              f"(`other <op> S @ y`), so the order must be self.{operand_attr} <op> {res_var}",
              construct=f"eval order: {'self.' + operand_attr if ok else res_var} <op> {res_var if ok else 'self.' + operand_attr}",
              facts={"left": u(left), "right": u(right)})
    if table is not None:
        tname, entries, tdef = table
        inv = {v: k for k, v in PY_SYMBOL.items()}
        bad = []
        for sym, fexpr in entries.items():
            d = dotted(fexpr)
            if d is None or not d.startswith("operator.") or sym not in inv:
                raise Undecided(f"{q}: entry {sym!r}: {u(fexpr)} of {tname} is not a python operator symbol mapped to operator.<function>")
            if d.split(".")[1] != OPERATOR_FN.get(inv[sym]):
                bad.append(f"{sym!r} -> {d}")
        ctx.check("R4", not bad, mod, "<module>", tdef, f"operator table {tname} maps {bad}: the stored symbol is applied as a different operation",
                  construct=f"{tname}: " + ("symbols match operator functions" if not bad else "; ".join(bad)))
    # taken iff an operand is pending: enclosing if / conditional expression, or an early return before the site
    pm = parent_map(fn)
    pending_attrs = (f"self.{operand_attr}", f"self.{operation_attr}")

    def none_test(t: ast.expr):
        """`self.<pending> is None` -> 'is' ; `is not None` -> 'isnot' (one leading `not` flips)."""
        flip = False
        for _ in range(4):
            while isinstance(t, ast.UnaryOp) and isinstance(t.op, ast.Not):
                t, flip = t.operand, not flip
            if isinstance(t, ast.Name) and single_assign_value(fn, t.id) is not None:   # boolean temporary
                t = single_assign_value(fn, t.id)
            else:
                break
        if isinstance(t, ast.Compare) and len(t.ops) == 1 and u(t.left) in pending_attrs \
                and isinstance(t.comparators[0], ast.Constant) and t.comparators[0].value is None and isinstance(t.ops[0], (ast.Is, ast.IsNot)):
            isnot = isinstance(t.ops[0], ast.IsNot)
            return "isnot" if isnot != flip else "is"
        return None

    cur: ast.AST = ev
    form = in_body = None
    other_returns: list[str] = []
    guard_node = None
    while cur in pm:
        par = pm[cur]
        if isinstance(par, ast.IfExp) and cur is not par.test and none_test(par.test):
            form, in_body, guard_node = none_test(par.test), cur is par.body, par
            other_returns = [u(par.orelse if in_body else par.body)]
            break
        if isinstance(par, ast.If) and none_test(par.test) and not any(cur is x for x in [par.test]):
            in_body = any(cur is x for x in par.body)
            form, guard_node = none_test(par.test), par
            other = par.orelse if in_body else par.body
            other_returns = [u(r.value) if r.value is not None else "None" for b in other for r in ast.walk(b) if isinstance(r, ast.Return)]
            if not other:   # `if pending: return eval(...)` followed by `return sliced`
                blk = fn.body
                if any(x is par for x in blk):
                    after = blk[[k for k, x in enumerate(blk) if x is par][0] + 1:]
                    other_returns = [u(r.value) if r.value is not None else "None" for b in after for r in ast.walk(b) if isinstance(r, ast.Return)]
            break
        cur = par
    if form is None:
        # early-return form:  if <nothing pending>: return <sliced>   ...   return eval(...)
        evtop = [x for x in fn.body if ev in list(ast.walk(x))]
        prev = fn.body[:[k for k, x in enumerate(fn.body) if x is evtop[0]][0]] if evtop else []
        cand = [x for x in prev if isinstance(x, ast.If) and not x.orelse and x.body and isinstance(x.body[-1], ast.Return) and none_test(x.test)]
        if len(cand) != 1:
            raise Undecided(f"{q}: the pending operation is not applied under a recognisable `is (not) None` guard of the pending state")
        guard_node = cand[0]
        # the site runs when the early-return test is false
        form, in_body = none_test(cand[0].test), False
        other_returns = [u(r.value) if r.value is not None else "None" for r in cand[0].body if isinstance(r, ast.Return)]
    taken_when_pending = (form == "isnot") == bool(in_body)
    plain_ok = bool(other_returns) and all(x == res_var for x in other_returns)
    ctx.check("R4", taken_when_pending and plain_ok, mod, q, guard_node,
              "the pending operation must be applied exactly when an operand is pending, and the plain sliced result "
              "returned otherwise", construct=f"pending guard: applied when pending={taken_when_pending}, otherwise returns {other_returns}",
              facts={"form": form, "site_in_body": in_body, "other_branch_returns": other_returns})
    # the result of the application is what is returned
    st = ev
    while st in pm and not isinstance(st, ast.stmt):
        st = pm[st]
    ok_ret = False
    if isinstance(st, ast.Return):
        ok_ret = True
    elif isinstance(st, (ast.Assign, ast.AnnAssign)) and len(assigned_targets(st)) == 1 and isinstance(assigned_targets(st)[0], ast.Name):
        tn = assigned_targets(st)[0].id
        ok_ret = any(isinstance(r, ast.Return) and isinstance(r.value, ast.Name) and r.value.id == tn for r in walk_local(fn))
    ctx.check("R4", ok_ret, mod, q, st, "the result of the pending operation must be returned", construct="pending result returned")
    ctx.sample({"rule": "R4", "operand_attr": operand_attr, "operation_attr": operation_attr, "result_var": res_var,
                "form": "operator table" if table else "eval"})
    return operand_attr, operation_attr, res_var


# ---------------- R3 -----------------------------------------------------------------------

def _isinstance_types(test: ast.expr, var: str) -> set[str] | None:
    if isinstance(test, ast.Call) and call_name(test) == "isinstance" and len(test.args) == 2 and u(test.args[0]) == var:
        t = test.args[1]
        elts = t.elts if isinstance(t, ast.Tuple) else [t]
        out = set()
        for e in elts:
            d = dotted(e)
            if d is None:
                return None
            out.add(d.split(".")[-1])
        return out
    return None


def _arms(fn: ast.FunctionDef, var: str):
    """Flatten every if/elif chain over isinstance(var, ...) at the top level of fn:
    -> (arms: list[(types, body, if-node)], else_bodies: list[list[stmt]])."""
    arms, elses = [], []
    body = body_nodoc(fn)
    last_arm_pos = -1
    for pos, s in enumerate(body):
        cur = s
        while isinstance(cur, ast.If) and _isinstance_types(cur.test, var) is not None:
            arms.append((_isinstance_types(cur.test, var), cur.body, cur))
            last_arm_pos = pos
            if len(cur.orelse) == 1 and isinstance(cur.orelse[0], ast.If):
                cur = cur.orelse[0]
            else:
                if cur.orelse:
                    elses.append(cur.orelse)
                break
    # `if isinstance(..): return ...` sequences: what follows the last arm plays the role of the else branch
    if arms and not elses and all(b and isinstance(b[-1], (ast.Return, ast.Raise)) for _, b, _ in arms):
        tail = body[last_arm_pos + 1:]
        if tail:
            elses.append(tail)
    return arms, elses


def _arm_result(body: list[ast.stmt], res_var: str | None = None) -> ast.expr | None:
    """Expression the arm produces (its last assignment / what it returns), arm-local temporaries inlined."""
    env: dict[str, ast.expr] = {}
    last = None
    for s in body:
        if isinstance(s, ast.Assign) and len(s.targets) == 1 and isinstance(s.targets[0], ast.Name):
            val = subst(s.value, env)
            env[s.targets[0].id] = val  # type: ignore[assignment]
            last = val
        elif isinstance(s, ast.AnnAssign) and s.value is not None and isinstance(s.target, ast.Name):
            val = subst(s.value, env)
            env[s.target.id] = val  # type: ignore[assignment]
            last = val
        elif isinstance(s, ast.Return) and s.value is not None:
            return subst(s.value, env)  # type: ignore[return-value]
        elif isinstance(s, (ast.Expr, ast.Pass)) or (isinstance(s, ast.AnnAssign) and s.value is None):
            continue
        else:
            return None
    return last  # type: ignore[return-value]


def _kernel_call(e: ast.expr):
    """self._slice_X(arg) -> (X-method name, arg)."""
    if isinstance(e, ast.Call) and isinstance(e.func, ast.Attribute) and u(e.func.value) == "self" and len(e.args) == 1 \
            and not e.keywords:
        return e.func.attr, e.args[0]
    return None


def _r3_dispatch(ctx: Ctx, mod, meths, pend, stores) -> None:
    fn = meths["__matmul__"]
    q = f"{CLS}.__matmul__"
    _, _, res_var = pend
    ps = _params(fn)
    if len(ps) != 2:
        raise AnchorError(f"{q}: expected (self, operand)")
    x = ps[1]
    arms, elses = _arms(fn, x)
    if len([a for a in arms if CLS not in a[0]]) < 3:
        # the dispatch may have been extracted into a helper that __matmul__ calls with its operand
        for c in calls_in(fn):
            if isinstance(c.func, ast.Attribute) and u(c.func.value) == "self" and c.func.attr in meths and c.func.attr not in KERNELS \
                    and any(u(a) == x for a in c.args):
                h = meths[c.func.attr]
                hx = _params(h)[1 + [u(a) for a in c.args].index(x)] if len(_params(h)) > 1 + [u(a) for a in c.args].index(x) else None
                if hx is None:
                    continue
                ha, he = _arms(h, hx)
                if len(ha) >= 3:
                    arms = [a for a in arms if CLS in a[0]] + ha
                    elses, fn, q, x = he, h, f"{CLS}.{c.func.attr}", hx
                    break
    if len([a for a in arms if CLS not in a[0]]) < 3:
        raise AnchorError(f"{q}: isinstance dispatch over `{x}` not found")
    VEC, MAT = "_slice_vector", "_slice_matrix"
    dom_size_attrs = stores.get("domain_size", set())
    kinds = {
        "dense ndarray": lambda ts: "ndarray" in ts,
        "sparse matrix": lambda ts: "spmatrix" in ts or "sparray" in ts,
        "AdArray": lambda ts: "AdArray" in ts,
        "scalar": lambda ts: "float" in ts or "int" in ts,
    }
    for kind, pred in kinds.items():
        hit = [(ts, body, node) for ts, body, node in arms if pred(ts)]
        if not hit:
            ctx.check("R3", False, mod, q, fn, f"__matmul__ has no arm for a {kind} operand (falls to the raising else)",
                      construct=f"dispatch arm: {kind} <- missing", facts={"arms": [sorted(t) for t, _, _ in arms]})
            continue
        for ts, body, node in hit:
            if CLS in ts:
                continue
            e = _arm_result(body)
            if e is None:
                raise Undecided(f"{q}: cannot extract the result of the {kind} arm")
            ok, want, got = True, "", u(e)
            if kind == "dense ndarray":
                want = f"self.{VEC}({x})"
                kc = _kernel_call(e)
                if kc is None or kc[0] not in (VEC, MAT):
                    raise Undecided(f"{q}: {kind} arm does not call a slicing kernel: {got}")
                ok = kc[0] == VEC and u(kc[1]) == x
            elif kind == "sparse matrix":
                want = f"self.{MAT}({x})"
                kc = _kernel_call(e)
                if kc is None or kc[0] not in (VEC, MAT):
                    raise Undecided(f"{q}: {kind} arm does not call a slicing kernel: {got}")
                ok = kc[0] == MAT and u(kc[1]) == x
            elif kind == "AdArray":
                want = f"AdArray(self.{VEC}({x}.val), self.{MAT}({x}.jac))"
                if not (isinstance(e, ast.Call) and call_name(e) == "AdArray"):
                    raise Undecided(f"{q}: AdArray arm does not build an AdArray: {got}")
                a_val = e.args[0] if len(e.args) > 0 else kwarg(e, "val")
                a_jac = e.args[1] if len(e.args) > 1 else kwarg(e, "jac")
                kv, kj = (_kernel_call(a_val) if a_val is not None else None), (_kernel_call(a_jac) if a_jac is not None else None)
                if kv is None or kj is None:
                    raise Undecided(f"{q}: AdArray arm arguments are not kernel calls: {got}")
                ok = (kv[0] == VEC and u(kv[1]) == f"{x}.val" and kj[0] == MAT and u(kj[1]) == f"{x}.jac")
            else:  # scalar
                want = f"self.{VEC}(np.full(self.<domain size>, {x}))"
                kc = _kernel_call(e)
                if kc is None or kc[0] not in (VEC, MAT):
                    raise Undecided(f"{q}: scalar arm does not call a slicing kernel: {got}")
                arg = kc[1]
                from ..core.astutil import arg_or_kw
                size = arg_or_kw(arg, 0, "shape") if isinstance(arg, ast.Call) else None
                fill = arg_or_kw(arg, 1, "fill_value") if isinstance(arg, ast.Call) else None
                if isinstance(arg, ast.Call) and call_name(arg) == "full" and size is not None and fill is not None:
                    size_attr = size.attr if isinstance(size, ast.Attribute) and u(size.value) == "self" else None
                    if size_attr is None:
                        raise Undecided(f"{q}: scalar arm broadcasts to a size that is not an attribute of self: {u(size)}")
                    ok = kc[0] == VEC and u(fill) == x and (size_attr in dom_size_attrs or size_attr == "domain_size")
                else:
                    raise Undecided(f"{q}: scalar arm does not broadcast with np.full: {got}")
            ctx.check("R3", ok, mod, q, node,
                      f"{kind} operand: expected {want}, found {got} (the operand lives in the domain space; values go "
                      f"through the vector kernel, Jacobians/matrices through the matrix kernel)",
                      construct=f"dispatch arm: {kind} -> {got}", facts={"types": sorted(ts), "result": got})
            ctx.sample({"rule": "R3", "kind": kind, "types": sorted(ts), "result": got})
    ok_else = bool(elses) and all(b and isinstance(b[-1], ast.Raise) for b in elses)
    ctx.check("R3", ok_else, mod, q, fn, "an operand of unsupported type must raise (final else of the dispatch)",
              construct="dispatch: final else raises")


# ---------------- R4 (reflected table) -------------------------------------------------------

def _pending_writer(fn: ast.FunctionDef, operand_attr: str, operation_attr: str, body: list[ast.stmt] | None = None):
    """In `body` (default: function body) find `<v>.operand_attr = E1`, `<v>.operation_attr = E2`,
    `return <v>` -> (v, E1, E2, returned_name) with None where absent."""
    v_op = v_sym = e1 = e2 = ret = None
    stmts = body if body is not None else body_nodoc(fn)
    for s in stmts:
        if isinstance(s, ast.Assign) and len(s.targets) == 1 and isinstance(s.targets[0], ast.Attribute) \
                and isinstance(s.targets[0].value, ast.Name):
            if s.targets[0].attr == operand_attr:
                v_op, e1 = s.targets[0].value.id, s.value
            elif s.targets[0].attr == operation_attr:
                v_sym, e2 = s.targets[0].value.id, s.value
        elif isinstance(s, ast.Return):
            ret = u(s.value) if s.value is not None else None
    return v_op, v_sym, e1, e2, ret


def _bound_to_copy_of(fn: ast.FunctionDef, var: str, src: str, body: list[ast.stmt] | None = None) -> bool:
    stmts = body if body is not None else body_nodoc(fn)
    for s in stmts:
        if isinstance(s, ast.Assign) and len(s.targets) == 1 and isinstance(s.targets[0], ast.Name) and s.targets[0].id == var:
            v = s.value
            if isinstance(v, ast.Call) and isinstance(v.func, ast.Attribute) and v.func.attr in ("copy", "__copy__") \
                    and u(v.func.value) == src and not v.args:
                return True
            if isinstance(v, ast.Call) and dotted(v.func) in ("copy.copy", "copy.deepcopy") and [u(a) for a in v.args] == [src]:
                return True
    return False


def _r4_reflected(ctx: Ctx, mod, meths, pend) -> None:
    operand_attr, operation_attr, _ = pend
    n = 0
    for base, sym in PY_SYMBOL.items():
        name = f"__r{base}__"
        fn = meths.get(name)
        if fn is None:
            continue
        ps = _params(fn)
        if len(ps) != 2:
            continue
        other = ps[1]
        q = f"{CLS}.{name}"
        v_op, v_sym, e1, e2, ret = _pending_writer(fn, operand_attr, operation_attr)
        if v_op is None and v_sym is None:
            if any(isinstance(s, ast.Raise) for s in body_nodoc(fn)):
                continue  # unsupported operator: raising is fine
            raise Undecided(f"{q}: neither stores a pending operation nor raises")
        n += 1
        got_sym = e2.value if isinstance(e2, ast.Constant) else None
        if e2 is not None and got_sym is None:
            raise Undecided(f"{q}: pending operation is not a string literal: {u(e2)}")
        same_obj = v_op is not None and v_op == v_sym and ret == v_op
        on_copy = same_obj and _bound_to_copy_of(fn, v_op, "self")
        ok = (got_sym == sym and e1 is not None and u(e1) == other and same_obj and on_copy)
        ctx.check("R4", ok, mod, q, fn,
                  f"{name} implements `other {sym} S`: it must store operand `{other}` and symbol {sym!r} on a copy of "
                  f"self and return that copy; found operand={u(e1) if e1 is not None else None}, symbol={got_sym!r}, "
                  f"target={v_op}/{v_sym}, returns {ret}",
                  construct=f"{name}: operand={u(e1) if e1 is not None else None} symbol={got_sym!r} on {'copy of self' if on_copy else v_op} returns {ret}",
                  facts={"symbol": got_sym, "expected": sym, "operand": u(e1) if e1 is not None else None})
        ctx.sample({"rule": "R4", "dunder": name, "symbol": got_sym})
    if n < 3:
        raise AnchorError(f"{CLS}: reflected dunders storing a pending operation not found")
    # slicer @ slicer
    fn = meths["__matmul__"]
    q = f"{CLS}.__matmul__"
    x = _params(fn)[1]
    arms, _ = _arms(fn, x)
    hit = [(ts, body, node) for ts, body, node in arms if CLS in ts]
    if not hit:
        ctx.check("R4", False, mod, q, fn, "__matmul__ has no arm for a slicer operand (S0 @ S1 @ y cannot be chained)",
                  construct="slicer arm <- missing")
        return
    for ts, body, node in hit:
        v_op, v_sym, e1, e2, ret = _pending_writer(fn, operand_attr, operation_attr, body)
        got_sym = e2.value if isinstance(e2, ast.Constant) else None
        same_obj = v_op is not None and v_op == v_sym and ret == v_op
        on_copy = same_obj and _bound_to_copy_of(fn, v_op, x, body)
        # (operand mutation itself is R1's finding; here: right operand, right symbol, right receiver)
        ok = got_sym == "@" and e1 is not None and u(e1) == "self" and same_obj and (on_copy or v_op == x)
        ctx.check("R4", ok, mod, q, node,
                  f"S0 @ S1 must return (a copy of) S1 with pending operand S0 (= self) and symbol '@'; found "
                  f"operand={u(e1) if e1 is not None else None}, symbol={got_sym!r}, target={v_op}/{v_sym}, returns {ret}",
                  construct=f"slicer arm: operand={u(e1) if e1 is not None else None} symbol={got_sym!r} returns {ret}")


# ---------------- R5 -------------------------------------------------------------------------

def _swap(p: str) -> str:
    if "domain" in p:
        return p.replace("domain", "range")
    if "range" in p:
        return p.replace("range", "domain")
    raise Undecided(f"constructor parameter {p} is neither a domain nor a range quantity")


def _r5_transpose(ctx: Ctx, mod, meths, stores, ctor_params, onto_attrs) -> None:
    fn = meths["transpose"]
    q = f"{CLS}.transpose"
    cc = _ctor_call(fn, CLS)
    if cc is None:
        raise Undecided(f"{q}: no constructor call")
    new, call = cc
    rets = [s for s in stmts_local(fn) if isinstance(s, ast.Return)]
    if new is not None and not any(isinstance(r.value, ast.Name) and r.value.id == new for r in rets):
        raise Undecided(f"{q}: constructed object is not what is returned")
    args = _ctor_args(call, meths["__init__"])
    for p in ctor_params:
        e = args.get(p)
        want = stores[_swap(p)]
        src = _self_attr_source(e) if e is not None else None
        if e is not None and src is None:
            raise Undecided(f"{q}: argument {p}={u(e)} is not an attribute of self")
        ok = src is not None and src in want
        ctx.check("R5", ok, mod, q, call,
                  f"transpose must pass {p} from the attribute storing {_swap(p)} ({sorted(want)}); found "
                  f"{u(e) if e is not None else 'nothing (recomputed from defaults)'}",
                  construct=f"transpose {p} <- {u(e) if e is not None else 'missing'}")
    # the onto shortcut ignores the range indices, so it must not be carried to the transpose
    bad = [s for s in stmts_local(fn) if isinstance(s, ast.Assign) for t in s.targets
           if isinstance(t, ast.Attribute) and t.attr in onto_attrs and not (isinstance(s.value, ast.Constant) and s.value.value is False)]
    ctx.check("R5", not bad, mod, q, bad[0] if bad else fn,
              "transpose must not carry the onto shortcut over (the transposed map scatters to range indices that are not 0..n-1)",
              construct=u(bad[0]) if bad else "transpose: onto flag not transferred")


# ---------------- R6 -------------------------------------------------------------------------

def _self_attr(e: ast.expr) -> str | None:
    return e.attr if isinstance(e, ast.Attribute) and isinstance(e.value, ast.Name) and e.value.id == "self" else None


def _resolve_local(fn: ast.FunctionDef, e: ast.expr, depth: int = 6) -> ast.expr:
    """Inline single-assignment, non-parameter locals."""
    from ..core.astutil import inline_locals
    return inline_locals(fn, e, stop=set(_params(fn)), depth=depth)


def _r6_kernels(ctx: Ctx, mod, meths, stores, deps) -> set[str]:
    dom_idx, rng_idx = stores["domain_indices"], stores["range_indices"]
    rng_size = stores["range_size"]
    onto_attrs: set[str] = set()
    onto_index: dict[str, str] = {}
    for kname in ("_slice_vector", "_slice_matrix"):
        fn = meths[kname]
        q = f"{CLS}.{kname}"
        ps = _params(fn)
        if len(ps) != 2:
            raise AnchorError(f"{q}: expected (self, operand)")
        x = ps[1]
        # onto shortcut: if self.<onto>: return x[self.<domain indices>]
        ifs = [s for s in stmts_local(fn) if isinstance(s, ast.If) and _self_attr(s.test) is not None
               and any(isinstance(r, ast.Return) and isinstance(r.value, ast.Subscript) and u(r.value.value) == x for r in s.body)]
        if len(ifs) != 1:
            raise Undecided(f"{q}: onto shortcut not of the form `if self.<onto>: return ...`")
        rets = [s for s in ifs[0].body if isinstance(s, ast.Return)]
        if len(rets) != 1 or not isinstance(rets[0].value, ast.Subscript):
            raise Undecided(f"{q}: onto shortcut does not return a subscript")
        sub = rets[0].value
        ia = _self_attr(sub.slice)
        if ia is None or u(sub.value) != x:
            raise Undecided(f"{q}: onto shortcut `{u(sub)}` is not {x}[self.<indices>]")
        onto_index[kname] = ia
        onto_attrs.add(_self_attr(ifs[0].test))
        ctx.check("R6", ia in dom_idx, mod, q, rets[0],
                  f"onto shortcut selects rows with self.{ia}; rows are selected from the operand, i.e. by the domain indices "
                  f"({sorted(dom_idx)})", construct=f"{kname} onto: {u(sub)}")
    # vector kernel: scatter V[range] = x[domain], V sized by range_size
    fn = meths["_slice_vector"]
    q = f"{CLS}._slice_vector"
    x = _params(fn)[1]
    scat = [s for s in stmts_local(fn) if isinstance(s, ast.Assign) and len(s.targets) == 1 and isinstance(s.targets[0], ast.Subscript)
            and isinstance(s.value, ast.Subscript) and u(s.value.value) == x]
    if len(scat) != 1:
        raise Undecided(f"{q}: expected one scatter statement V[...] = {x}[...]")
    s = scat[0]
    wa, ra = _self_attr(s.targets[0].slice), _self_attr(s.value.slice)
    if wa is None or ra is None:
        raise Undecided(f"{q}: scatter indices are not attributes of self: {u(s)}")
    ctx.check("R6", wa in rng_idx and ra in dom_idx, mod, q, s,
              f"vector kernel must read the operand at the domain indices and write at the range indices; found write "
              f"self.{wa}, read self.{ra}", construct=f"_slice_vector scatter: {u(s)}")
    vecname = u(s.targets[0].value)
    def alts(e: ast.expr) -> list[ast.expr]:
        return alts(e.body) + alts(e.orelse) if isinstance(e, ast.IfExp) else [e]

    zeros = [(st, v) for st in stmts_local(fn) if isinstance(st, ast.Assign) and u(st.targets[0]) == vecname
             for v in alts(st.value) if isinstance(v, ast.Call) and call_name(v) in ("zeros", "empty", "full")]
    if not zeros:
        raise Undecided(f"{q}: allocation of `{vecname}` not found")
    def shape_alternatives(e: ast.expr | None, depth: int = 0) -> list[ast.expr]:
        """A shape given through a local assigned once, or in the arms of an if/else, or as a conditional expression."""
        if e is None or depth > 4:
            return [e] if e is not None else []
        if isinstance(e, ast.IfExp):
            return shape_alternatives(e.body, depth + 1) + shape_alternatives(e.orelse, depth + 1)
        if isinstance(e, ast.Name) and e.id not in _params(fn):
            vals = [a.value for a in stmts_local(fn) if isinstance(a, (ast.Assign, ast.AnnAssign)) and getattr(a, "value", None) is not None
                    and [u(t) for t in assigned_targets(a)] == [e.id]]
            if vals:
                return [y for v in vals for y in shape_alternatives(v, depth + 1)]
        return [e]

    for st, zcall in zeros:
        shp0 = zcall.args[0] if zcall.args else kwarg(zcall, "shape")
        for shp in shape_alternatives(shp0):
            while isinstance(shp, ast.BinOp) and isinstance(shp.op, ast.Add):
                shp = shp.left  # (rows,) + x.shape[1:]
            first = shp.elts[0] if isinstance(shp, ast.Tuple) and shp.elts else shp
            fa = _self_attr(first) if first is not None else None
            if fa is None:
                raise Undecided(f"{q}: allocation size `{u(zcall)}` (shape {u(shp)}) is not an attribute of self")
            ok = fa in rng_size and call_name(zcall) == "zeros"
            ctx.check("R6", ok, mod, q, st,
                      f"result of the vector kernel must be a zero array with self.<range size> rows ({sorted(rng_size)}); found "
                      f"{u(zcall)} with shape {u(shp)}", construct=f"_slice_vector alloc: {call_name(zcall)}({u(shp)})")
    # matrix kernel: shape = (range_size, A.shape[1])
    fn = meths["_slice_matrix"]
    q = f"{CLS}._slice_matrix"
    A = _params(fn)[1]
    ctors = [c for c in calls_in(fn) if call_name(c) in ("csr_matrix", "csr_array", "csc_matrix")]
    rets = [r for r in stmts_local(fn) if isinstance(r, ast.Return) and isinstance(r.value, ast.Call) and r.value in ctors]
    if len(rets) != 1:
        raise Undecided(f"{q}: result constructor not found")
    shp = kwarg(rets[0].value, "shape") or (rets[0].value.args[1] if len(rets[0].value.args) > 1 else None)
    if shp is None:
        raise Undecided(f"{q}: result constructed without explicit shape")
    shp = _resolve_local(fn, shp)
    if not (isinstance(shp, ast.Tuple) and len(shp.elts) == 2):
        raise Undecided(f"{q}: result shape `{u(shp)}` is not a 2-tuple")
    fa = _self_attr(shp.elts[0])
    if fa is None:
        raise Undecided(f"{q}: number of result rows `{u(shp.elts[0])}` is not an attribute of self")
    ctx.check("R6", fa in rng_size and u(shp.elts[1]) == f"{A}.shape[1]", mod, q, rets[0],
              f"sliced matrix must have shape (self.<range size>, {A}.shape[1]); found {u(shp)}",
              construct=f"_slice_matrix shape: {u(shp)}")
    if len(onto_attrs) != 1:
        raise Undecided(f"{CLS}: the two kernels test different onto flags {sorted(onto_attrs)}")
    return onto_attrs


# ---------------- thorough: sweep + notes ------------------------------------------------------

def _sweep(ctx: Ctx) -> None:
    n_cls = n_dunder = 0
    for d in SWEEP_DIRS:
        for m in ctx.repo.modules(d):
            for cq, cls in m.classes():
                had = False
                for name, fn in methods(cls).items():
                    if not _is_binary_dunder(name, fn):
                        continue
                    had = True
                    n_dunder += 1
                    try:
                        certain, soft = _purity(fn)
                    except Exception as e:  # a CFG corner case must not turn into a verdict
                        ctx.unresolved_site(f"{m.rel}:{cq}.{name}: purity analysis failed ({type(e).__name__})")
                        continue
                    q = f"{cq}.{name}"
                    operand_hits = [(s, r, k, t) for s, r, k, t in certain if any(x != "param:self" for x in t)]
                    self_hits = [(s, r, k, t) for s, r, k, t in certain if all(x == "param:self" for x in t)]
                    if not operand_hits:
                        ctx.check("R1S", True, m, q, fn, "binary operator does not store into its non-self operand",
                                  construct=f"{name}: no store on the operand")
                    for s, r, k, t in operand_hits:
                        ctx.check("R1S", False, m, q, s,
                                  f"{name} performs an {k} on `{r}`, which may be the non-self operand: the operator mutates its operand",
                                  construct=u(s), facts={"aliases": t})
                    for s, r, k, t in self_hits:
                        ctx.note(f"sweep: {m.rel}:{q} stores into self ({k}): {u(s)[:90]}")
                    for s, r, k, t in soft:
                        ctx.note(f"sweep: {m.rel}:{q} {k} on `{r}` of unknown origin: {u(s)[:90]}")
                    for s in stmts_local(fn):
                        if isinstance(s, ast.AugAssign) and isinstance(s.target, ast.Name) and s.target.id in _params(fn):
                            ctx.note(f"sweep: {m.rel}:{q} augmented assignment on parameter `{s.target.id}` "
                                     f"(in place for ndarray operands): {u(s)[:90]}")
                n_cls += int(had)
    ctx.note(f"sweep: purity rule examined {n_dunder} binary dunders in {n_cls} classes under {', '.join(SWEEP_DIRS)}")


def _notes(ctx: Ctx, meths, pend) -> None:
    operand_attr, _, _ = pend
    # A reflected dunder / slicer arm overwrites a pending operand that is already there.
    guarded = False
    for name, fn in meths.items():
        if name.startswith("__r") and any(isinstance(n, ast.Compare) and operand_attr in u(n) for n in walk_local(fn)):
            guarded = True
    if not guarded:
        ctx.note("observation (not a violation of the claimed clauses): the reflected dunders and the slicer arm of "
                 "__matmul__ overwrite an already pending operand, e.g. `a * (b * S) @ y` evaluates a * (S @ y) and "
                 "`S0 @ (a * S1) @ y` evaluates S0 @ (S1 @ y); only one pending operation is kept per slicer")
    used = False
    for name in ("_slice_vector", "_slice_matrix", "__matmul__"):
        if "_is_transposed" in attrs_of(meths[name]):
            used = True
    if not used:
        ctx.note("observation: the `_is_transposed` flag is stored, copied and printed but read by no kernel; the "
                 "transpose acts through swapped indices/sizes only (row slicing by P^T), not as column slicing as the "
                 "docstring of transpose() says")


# ----------------------------------------------------------------------------------------
def _m(name, old, new, rule, control=False, count=1, file=MATOPS):
    return dict(name=name, file=file, old=old, new=new, rule=rule, control=control, count=count)


MUTANTS = [
    _m("revert-fix-sum-projection-list-mutates-child", "            child_1 = copy.copy(op.children[1])\n", "            child_1 = op.children[1]\n",
       "R8", control=True, file=OPS),
    _m("sum-projection-list-copy-taken-store-on-original", "            child_1._slicer = prod\n", "            op.children[1]._slicer = prod\n", "R8", file=OPS),
    _m("sum-projection-list-copy-discarded", "            child_1 = copy.copy(op.children[1])\n",
       "            child_1_copy = copy.copy(op.children[1])\n            child_1 = op.children[1]\n", "R8", file=OPS),
    # reverted fix D7
    _m("revert-fix-matmul-mutates-operand",
       "            slicer = x.copy()\n            slicer._pending_operand = self\n            slicer._pending_operation = \"@\"\n            return slicer\n",
       "            x._pending_operand = self\n            x._pending_operation = \"@\"\n            return x\n", "R1", control=True),
    _m("matmul-aliases-operand", "            slicer = x.copy()\n", "            slicer = x\n", "R1"),
    _m("rmul-mutates-self", "        slicer = self.copy()\n        slicer._pending_operand = other\n        slicer._pending_operation = \"*\"\n",
       "        slicer = self\n        slicer._pending_operand = other\n        slicer._pending_operation = \"*\"\n", "R1"),
    _m("copy-forgets-is-onto", "        slicer._is_onto = self._is_onto\n", "", "R2"),
    _m("copy-forgets-pending-operand", "        slicer._pending_operand = self._pending_operand\n", "", "R2"),
    _m("copy-drops-range-size", "            range_size=self._range_size,\n            domain_size=self._domain_size,\n        )\n        slicer._is_onto",
       "            domain_size=self._domain_size,\n        )\n        slicer._is_onto", "R2"),
    _m("copy-range-size-from-domain", "            range_size=self._range_size,\n            domain_size=self._domain_size,\n        )\n        slicer._is_onto",
       "            range_size=self._domain_size,\n            domain_size=self._domain_size,\n        )\n        slicer._is_onto", "R2"),
    _m("copy-transposed-from-onto", "        slicer._is_transposed = self._is_transposed\n", "        slicer._is_transposed = self._is_onto\n", "R2"),
    _m("rsub-stores-plus", "        slicer._pending_operation = \"-\"\n", "        slicer._pending_operation = \"+\"\n", "R4", control=True),
    _m("rtruediv-stores-mul", "        slicer._pending_operation = \"/\"\n", "        slicer._pending_operation = \"*\"\n", "R4"),
    _m("rpow-stores-self", "        slicer = self.copy()\n        slicer._pending_operand = other\n        slicer._pending_operation = \"**\"\n",
       "        slicer = self.copy()\n        slicer._pending_operand = self\n        slicer._pending_operation = \"**\"\n", "R4"),
    _m("eval-order-swapped", 'eval(f"self._pending_operand {self._pending_operation} sliced")',
       'eval(f"sliced {self._pending_operation} self._pending_operand")', "R4"),
    _m("pending-guard-inverted", "        if self._pending_operand is not None:\n            # If there is a pending operand",
       "        if self._pending_operand is None:\n            # If there is a pending operand", "R4"),
    _m("slicer-arm-stores-mul", "            slicer._pending_operand = self\n            slicer._pending_operation = \"@\"\n",
       "            slicer._pending_operand = self\n            slicer._pending_operation = \"*\"\n", "R4"),
    _m("adarray-jac-through-vector-kernel", "            jac = self._slice_matrix(x.jac)\n", "            jac = self._slice_vector(x.jac)\n", "R3"),
    _m("adarray-val-jac-swapped", "            sliced = pp.ad.AdArray(val, jac)\n", "            sliced = pp.ad.AdArray(jac, val)\n", "R3"),
    _m("scalar-broadcast-to-range-size", "            tmp = np.full(self._domain_size, x)\n", "            tmp = np.full(self._range_size, x)\n", "R3"),
    _m("sparse-arm-dropped", "        elif isinstance(x, (sps.spmatrix, sps.sparray)):\n            sliced = self._slice_matrix(x)\n", "", "R3"),
    _m("transpose-keeps-sizes", "            range_size=self._domain_size,\n            domain_size=self._range_size,\n",
       "            range_size=self._range_size,\n            domain_size=self._domain_size,\n", "R5"),
    _m("transpose-keeps-indices", "            domain_indices=self._range_indices.copy(),\n            range_indices=self._domain_indices.copy(),\n",
       "            domain_indices=self._domain_indices.copy(),\n            range_indices=self._range_indices.copy(),\n", "R5"),
    _m("transpose-carries-onto", "        obj._is_transposed = not obj._is_transposed\n",
       "        obj._is_transposed = not obj._is_transposed\n        obj._is_onto = self._is_onto\n", "R5"),
    _m("vector-kernel-sized-by-domain", "            vec = np.zeros(self._range_size)\n", "            vec = np.zeros(self._domain_size)\n", "R6"),
    _m("vector-kernel-indices-swapped", "        vec[self._range_indices] = x[self._domain_indices]\n",
       "        vec[self._domain_indices] = x[self._range_indices]\n", "R6"),
    _m("matrix-onto-uses-range", "            return A[self._domain_indices]\n", "            return A[self._range_indices]\n", "R6"),
    _m("matrix-rows-domain-size", "        new_num_rows = self._range_size\n", "        new_num_rows = self._domain_size\n", "R6"),
]
