"""C14 - FV split independence: completeness of the sub-problem bookkeeping of
Mpfa/Mpsa/Biot.discretize (row-space typing of every local matrix, nonlocal removal, face
repetition rescaling, accumulate -> map -> remove -> store chain, factor/space agreement)."""
from __future__ import annotations

import ast
import copy
from dataclasses import dataclass, field
from typing import Optional

from ..core import cfg as cfgmod
from ..core.astutil import u, call_name, kwarg, names_in, stmts_local, assigned_targets, parent_map, body_nodoc
from ..core.loader import AnchorError, Undecided
from ..core.report import Ctx

MPFA = "src/porepy/numerics/fv/mpfa.py"
MPSA = "src/porepy/numerics/fv/mpsa.py"
BIOT = "src/porepy/numerics/fv/biot.py"
FVUTILS = "src/porepy/numerics/fv/_fvutils.py"
PARTITION = "src/porepy/grids/partition.py"
TARGETS = [(MPFA, "Mpfa"), (MPSA, "Mpsa"), (BIOT, "Biot")]

# Set to True to turn the dictionary-level mismatch of Biot's update arm (see R3 note) into
# a finding instead of a note (then it needs a known_findings.json entry).
REPORT_KEYED_UPDATE_LEVEL = False

META = {
    "explanation": (
        "Static dataflow analysis of the split/merge bookkeeping in Mpfa.discretize, Mpsa.discretize and "
        "Biot.discretize. Every accumulator is typed (rows, columns: faces/cells, scalar/vector) from the shape it "
        "is initialised with; every local matrix is typed by the left factor of its accumulation. R1: each local "
        "matrix is zeroed on the overlap by remove_nonlocal_contribution with the index set of its own row space "
        "(faces: l2g_faces not in faces_in_subgrid; cells: l2g_cells not in cells_in_subgrid), before it is "
        "accumulated, with nd matching scalar/vector rows; the same typing for the final removal over non-active "
        "faces/cells. R2: each face-row accumulator is left-multiplied exactly once, after the loop, by the "
        "diagonal matrix 1/bincount(concatenate(list of faces_in_subgrid)) (tiled per component in face-major "
        "order for vector rows); no cell-row accumulator is. R3: the sets {local matrices returned by the local "
        "discretization} = {accumulated}, {accumulators} = {assigned in the no-split shortcut} = {mapped to the "
        "full grid, in each arm} = {passed to the final removal} = {written in the full arm} = {written in the "
        "update arm}, same dictionary keys in every arm, same key->matrix pairing, row subset written on update = "
        "complement of the rows removed. R4: left/right factors of every accumulation and full-grid map agree "
        "with the accumulator's row/column space and the maps are built from (grid, l2g_faces, l2g_cells) / "
        "(sd, extracted_faces, active_cells). R5: the repetition count and the shortcut test use faces_in_subgrid "
        "(not l2g_faces) and the consumer's positional reading of the subproblems() tuple agrees with the "
        "producer. R6: remove_nonlocal_contribution zeroes rows expand(raw_ind, nd) of *every* matrix passed. "
        "R7: the left/right key tables of update_discretization agree with the typing derived from discretize. "
        "Decides this bookkeeping (a necessary condition for split independence), not equality of matrix values, "
        "not the overlap construction in subproblems()/cell_ind_for_partial_update, not numba-vs-python inverters."),
    "rule_text": "one obligation per (local matrix | accumulator x stage | removal call | map call | key | yield)",
    "trusted_base": ["python ast", "sa.core (loader, astutil, cfg)",
                     "scipy semantics: A*B on spmatrix is the matrix product; zero_rows works in place",
                     "partition.subgrid_to_grid_mapping returns (face_map [glob x loc], cell_map [loc x glob])"],
    "assumptions": ["loops over the coupling keywords visit every key and run at least once",
                    "grid dimension is the same for sd, the active grid and each subgrid (X.dim are identified)",
                    "the update arm of Biot.discretize (update_discretization=True) is dictionary-level inconsistent "
                    "today (reported as a note, see final report); set REPORT_KEYED_UPDATE_LEVEL to make it a finding"],
    "technique": "typed dataflow over a statement CFG (reaching definitions + dominance) with set-equality chain",
}
MIN_INSTANCES = {"R1": 30, "R2": 22, "R3": 100, "R4": 60, "R5": 14, "R6": 3, "R7": 19}

CONV = {"tocsr", "tocsc", "tocoo", "copy"}
SPARSE_CTORS = {"csr_matrix", "csc_matrix", "coo_matrix", "csr_array", "csc_array", "coo_array"}
DIAG_CTORS = {"dia_matrix", "dia_array", "diags", "diags_array"}


# ------------------------------------------------------------------------------------
# small expression helpers

def strip_conv(e: ast.expr) -> ast.expr:
    while (isinstance(e, ast.Call) and isinstance(e.func, ast.Attribute) and e.func.attr in CONV
           and not e.args and not e.keywords):
        e = e.func.value
    return e


def base_name(t: ast.expr) -> Optional[str]:
    while isinstance(t, ast.Subscript):
        t = t.value
    return t.id if isinstance(t, ast.Name) else None


def split_ref(e: ast.expr) -> Optional[tuple[str, Optional[str]]]:
    """Name -> (id, None); Name[key] -> (id, 'key'); else None."""
    if isinstance(e, ast.Name):
        return e.id, None
    if isinstance(e, ast.Subscript) and isinstance(e.value, ast.Name):
        return e.value.id, u(e.slice)
    return None


def is_transpose(e: ast.expr) -> Optional[ast.expr]:
    if isinstance(e, ast.Attribute) and e.attr == "T":
        return e.value
    if (isinstance(e, ast.Call) and isinstance(e.func, ast.Attribute) and e.func.attr == "transpose"
            and not e.args and not e.keywords):
        return e.func.value
    return None


@dataclass
class Def:
    stmt: ast.stmt
    kind: str  # plain | tuple | aug | for | sub
    value: Optional[ast.expr]
    pos: Optional[int] = None
    arity: Optional[int] = None
    extra: frozenset = frozenset()  # names in the subscript of a 'sub' store


@dataclass
class Space:
    kind: str  # 'F' | 'C'
    vec: bool
    nd: Optional[str]  # token of the per-entity dimension for vector spaces

    def txt(self) -> str:
        return {"F": "faces", "C": "cells"}[self.kind] + (f"*{self.nd}" if self.vec else "")


@dataclass
class MapRef:
    space: Space
    transposed: bool
    call: ast.Call
    stmt: ast.stmt


class Fn:
    """One analysed function: statements, CFG, definitions table and resolution helpers."""

    def __init__(self, mod, qual: str):
        self.mod, self.qual = mod, qual
        self.fn = mod.func(qual)
        self.stmts = list(stmts_local(self.fn))
        self.order = {id(s): i for i, s in enumerate(self.stmts)}
        self.pm = parent_map(self.fn)
        self.cfg = cfgmod.build(self.fn)
        self._node = {id(s): n for n, s in self.cfg.stmt.items()}
        self._dom = self.cfg.dominators()
        self.defs: dict[str, list[Def]] = {}
        self.no_expand: set[str] = set()  # names never treated as temporaries holding a partial product
        for s in self.stmts:
            if isinstance(s, ast.Assign):
                for t in s.targets:
                    self._bind(t, s.value, s)
            elif isinstance(s, ast.AnnAssign) and s.value is not None:
                self._bind(s.target, s.value, s)
            elif isinstance(s, ast.AugAssign):
                b = base_name(s.target)
                if b:
                    self._add(b, Def(s, "aug" if isinstance(s.target, ast.Name) else "sub", s.value))
            elif isinstance(s, ast.For):
                for t in assigned_targets(s):
                    if isinstance(t, ast.Name):
                        self._add(t.id, Def(s, "for", None))

    def where(self) -> str:
        return f"{self.mod.rel}:{self.qual}"

    def und(self, msg: str, node: Optional[ast.AST] = None) -> Undecided:
        return Undecided(f"{self.where()}: {msg}" + (f" [{u(node)[:100]}]" if node is not None else ""))

    def _add(self, name: str, d: Def) -> None:
        self.defs.setdefault(name, []).append(d)

    def _bind(self, t: ast.expr, value: ast.expr, s: ast.stmt) -> None:
        if isinstance(t, ast.Name):
            self._add(t.id, Def(s, "plain", value))
        elif isinstance(t, (ast.Tuple, ast.List)):
            starred = any(isinstance(e, ast.Starred) for e in t.elts)
            if (isinstance(value, (ast.Tuple, ast.List)) and len(value.elts) == len(t.elts) and not starred
                    and not any(isinstance(e, ast.Starred) for e in value.elts)):
                for tt, vv in zip(t.elts, value.elts):
                    self._bind(tt, vv, s)
                return
            seen_star = False
            for i, tt in enumerate(t.elts):
                if isinstance(tt, ast.Starred):
                    seen_star = True
                    continue
                if isinstance(tt, ast.Name):
                    pos = i - len(t.elts) if seen_star else i
                    self._add(tt.id, Def(s, "tuple", value, pos=pos, arity=None if starred else len(t.elts)))
        elif isinstance(t, ast.Subscript):
            b = base_name(t)
            if b:
                ex = set()
                tt = t
                while isinstance(tt, ast.Subscript):
                    ex |= names_in(tt.slice)
                    tt = tt.value
                self._add(b, Def(s, "sub", value, extra=frozenset(ex)))

    # -- structure ----------------------------------------------------------------
    def contains(self, p: ast.AST, b: ast.AST) -> bool:
        cur = b
        while cur is not None:
            if cur is p:
                return True
            cur = self.pm.get(cur)
        return False

    def stmt_of(self, node: ast.AST) -> ast.stmt:
        cur = node
        while not isinstance(cur, ast.stmt):
            cur = self.pm[cur]
        return cur

    def dominates(self, a: ast.stmt, b: ast.stmt) -> bool:
        na, nb = self._node.get(id(a)), self._node.get(id(b))
        if na is None or nb is None:
            raise self.und("statement without CFG node", a if na is None else b)
        return na in self._dom.get(nb, ())

    def precedes(self, a: ast.stmt, b: ast.stmt) -> bool:
        """a is executed before b on every path (loops not containing b are assumed to run)."""
        cur = a
        p = self.pm.get(a)
        while p is not None and p is not self.fn:
            if isinstance(p, (ast.For, ast.While)) and not self.contains(p, b):
                cur = p
            p = self.pm.get(p)
        if cur is b:
            return False
        return self.dominates(cur, b)

    def before(self, a: ast.stmt, b: ast.stmt) -> bool:
        return self.order[id(a)] < self.order[id(b)]

    def arm_of(self, s: ast.AST, skip_loops: bool = True) -> tuple[Optional[ast.If], Optional[str]]:
        """Innermost enclosing If (not crossing the function) and which arm s is in."""
        cur = s
        p = self.pm.get(cur)
        while p is not None and p is not self.fn:
            if isinstance(p, ast.If):
                if any(cur is x for x in p.body):
                    return p, "body"
                if any(cur is x for x in p.orelse):
                    return p, "orelse"
            cur, p = p, self.pm.get(p)
        return None, None

    def key_loop(self, s: ast.AST, stop: Optional[ast.AST] = None) -> Optional[ast.For]:
        """Innermost enclosing for-loop of s other than `stop`."""
        p = self.pm.get(s)
        while p is not None and p is not self.fn:
            if isinstance(p, ast.For) and p is not stop:
                return p
            p = self.pm.get(p)
        return None

    # -- reaching definitions --------------------------------------------------------
    def reaching(self, name: str, at: ast.stmt) -> list[Def]:
        # item stores (`x[i] = v`) mutate, they do not rebind the name
        ds = [d for d in self.defs.get(name, []) if d.kind != "sub" and self.before(d.stmt, at)]
        dom = [d for d in ds if self.precedes(d.stmt, at)]
        if dom:
            last = max(dom, key=lambda d: self.order[id(d.stmt)])
            return [last] + [d for d in ds if self.before(last.stmt, d.stmt) and d not in dom]
        return ds

    def unique_def(self, name: str, at: ast.stmt) -> Optional[Def]:
        r = self.reaching(name, at)
        return r[0] if len(r) == 1 else None

    def unique_plain(self, name: str, at: ast.stmt) -> Optional[ast.expr]:
        d = self.unique_def(name, at)
        return d.value if d is not None and d.kind == "plain" else None

    def canon(self, e: ast.expr, at: ast.stmt, depth: int = 6) -> ast.expr:
        """e with every name that has a unique reaching plain definition replaced by it."""
        outer = self

        class T(ast.NodeTransformer):
            def __init__(self, d):
                self.d = d

            def visit_Name(self, n: ast.Name):
                if isinstance(n.ctx, ast.Load) and self.d > 0:
                    dd = outer.unique_def(n.id, at)
                    if dd is not None and dd.kind == "plain" and dd.value is not None:
                        return T(self.d - 1).visit(copy.deepcopy(dd.value))
                return n

        return T(depth).visit(copy.deepcopy(e))

    def dim_token(self, e: ast.expr, at: ast.stmt) -> str:
        c = self.canon(e, at)
        if isinstance(c, ast.Attribute) and c.attr == "dim":
            return "DIM"
        if isinstance(c, ast.Constant):
            return repr(c.value)
        return u(c)

    def depends(self, name: str, target: str, at: ast.stmt) -> bool:
        seen, todo = set(), [name]
        while todo:
            n = todo.pop()
            if n == target:
                return True
            if n in seen:
                continue
            seen.add(n)
            for d in self.defs.get(n, []):
                if not self.before(d.stmt, at):
                    continue
                if d.value is not None:
                    todo += list(names_in(d.value))
                todo += list(d.extra)
        return False

    # -- products -------------------------------------------------------------------------
    def flatten(self, e: ast.expr, at: ast.stmt, depth: int = 4) -> list[ast.expr]:
        e = strip_conv(e)
        if isinstance(e, ast.BinOp) and isinstance(e.op, (ast.Mult, ast.MatMult)):
            return self.flatten(e.left, at, depth) + self.flatten(e.right, at, depth)
        if isinstance(e, ast.Name) and depth > 0 and e.id not in self.no_expand:
            v = self.unique_plain(e.id, at)
            if v is not None and e.id not in names_in(v):
                sv = strip_conv(v)
                if isinstance(sv, ast.BinOp) and isinstance(sv.op, (ast.Mult, ast.MatMult)):
                    return self.flatten(sv, at, depth - 1)  # a temporary holding a partial product
        return [e]


# ------------------------------------------------------------------------------------
# model of one discretize() function

@dataclass
class Upd:
    stmt: ast.stmt
    acc: str
    acc_key: Optional[str]
    m: str
    m_key: Optional[str]
    L: Optional[MapRef]
    R: Optional[MapRef]
    Lx: ast.expr = None  # type: ignore[assignment]
    Rx: ast.expr = None  # type: ignore[assignment]


@dataclass
class Removal:
    stmt: ast.stmt
    call: ast.Call
    kind: str  # 'F' | 'C'
    nd: ast.expr
    names: list[str]
    keep: Optional[ast.expr] = None  # final removals: the set that is *not* removed
    pair_ok: bool = True
    pair: tuple = ()


@dataclass
class Write:
    stmt: ast.stmt
    key: str
    depth: int
    g: Optional[str]  # global matrix name stored (None: something else, e.g. an empty matrix)
    g_key: Optional[str] = None
    lhs_ind: Optional[ast.expr] = None
    rhs_ind: Optional[ast.expr] = None
    lhs_mid: Optional[str] = None


class Model:
    def __init__(self, f: Fn):
        self.f = f
        self._find_loop()
        self.dict_value_funcs = self._dict_value_funcs()
        self.map_calls: dict[int, tuple[ast.Call, ast.stmt]] = {}
        self._find_updates()
        self._find_shapes()

    # -- anchors -------------------------------------------------------------------------
    def _find_loop(self) -> None:
        f = self.f
        loops = []
        for s in f.stmts:
            if isinstance(s, ast.For):
                cs = [c for c in ast.walk(s.iter) if isinstance(c, ast.Call) and call_name(c) == "subproblems"]
                if cs:
                    loops.append((s, cs[0]))
        if len(loops) != 1:
            raise AnchorError(f"{f.where()}: expected one loop over subproblems(...), found {len(loops)}")
        self.loop, call = loops[0]
        it, tgt = self.loop.iter, self.loop.target
        if isinstance(it, ast.Call) and call_name(it) == "enumerate" and it.args and it.args[0] is call:
            if not (isinstance(tgt, ast.Tuple) and len(tgt.elts) == 2):
                raise f.und("enumerate(subproblems(..)) target is not a pair", tgt)
            tgt = tgt.elts[1]
        elif it is not call:
            raise f.und("subproblems(...) wrapped in an unknown iterator", it)
        if not (isinstance(tgt, ast.Tuple) and len(tgt.elts) == 5 and all(isinstance(e, ast.Name) for e in tgt.elts)):
            raise f.und("loop target over subproblems(...) is not a 5-tuple of names", tgt)
        n = [e.id for e in tgt.elts]  # type: ignore[attr-defined]
        self.T = dict(sub=n[0], faces_in=n[1], cells_in=n[2], l2g_cells=n[3], l2g_faces=n[4])
        if not call.args or not isinstance(call.args[0], ast.Name):
            raise f.und("first argument of subproblems(...) is not a name", call)
        self.grid = call.args[0].id
        args = f.fn.args.args
        if len(args) < 2:
            raise AnchorError(f"{f.where()}: discretize(self, sd, data) signature expected")
        self.sd = args[1].arg

    def in_loop(self, s: ast.AST) -> bool:
        return s is not self.loop and self.f.contains(self.loop, s)

    def after_loop(self, s: ast.stmt) -> bool:
        return not self.f.contains(self.loop, s) and self.f.before(self.loop, s)

    def before_loop(self, s: ast.stmt) -> bool:
        return not self.f.contains(self.loop, s) and self.f.before(s, self.loop)

    def _dict_value_funcs(self) -> set[str]:
        out = set()
        for s in self.f.stmts:
            if isinstance(s, ast.FunctionDef) and len(s.args.args) == 1 and not s.args.vararg and not s.args.kwonlyargs:
                p = s.args.args[0].arg
                b = body_nodoc(s)
                if len(b) == 1 and isinstance(b[0], ast.Return) and b[0].value is not None and _is_values_list(b[0].value, p):
                    out.add(s.name)
        return out

    # -- maps --------------------------------------------------------------------------------
    def map_ref(self, e: ast.expr, at: ast.stmt, transposed: bool = False, depth: int = 3) -> Optional[MapRef]:
        f = self.f
        t = is_transpose(e)
        if t is not None:
            return self.map_ref(t, at, not transposed, depth)
        if not isinstance(e, ast.Name):
            return None
        ds = f.reaching(e.id, at)
        ds = [d for d in ds if self.in_loop(d.stmt) == self.in_loop(at)] or ds
        if len(ds) != 1:
            return None
        d = ds[0]
        if d.kind == "plain" and d.value is not None and depth > 0:
            return self.map_ref(d.value, d.stmt, transposed, depth - 1)
        if d.kind != "tuple" or not isinstance(d.value, ast.Call) or call_name(d.value) != "subgrid_to_grid_mapping":
            return None
        if d.arity != 2 or d.pos not in (0, 1):
            raise f.und("result of subgrid_to_grid_mapping is not unpacked into a pair", d.stmt)
        call = d.value
        isv = kwarg(call, "is_vector")
        if isv is None and len(call.args) > 3:
            isv = call.args[3]
        if not (isinstance(isv, ast.Constant) and isinstance(isv.value, bool)):
            raise f.und("is_vector of subgrid_to_grid_mapping is not a literal", call)
        ndx = kwarg(call, "nd")
        if ndx is None and len(call.args) > 4:
            ndx = call.args[4]
        nd = None
        if isv.value:
            nd = f.dim_token(ndx, d.stmt) if ndx is not None else "DIM"
        self.map_calls[id(call)] = (call, d.stmt)
        return MapRef(Space("F" if d.pos == 0 else "C", bool(isv.value), nd), transposed, call, d.stmt)

    # -- accumulations ---------------------------------------------------------------------
    def _parse_update(self, s: ast.stmt) -> Optional[Upd]:
        f = self.f
        if isinstance(s, ast.AugAssign) and isinstance(s.op, ast.Add):
            tgt, val = s.target, s.value
        elif (isinstance(s, ast.Assign) and len(s.targets) == 1 and isinstance(s.value, ast.BinOp)
              and isinstance(s.value.op, ast.Add)):
            tgt = s.targets[0]
            if u(s.value.left) == u(tgt):
                val = s.value.right
            elif u(s.value.right) == u(tgt):
                val = s.value.left
            else:
                return None
        else:
            return None
        ref = split_ref(tgt)
        if ref is None:
            return None
        fac = f.flatten(val, s)
        refs = [self.map_ref(x, s) for x in fac]
        if not any(r is not None for r in refs):
            return None
        if len(fac) != 3 or refs[1] is not None:
            raise f.und("accumulation is not of the form  map * local_matrix * map", s)
        m = split_ref(fac[1])
        if m is None:
            raise f.und("middle factor of an accumulation is not a (subscripted) name", s)
        return Upd(s, ref[0], ref[1], m[0], m[1], refs[0], refs[2], fac[0], fac[2])

    def _find_updates(self) -> None:
        self.updates: list[Upd] = []
        for s in self.f.stmts:
            if self.in_loop(s):
                up = self._parse_update(s)
                if up is not None:
                    self.updates.append(up)
        if not self.updates:
            raise AnchorError(f"{self.f.where()}: no accumulation `acc += map * loc * map` found in the subproblem loop")
        self.accs: dict[str, list[Upd]] = {}
        for up in self.updates:
            self.accs.setdefault(up.acc, []).append(up)
        self.keyed = {a: ups[0].acc_key is not None for a, ups in self.accs.items()}
        self.f.no_expand |= set(self.accs) | {x.m for x in self.updates}
        for a, ups in self.accs.items():
            if len({x.acc_key is not None for x in ups}) != 1:
                raise self.f.und(f"accumulator {a} is used both as a matrix and as a dictionary")

    # -- spaces from the initial shapes ---------------------------------------------------------
    def space_of(self, e: ast.expr, at: ast.stmt) -> Space:
        f = self.f
        facs: list[ast.expr] = []

        def fl(x: ast.expr) -> None:
            x = f.canon(x, at)
            if isinstance(x, ast.BinOp) and isinstance(x.op, ast.Mult):
                fl(x.left)
                fl(x.right)
            else:
                facs.append(x)

        fl(e)
        cnt = [x for x in facs if isinstance(x, ast.Attribute) and x.attr in ("num_faces", "num_cells")]
        ext = [x for x in facs if x not in cnt]
        if len(cnt) != 1 or len(ext) > 1:
            raise f.und("shape entry is not <num_faces|num_cells> [* dimension]", e)
        kind = "F" if cnt[0].attr == "num_faces" else "C"  # type: ignore[attr-defined]
        if ext:
            return Space(kind, True, f.dim_token(ext[0], at))
        return Space(kind, False, None)

    def _find_shapes(self) -> None:
        f = self.f
        self.shape: dict[str, tuple[Space, Space]] = {}
        self.init_stmt: dict[str, ast.stmt] = {}
        for a in self.accs:
            cands = [d for d in f.defs.get(a, []) if self.before_loop(d.stmt) and d.kind in ("plain", "sub")
                     and isinstance(d.value, ast.Call) and call_name(d.value) in SPARSE_CTORS and d.value.args
                     and isinstance(d.value.args[0], ast.Tuple) and len(d.value.args[0].elts) == 2]
            if len(cands) != 1:
                raise f.und(f"accumulator {a}: expected one initialisation with an explicit shape before the loop, "
                            f"found {len(cands)}")
            d = cands[0]
            if (d.kind == "sub") != self.keyed[a]:
                raise f.und(f"accumulator {a}: initialisation and accumulation disagree on dictionary level", d.stmt)
            r, c = d.value.args[0].elts  # type: ignore[union-attr]
            self.shape[a] = (self.space_of(r, d.stmt), self.space_of(c, d.stmt))
            self.init_stmt[a] = d.stmt

    def row_kind(self, a: str) -> str:
        return self.shape[a][0].kind


def _is_values_list(e: ast.expr, p: str) -> bool:
    def is_vals(x: ast.expr) -> bool:
        return (isinstance(x, ast.Call) and isinstance(x.func, ast.Attribute) and x.func.attr == "values"
                and isinstance(x.func.value, ast.Name) and x.func.value.id == p and not x.args)

    if isinstance(e, ast.ListComp) and len(e.generators) == 1:
        g = e.generators[0]
        return (is_vals(g.iter) and not g.ifs and isinstance(g.target, ast.Name) and isinstance(e.elt, ast.Name)
                and e.elt.id == g.target.id)
    if isinstance(e, ast.Call) and call_name(e) in ("list", "tuple") and len(e.args) == 1:
        return is_vals(e.args[0])
    if isinstance(e, (ast.List, ast.Tuple)) and len(e.elts) == 1 and isinstance(e.elts[0], ast.Starred):
        return is_vals(e.elts[0].value)
    return False


# ------------------------------------------------------------------------------------
# further extraction (functions over a Model)

def local_unpacks(m: Model) -> tuple[list[str], dict[str, list[str]]]:
    """Names of the local matrices unpacked from the local discretization call and the tuple
    aliases (name bound to the whole result -> element names)."""
    f = m.f
    stmts: dict[int, ast.stmt] = {}
    for up in m.updates:
        d = f.unique_def(up.m, up.stmt)
        if d is None or d.kind != "tuple" or not m.in_loop(d.stmt):
            raise f.und(f"local matrix {up.m} is not bound by unpacking the local discretization inside the loop", up.stmt)
        stmts[id(d.stmt)] = d.stmt
    names: list[str] = []
    alias: dict[str, list[str]] = {}
    for s in stmts.values():
        tgt = s.targets[0] if isinstance(s, ast.Assign) and len(s.targets) == 1 else None
        if not isinstance(tgt, ast.Tuple) or any(not isinstance(e, ast.Name) for e in tgt.elts):
            raise f.und("unpacking of the local discretization is not a flat tuple of names", s)
        elts = [e.id for e in tgt.elts]  # type: ignore[attr-defined]
        names += [e for e in elts if e != "_"]
        v = s.value  # type: ignore[attr-defined]
        if isinstance(v, ast.Name):
            src = f.unique_plain(v.id, s)
            if not isinstance(src, ast.Call):
                raise f.und(f"tuple {v.id} is not the direct result of a call", s)
            alias[v.id] = elts
        elif not isinstance(v, ast.Call):
            raise f.und("local matrices are not unpacked from a call", s)
    return names, alias


def expand_args(m: Model, args: list[ast.expr], at: ast.stmt, alias: dict[str, list[str]]) -> list[str]:
    f = m.f
    out: list[str] = []
    for a in args:
        if isinstance(a, ast.Name):
            if a.id in alias:
                raise f.und(f"tuple {a.id} passed un-starred to remove_nonlocal_contribution", at)
            out.append(a.id)
            continue
        if not isinstance(a, ast.Starred):
            raise f.und("unrecognised matrix argument of remove_nonlocal_contribution", a)
        v = a.value
        if isinstance(v, ast.Name) and v.id in alias:
            out += [x for x in alias[v.id] if x != "_"]
        elif (isinstance(v, ast.Subscript) and isinstance(v.value, ast.Name) and v.value.id in alias
              and isinstance(v.slice, ast.Slice)):
            def cst(x):
                if x is None:
                    return None
                try:
                    return int(ast.literal_eval(x))
                except Exception:
                    raise f.und("non-literal slice of the local-matrix tuple", a)
            sl = slice(cst(v.slice.lower), cst(v.slice.upper), cst(v.slice.step))
            out += [x for x in alias[v.value.id][sl] if x != "_"]
        elif (isinstance(v, ast.Call) and isinstance(v.func, ast.Name) and v.func.id in m.dict_value_funcs
              and len(v.args) == 1 and isinstance(v.args[0], ast.Name)):
            out.append(v.args[0].id)
        elif (isinstance(v, ast.Call) and isinstance(v.func, ast.Attribute) and v.func.attr == "values"
              and isinstance(v.func.value, ast.Name) and not v.args):
            out.append(v.func.value.id)
        elif isinstance(v, (ast.List, ast.Tuple)):
            out += expand_args(m, list(v.elts), at, alias)
        else:
            raise f.und("unrecognised starred argument of remove_nonlocal_contribution", a)
    return out


def removal_calls(m: Model) -> list[tuple[ast.stmt, ast.Call]]:
    out = []
    for s in m.f.stmts:
        if isinstance(s, ast.Expr) and isinstance(s.value, ast.Call) and call_name(s.value) == "remove_nonlocal_contribution":
            c = s.value
            if len(c.args) < 3 or any(isinstance(a, ast.Starred) for a in c.args[:2]) or c.keywords:
                raise m.f.und("remove_nonlocal_contribution call without (index set, nd, matrices...)", c)
            out.append((s, c))
    return out


def _np_call(e: ast.expr, names: set[str]) -> Optional[ast.Call]:
    return e if isinstance(e, ast.Call) and call_name(e) in names else None


def loop_removals(m: Model, alias: dict[str, list[str]]) -> list[Removal]:
    f, T = m.f, m.T
    out = []
    for s, c in removal_calls(m):
        if not m.in_loop(s):
            continue
        e = c.args[0]
        if isinstance(e, ast.Name):
            d = f.unique_def(e.id, s)
            if d is None or d.kind != "plain" or not m.in_loop(d.stmt):
                raise f.und("index set of an in-loop removal has no unique definition inside the loop", c)
            e = d.value
        # where(logical_not(isin(A, B)))[0]  |  flatnonzero(~isin(A, B))  |  isin(A, B, invert=True)
        if isinstance(e, ast.Subscript) and _np_call(e.value, {"where", "nonzero"}) and u(e.slice) == "0":
            inner = e.value.args[0] if e.value.args else None  # type: ignore[attr-defined]
        elif _np_call(e, {"flatnonzero"}):
            inner = e.args[0] if e.args else None  # type: ignore[attr-defined]
        else:
            raise f.und("unrecognised form of the in-loop elimination index set", e)
        neg = False
        if inner is not None and _np_call(inner, {"logical_not"}) and inner.args:  # type: ignore[attr-defined]
            inner, neg = inner.args[0], True  # type: ignore[attr-defined]
        elif isinstance(inner, ast.UnaryOp) and isinstance(inner.op, ast.Invert):
            inner, neg = inner.operand, True
        isin = _np_call(inner, {"isin", "in1d"}) if inner is not None else None
        if isin is None or len(isin.args) != 2:
            raise f.und("unrecognised form of the in-loop elimination index set", e)
        inv = kwarg(isin, "invert")
        if inv is not None:
            if not isinstance(inv, ast.Constant):
                raise f.und("non-literal invert= in isin", isin)
            neg = neg != bool(inv.value)
        A, B = isin.args
        if not (isinstance(A, ast.Name) and isinstance(B, ast.Name)) or {A.id, B.id} - set(T.values()):
            raise f.und("in-loop elimination set is not built from the subproblem tuple", isin)
        pair = (A.id, B.id)
        fpair, cpair = (T["l2g_faces"], T["faces_in"]), (T["l2g_cells"], T["cells_in"])
        pair_ok = neg and pair in (fpair, cpair)
        kind = "F" if A.id in fpair else "C"
        out.append(Removal(s, c, kind, c.args[1], expand_args(m, c.args[2:], s, alias), None, pair_ok, pair + (neg,)))
    return out


def final_removals(m: Model) -> list[Removal]:
    f = m.f
    out = []
    for s, c in removal_calls(m):
        if m.in_loop(s):
            continue
        if not m.after_loop(s):
            raise f.und("remove_nonlocal_contribution before the subproblem loop", c)
        e = f.canon(c.args[0], s, depth=1) if isinstance(c.args[0], ast.Name) else c.args[0]
        sd_ = _np_call(e, {"setdiff1d"})
        ar = _np_call(sd_.args[0], {"arange"}) if sd_ is not None and len(sd_.args) == 2 else None
        if ar is None or len(ar.args) != 1:
            raise f.und("final elimination set is not setdiff1d(arange(n), keep)", c.args[0])
        n = f.canon(ar.args[0], s)
        if not (isinstance(n, ast.Attribute) and n.attr in ("num_faces", "num_cells") and u(n.value) == m.sd):
            raise f.und("final elimination set does not range over the faces/cells of the full grid", ar)
        out.append(Removal(s, c, "F" if n.attr == "num_faces" else "C", c.args[1],
                           expand_args(m, c.args[2:], s, {}), sd_.args[1]))  # type: ignore[union-attr]
    return out


@dataclass
class Scaling:
    stmt: ast.stmt
    acc: str
    side: str  # 'left' | 'right'
    sx: ast.expr


def scalings(m: Model) -> tuple[list[Scaling], list[tuple[ast.stmt, str]]]:
    """Post-loop re-definitions of accumulators: recognised scalings, and the rest."""
    f = m.f
    sc, other = [], []
    for s in f.stmts:
        if not m.after_loop(s):
            continue
        if isinstance(s, ast.Assign) and len(s.targets) == 1:
            tgt, val = s.targets[0], s.value
        elif isinstance(s, ast.AugAssign):
            tgt, val = s.target, s
        else:
            continue
        ref = split_ref(tgt)
        if ref is None or ref[0] not in m.accs:
            if base_name(tgt) in m.accs:
                raise f.und("unrecognised store into an accumulator after the loop", s)
            continue
        if isinstance(s, ast.AugAssign):
            raise f.und("augmented assignment to an accumulator after the loop", s)
        v = strip_conv(val)
        if isinstance(v, ast.BinOp) and isinstance(v.op, (ast.Mult, ast.MatMult)):
            if u(v.right) == u(tgt) and u(v.left) != u(tgt):
                sc.append(Scaling(s, ref[0], "left", v.left))
                continue
            if u(v.left) == u(tgt) and u(v.right) != u(tgt):
                sc.append(Scaling(s, ref[0], "right", v.right))
                continue
        raise f.und("accumulator re-defined after the loop by something other than  S @ acc", s)
    return sc, other


@dataclass
class ScaleInfo:
    recip: Optional[bool]
    vec: bool
    nd: Optional[str]
    order_ok: bool
    lst: Optional[str]
    form: str


def scaling_matrix(m: Model, sx: ast.expr, at: ast.stmt) -> ScaleInfo:
    f = m.f
    e = f.canon(sx, at, depth=1) if isinstance(sx, ast.Name) else sx
    c = _np_call(e, DIAG_CTORS)
    if c is None or not c.args:
        raise f.und("scaling factor is not a diagonal sparse matrix constructor", sx)
    data = c.args[0]
    if call_name(c) in ("dia_matrix", "dia_array"):
        if not (isinstance(data, ast.Tuple) and len(data.elts) == 2 and u(data.elts[1]) == "0"):
            raise f.und("dia_matrix scaling is not ((data, 0), shape)", c)
        data = data.elts[0]
    elif isinstance(data, (ast.List, ast.Tuple)) and len(data.elts) == 1:
        data = data.elts[0]
    data = f.canon(data, at, depth=1) if isinstance(data, ast.Name) else data
    recip: Optional[bool] = False
    rep = data
    if isinstance(data, ast.BinOp) and isinstance(data.op, ast.Div):
        if isinstance(data.left, ast.Constant) and data.left.value in (1, 1.0):
            recip, rep = True, data.right
        else:
            raise f.und("scaling diagonal is a quotient with a numerator other than 1", data)
    elif isinstance(data, ast.BinOp) and isinstance(data.op, ast.Pow) and u(data.right) in ("-1", "-1.0"):
        recip, rep = True, data.left
    elif _np_call(data, {"reciprocal"}) and data.args:  # type: ignore[attr-defined]
        recip, rep = True, data.args[0]  # type: ignore[attr-defined]
    rep = f.canon(rep, at, depth=1) if isinstance(rep, ast.Name) else rep
    # strip ravel / flatten
    order = None
    vec, nd, order_ok, form = False, None, True, "bincount"
    x = rep
    if isinstance(x, ast.Call) and isinstance(x.func, ast.Attribute) and x.func.attr in ("ravel", "flatten"):
        o = x.args[0] if x.args else kwarg(x, "order")
        order = o.value if isinstance(o, ast.Constant) else ("C" if o is None else "?")
        x = x.func.value
    t = _np_call(x, {"tile"})
    rp = _np_call(x, {"repeat"})
    if t is not None and len(t.args) == 2:
        reps = t.args[1]
        vec = True
        if isinstance(reps, ast.Tuple) and len(reps.elts) == 2 and u(reps.elts[1]) == "1":
            nd = f.dim_token(reps.elts[0], at)
            order_ok = order == "F"  # (nd, nf) array: face-major component ordering needs column-major ravel
            form = f"tile(.,({u(reps.elts[0])},1)).ravel({order!r})"
        elif isinstance(reps, ast.Tuple) and len(reps.elts) == 2 and u(reps.elts[0]) == "1":
            nd, order_ok, form = f.dim_token(reps.elts[1], at), False, "tile(.,(1,n)): block ordering"
        elif not isinstance(reps, ast.Tuple):
            nd, order_ok, form = f.dim_token(reps, at), False, "tile(.,n): block ordering"
        else:
            raise f.und("unrecognised tiling of the repetition count", t)
        x = t.args[0]
    elif rp is not None and len(rp.args) == 2 and order is None:
        vec, nd, form = True, f.dim_token(rp.args[1], at), "repeat(., n)"
        x = rp.args[0]
    elif order is not None:
        raise f.und("ravel of an untiled repetition count", rep)
    b = _np_call(x, {"bincount"})
    cc = _np_call(b.args[0], {"concatenate", "hstack"}) if b is not None and b.args else None
    if cc is None or len(cc.args) != 1 or not isinstance(cc.args[0], ast.Name):
        raise f.und("repetition count is not bincount(concatenate(<list>))", rep)
    return ScaleInfo(recip, vec, nd, order_ok, cc.args[0].id, form)


@dataclass
class GlobDef:
    stmt: ast.stmt
    g: str
    g_key: Optional[str]
    acc: str
    acc_key: Optional[str]
    L: Optional[MapRef]  # None for a plain alias (no-restriction shortcut)
    R: Optional[MapRef]
    alias: bool
    arm: tuple  # (id of the enclosing If or 0, 'body'|'orelse'|'')


def glob_defs(m: Model) -> list[GlobDef]:
    f = m.f
    out = []
    for s in f.stmts:
        if not m.after_loop(s) or not isinstance(s, (ast.Assign, ast.AnnAssign)) or getattr(s, "value", None) is None:
            continue
        tgt = s.targets[0] if isinstance(s, ast.Assign) else s.target
        if isinstance(s, ast.Assign) and len(s.targets) != 1:
            continue
        ref = split_ref(tgt)
        if ref is not None and ref[0] in m.accs:
            continue  # re-definition of an accumulator: handled by scalings()
        val = s.value
        used = names_in(val) & set(m.accs)
        if not used:
            continue
        if ref is None:
            raise f.und("accumulator flows into an unrecognised assignment target after the loop", s)
        iff, arm = f.arm_of(s)
        armk = (id(iff) if iff is not None else 0, arm or "")
        a = split_ref(strip_conv(val))
        if a is not None and a[0] in m.accs:
            out.append(GlobDef(s, ref[0], ref[1], a[0], a[1], None, None, True, armk))
            continue
        fac = f.flatten(val, s)
        if len(fac) != 3:
            raise f.und("full-grid mapping of an accumulator is not  map * acc * map", s)
        a = split_ref(fac[1])
        L, R = m.map_ref(fac[0], s), m.map_ref(fac[2], s)
        if a is None or a[0] not in m.accs or L is None or R is None:
            raise f.und("full-grid mapping of an accumulator is not  map * acc * map", s)
        out.append(GlobDef(s, ref[0], ref[1], a[0], a[1], L, R, False, armk))
    if not out:
        raise AnchorError(f"{f.where()}: no mapping of the accumulators to the full grid found")
    return out


def is_matdict(m: Model, e: ast.expr, at: ast.stmt) -> bool:
    c = m.f.canon(e, at)
    return (isinstance(c, ast.Subscript) and isinstance(c.slice, ast.Attribute) and c.slice.attr == "keyword"
            and isinstance(c.value, ast.Subscript) and isinstance(c.value.slice, ast.Attribute)
            and c.value.slice.attr == "DISCRETIZATION_MATRICES")


def writes(m: Model, globs: set[str]) -> list[Write]:
    f = m.f
    out = []
    for s in f.stmts:
        if not isinstance(s, ast.Assign) or len(s.targets) != 1 or not isinstance(s.targets[0], ast.Subscript):
            continue
        chain = []
        t = s.targets[0]
        while isinstance(t, ast.Subscript):
            chain.append(t.slice)
            t = t.value
        chain.reverse()
        if not isinstance(t, ast.Name) or not is_matdict(m, t, s):
            continue
        key = u(chain[0])
        if len(chain) == 1:
            g = s.value.id if isinstance(s.value, ast.Name) and s.value.id in globs else None
            if g is None and names_in(s.value) & globs:
                raise f.und("a full-grid matrix is stored through an unrecognised expression", s)
            out.append(Write(s, key, 1, g))
            continue
        if len(chain) > 3:
            raise f.und("unrecognised store into the matrix dictionary", s)
        rhs = s.value
        if not isinstance(rhs, ast.Subscript):
            raise f.und("row-subset store whose right-hand side is not a row subset", s)
        gref = split_ref(rhs.value)
        if gref is None or gref[0] not in globs:
            raise f.und("row-subset store does not read a full-grid matrix", s)
        out.append(Write(s, key, len(chain), gref[0], gref[1], chain[-1], rhs.slice,
                         u(chain[1]) if len(chain) == 3 else None))
    if not out:
        raise AnchorError(f"{f.where()}: no store into data[DISCRETIZATION_MATRICES][keyword] found")
    return out
