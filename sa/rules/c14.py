"""C14 - FV split independence: completeness of the sub-problem bookkeeping of
Mpfa/Mpsa/Biot.discretize (row-space typing of every local matrix, nonlocal removal, face
repetition rescaling, accumulate -> map -> remove -> store chain, factor/space agreement)."""
from __future__ import annotations

import ast
import copy
from dataclasses import dataclass
from typing import Optional

from ..core import cfg as cfgmod
from ..core.astutil import u, call_name, kwarg, names_in, stmts_local, assigned_targets, parent_map, body_nodoc
from ..core.loader import AnchorError, Undecided
from ..core.report import Ctx

MPFA = "src/porepy/numerics/fv/mpfa.py"
MPSA = "src/porepy/numerics/fv/mpsa.py"
BIOT = "src/porepy/numerics/fv/biot.py"
FVUTILS = "src/porepy/numerics/fv/_fvutils.py"
PARTITION = "src/porepy/grids/partition.py"
TARGETS = [(MPFA, "Mpfa"), (MPSA, "Mpsa"), (BIOT, "Biot")]

# Set to True to turn the dictionary-level mismatch of Biot's update arm (see R3 note) into
# a finding instead of a note (then it needs a known_findings.json entry).
REPORT_KEYED_UPDATE_LEVEL = True

META = {
    "explanation": (
        "Static dataflow analysis of the split/merge bookkeeping in Mpfa.discretize, Mpsa.discretize and "
        "Biot.discretize. Every accumulator is typed (rows, columns: faces/cells, scalar/vector) from the shape it "
        "is initialised with; every local matrix is typed by the left factor of its accumulation. R1: each local "
        "matrix is zeroed on the overlap by remove_nonlocal_contribution with the index set of its own row space "
        "(faces: l2g_faces not in faces_in_subgrid; cells: l2g_cells not in cells_in_subgrid), before it is "
        "accumulated, with nd matching scalar/vector rows; the same typing for the final removal over non-active "
        "faces/cells. R2: each face-row accumulator is left-multiplied exactly once, after the loop, by the "
        "diagonal matrix 1/bincount(concatenate(list of faces_in_subgrid)) (tiled per component in face-major "
        "order for vector rows); no cell-row accumulator is. R3: the sets {local matrices returned by the local "
        "discretization} = {accumulated}, {accumulators} = {assigned in the no-split shortcut} = {mapped to the "
        "full grid, in each arm} = {passed to the final removal} = {written in the full arm} = {written in the "
        "update arm}, same dictionary keys in every arm, same key->matrix pairing, row subset written on update = "
        "complement of the rows removed. R4: left/right factors of every accumulation and full-grid map agree "
        "with the accumulator's row/column space and the maps are built from (grid, l2g_faces, l2g_cells) / "
        "(sd, extracted_faces, active_cells). R5: the repetition count and the shortcut test use faces_in_subgrid "
        "(not l2g_faces) and the consumer's positional reading of the subproblems() tuple agrees with the "
        "producer. R6: remove_nonlocal_contribution zeroes rows expand(raw_ind, nd) of *every* matrix passed. "
        "R7: the left/right key tables of update_discretization agree with the typing derived from discretize. "
        "R8: `_bc_for_subgrid` copies every per-face attribute of the boundary condition (set from bc.py's __init__) to "
        "the attribute of the same name restricted by the face map in its last axis; inside the loop boundary condition "
        "and constitutive data are cut from the active grid's objects with (sub-grid, l2g_faces) / l2g_cells. "
        "R9: the cells whose rows of the cell-row matrices are kept/updated are selected with an all-faces criterion "
        "(today Biot uses `at least one active face`: known finding). "
        "R8 also covers array-valued eta: an array numbered on the full grid must be restricted to the active grid before "
        "it is gathered with l2g_faces (known finding in Mpfa and Mpsa). R10: a map_grid(<sub-grid>) reached from the "
        "in-loop local discretization (one level of self-method calls) must receive its rotation from discretize, fixed "
        "before the loop (fixed in 9eb643a6e). R11: the cell set "
        "returned by cell_ind_for_partial_update, concatenated over independent modes, is uniqued (fixed in 536488c03). "
        "Decides this bookkeeping (a necessary condition for split independence), not equality of matrix values, "
        "not the overlap construction in subproblems()/cell_ind_for_partial_update, not numba-vs-python inverters."),
    "rule_text": "one obligation per (local matrix | accumulator x stage | removal call | map call | key | yield)",
    "trusted_base": ["python ast", "sa.core (loader, astutil, cfg)",
                     "scipy semantics: A*B on spmatrix is the matrix product; zero_rows works in place",
                     "partition.subgrid_to_grid_mapping returns (face_map [glob x loc], cell_map [loc x glob])"],
    "assumptions": ["loops over the coupling keywords visit every key and run at least once",
                    "grid dimension is the same for sd, the active grid and each subgrid (X.dim are identified)",
                    "the update arm of Biot.discretize (update_discretization=True) is dictionary-level inconsistent "
                    "today (reported as a note, see final report); set REPORT_KEYED_UPDATE_LEVEL to make it a finding"],
    "technique": "typed dataflow over a statement CFG (reaching definitions + dominance) with set-equality chain, on a "
                 "desugared normal form (one level of private straight-line helpers inlined, loops/comprehensions over "
                 "literal sequences unrolled, parallel tuple assignments split)",
}
MIN_INSTANCES = {"R1": 40, "R2": 22, "R3": 200, "R4": 100, "R5": 15, "R6": 3, "R7": 38, "R8": 34, "R9": 1, "R10": 3, "R11": 1}

CONV = {"tocsr", "tocsc", "tocoo", "copy"}
SPARSE_CTORS = {"csr_matrix", "csc_matrix", "coo_matrix", "csr_array", "csc_array", "coo_array"}
DIAG_CTORS = {"dia_matrix", "dia_array", "diags", "diags_array"}


# ------------------------------------------------------------------------------------
# small expression helpers

def strip_conv(e: ast.expr) -> ast.expr:
    while (isinstance(e, ast.Call) and isinstance(e.func, ast.Attribute) and e.func.attr in CONV
           and not e.args and not e.keywords):
        e = e.func.value
    return e


def base_name(t: ast.expr) -> Optional[str]:
    while isinstance(t, ast.Subscript):
        t = t.value
    return t.id if isinstance(t, ast.Name) else None


def split_ref(e: ast.expr) -> Optional[tuple[str, Optional[str]]]:
    """Name -> (id, None); Name[key] -> (id, 'key'); else None."""
    if isinstance(e, ast.Name):
        return e.id, None
    if isinstance(e, ast.Subscript) and isinstance(e.value, ast.Name):
        return e.value.id, u(e.slice)
    return None


def is_transpose(e: ast.expr) -> Optional[ast.expr]:
    if isinstance(e, ast.Attribute) and e.attr == "T":
        return e.value
    if (isinstance(e, ast.Call) and isinstance(e.func, ast.Attribute) and e.func.attr == "transpose"
            and not e.args and not e.keywords):
        return e.func.value
    return None


# ------------------------------------------------------------------------------------
# desugaring: the analyses below work on a normalised copy of each function in which
#   * one level of private straight-line helpers (`self._h(..)`, `Cls._h(..)`, `_h(..)`) is inlined,
#   * comprehensions and for-loops over literal sequences (incl. names bound once to a literal list
#     of pairs, enumerate(..), zip(..)) are unrolled,
#   * parallel tuple assignments `a, b = x, y` are split when that is order-safe.
# All of these are behaviour preserving, so a rule that holds on the normal form holds on the source.

class _Subst(ast.NodeTransformer):
    def __init__(self, mapping: dict):
        self.mapping = mapping

    def visit_Name(self, n: ast.Name):
        if isinstance(n.ctx, ast.Load) and n.id in self.mapping:
            return copy.deepcopy(self.mapping[n.id])
        return n


def _subst(node: ast.AST, mapping: dict) -> ast.AST:
    return _Subst(mapping).visit(copy.deepcopy(node))


def _stores(root: ast.AST) -> dict[str, int]:
    cnt: dict[str, int] = {}
    for n in ast.walk(root):
        if isinstance(n, ast.Name) and isinstance(n.ctx, (ast.Store, ast.Del)):
            cnt[n.id] = cnt.get(n.id, 0) + 1
        elif isinstance(n, ast.arg):
            cnt[n.arg] = cnt.get(n.arg, 0) + 1
    return cnt


def _no_star(elts) -> bool:
    return not any(isinstance(e, ast.Starred) for e in elts)


class _Desugar:
    MAX_ELTS = 24

    def __init__(self, mod, fn: ast.FunctionDef, cls: Optional[ast.ClassDef]):
        self.mod, self.fn, self.cls = mod, fn, cls

    # -- literal sequences --------------------------------------------------------------------
    def seq_names(self) -> dict[str, list]:
        """names bound exactly once, to a literal list/tuple, and never mutated"""
        cnt = _stores(self.fn)
        out: dict[str, list] = {}
        mutated = set()
        for n in ast.walk(self.fn):
            if isinstance(n, ast.Call) and isinstance(n.func, ast.Attribute) and isinstance(n.func.value, ast.Name) \
                    and n.func.attr in ("append", "extend", "insert", "pop", "remove", "clear", "sort", "reverse"):
                mutated.add(n.func.value.id)
            if isinstance(n, (ast.Subscript, ast.Attribute)) and isinstance(n.ctx, (ast.Store, ast.Del)):
                b = n
                while isinstance(b, (ast.Subscript, ast.Attribute)):
                    b = b.value
                if isinstance(b, ast.Name):
                    mutated.add(b.id)
            if isinstance(n, ast.AugAssign) and isinstance(n.target, ast.Name):
                mutated.add(n.target.id)
        for n in ast.walk(self.fn):
            tgt = val = None
            if isinstance(n, ast.Assign) and len(n.targets) == 1:
                tgt, val = n.targets[0], n.value
            elif isinstance(n, ast.AnnAssign) and n.value is not None:
                tgt, val = n.target, n.value
            if isinstance(tgt, ast.Name) and cnt.get(tgt.id) == 1 and tgt.id not in mutated \
                    and isinstance(val, (ast.List, ast.Tuple)) and _no_star(val.elts) and 0 < len(val.elts) <= self.MAX_ELTS:
                out[tgt.id] = list(val.elts)
        return out

    def literal_seq(self, e: ast.expr, seqs: dict) -> Optional[list]:
        if isinstance(e, (ast.List, ast.Tuple)) and _no_star(e.elts) and len(e.elts) <= self.MAX_ELTS:
            return list(e.elts)
        if isinstance(e, ast.Name) and e.id in seqs:
            return seqs[e.id]
        if isinstance(e, ast.Call) and isinstance(e.func, ast.Name) and not e.keywords:
            if e.func.id in ("list", "tuple") and len(e.args) == 1:
                return self.literal_seq(e.args[0], seqs)
            if e.func.id == "enumerate" and len(e.args) == 1:
                inner = self.literal_seq(e.args[0], seqs)
                if inner is not None:
                    return [ast.Tuple(elts=[ast.Constant(value=i), x], ctx=ast.Load()) for i, x in enumerate(inner)]
            if e.func.id == "zip" and e.args:
                inners = [self.literal_seq(a, seqs) for a in e.args]
                if all(i is not None for i in inners) and len({len(i) for i in inners}) == 1:  # type: ignore[arg-type]
                    return [ast.Tuple(elts=list(t), ctx=ast.Load()) for t in zip(*inners)]  # type: ignore[arg-type]
        return None

    def match(self, tgt: ast.expr, elem: ast.expr) -> Optional[dict]:
        if isinstance(tgt, ast.Name):
            return {tgt.id: elem}
        if isinstance(tgt, (ast.Tuple, ast.List)) and _no_star(tgt.elts) and isinstance(elem, (ast.Tuple, ast.List)) \
                and _no_star(elem.elts) and len(elem.elts) == len(tgt.elts):
            out: dict = {}
            for t, x in zip(tgt.elts, elem.elts):
                m = self.match(t, x)
                if m is None:
                    return None
                out.update(m)
            return out
        return None

    # -- passes -------------------------------------------------------------------------------------
    def expand_comprehensions(self, seqs: dict) -> bool:
        outer = self
        changed = [False]

        class T(ast.NodeTransformer):
            def generic_comp(self, n):
                self.generic_visit(n)
                if len(n.generators) != 1:
                    return n
                g = n.generators[0]
                if g.ifs or g.is_async:
                    return n
                seq = outer.literal_seq(g.iter, seqs)
                if seq is None:
                    return n
                elts = []
                for x in seq:
                    m = outer.match(g.target, x)
                    if m is None:
                        return n
                    elts.append(_subst(n.elt, m))
                changed[0] = True
                return ast.copy_location(ast.List(elts=elts, ctx=ast.Load()), n)

            visit_ListComp = generic_comp
            visit_GeneratorExp = generic_comp

        T().visit(self.fn)
        return changed[0]

    def rewrite_blocks(self, f) -> bool:
        """apply f(stmt) -> Optional[list[stmt]] to every statement of every block (bottom-up)"""
        changed = [False]

        def block(stmts: list) -> list:
            out = []
            for s in stmts:
                if isinstance(s, (ast.FunctionDef, ast.AsyncFunctionDef, ast.ClassDef)) and s is not self.fn:
                    out.append(s)
                    continue
                for fld in ("body", "orelse", "finalbody"):
                    b = getattr(s, fld, None)
                    if isinstance(b, list) and b and isinstance(b[0], ast.stmt):
                        setattr(s, fld, block(b))
                for h in getattr(s, "handlers", []) or []:
                    h.body = block(h.body)
                r = f(s)
                if r is None:
                    out.append(s)
                else:
                    changed[0] = True
                    out.extend(r)
            return out

        self.fn.body = block(self.fn.body)
        return changed[0]

    def unroll_loops(self, seqs: dict) -> bool:
        def f(s):
            if not isinstance(s, ast.For) or s.orelse:
                return None
            seq = self.literal_seq(s.iter, seqs)
            if seq is None:
                return None
            if any(isinstance(n, (ast.Break, ast.Continue)) for b in s.body for n in ast.walk(b)):
                return None
            tvars = {n.id for n in ast.walk(s.target) if isinstance(n, ast.Name)}
            if any(isinstance(n, ast.Name) and isinstance(n.ctx, ast.Store) and n.id in tvars for b in s.body for n in ast.walk(b)):
                return None
            out = []
            for x in seq:
                m = self.match(s.target, x)
                if m is None:
                    return None
                out += [_subst(b, m) for b in s.body]
            return out

        return self.rewrite_blocks(f)

    def split_tuple_assigns(self) -> bool:
        def f(s):
            if not (isinstance(s, ast.Assign) and len(s.targets) == 1 and isinstance(s.targets[0], (ast.Tuple, ast.List))
                    and isinstance(s.value, (ast.Tuple, ast.List))):
                return None
            ts, vs = s.targets[0].elts, s.value.elts
            if len(ts) != len(vs) or not _no_star(ts) or not _no_star(vs) or len(ts) < 2:
                return None
            written: set[str] = set()
            for t, v in zip(ts, vs):
                if names_in(v) & written:
                    return None  # a later value reads an earlier target: not order-safe
                written |= {n.id for n in ast.walk(t) if isinstance(n, ast.Name)} | ({base_name(t)} if base_name(t) else set())
            return [ast.copy_location(ast.Assign(targets=[t], value=v), s) for t, v in zip(ts, vs)]

        return self.rewrite_blocks(f)

    def drop_dead_seqs(self) -> None:
        seqs = self.seq_names()
        loads = {n.id for n in ast.walk(self.fn) if isinstance(n, ast.Name) and isinstance(n.ctx, ast.Load)}

        def f(s):
            tgt = s.targets[0] if isinstance(s, ast.Assign) and len(s.targets) == 1 else (s.target if isinstance(s, ast.AnnAssign) else None)
            if isinstance(tgt, ast.Name) and tgt.id in seqs and tgt.id not in loads and self._unrolled.get(tgt.id):
                return []
            return None

        self.rewrite_blocks(f)

    # -- helper inlining ------------------------------------------------------------------------------
    def callee(self, call: ast.Call):
        fnc = call.func
        name = recv = None
        if isinstance(fnc, ast.Attribute) and isinstance(fnc.value, ast.Name) and self.cls is not None \
                and fnc.value.id in ("self", "cls", self.cls.name):
            name, recv = fnc.attr, fnc.value
            pool = [x for x in self.cls.body if isinstance(x, ast.FunctionDef) and x.name == name]
        elif isinstance(fnc, ast.Name):
            name = fnc.id
            pool = [x for x in self.mod.tree.body if isinstance(x, ast.FunctionDef) and x.name == name]
        else:
            return None
        if not name or not name.startswith("_") or name.startswith("__") or len(pool) != 1 or pool[0] is self.fn:
            return None
        d = pool[0]
        decs = [u(x) for x in d.decorator_list]
        if any(x not in ("staticmethod", "classmethod") for x in decs):
            return None
        a = d.args
        if a.vararg or a.kwarg or a.posonlyargs:
            return None
        body = body_nodoc(d)
        if not body or len(body) > 12 or not isinstance(body[-1], ast.Return) or body[-1].value is None:
            return None
        for st in body[:-1]:
            ok = (isinstance(st, ast.Assign) and len(st.targets) == 1 and isinstance(st.targets[0], ast.Name)) or \
                 (isinstance(st, ast.AnnAssign) and isinstance(st.target, ast.Name) and st.value is not None)
            if not ok:
                return None
        params = [x.arg for x in a.args]
        mapping: dict = {}
        if recv is not None and "staticmethod" not in decs:
            if not params:
                return None
            mapping[params[0]] = recv
            params = params[1:]
        if len(call.args) > len(params) or any(isinstance(x, ast.Starred) for x in call.args) or any(k.arg is None for k in call.keywords):
            return None
        for pn, x in zip(params, call.args):
            mapping[pn] = x
        for k in call.keywords:
            if k.arg in mapping or k.arg not in params + [x.arg for x in a.kwonlyargs]:
                return None
            mapping[k.arg] = k.value
        defaults = dict(zip([x.arg for x in a.args][len(a.args) - len(a.defaults):], a.defaults))
        defaults.update({x.arg: dv for x, dv in zip(a.kwonlyargs, a.kw_defaults) if dv is not None})
        for pn in params + [x.arg for x in a.kwonlyargs]:
            if pn not in mapping:
                if pn not in defaults:
                    return None
                mapping[pn] = defaults[pn]
        for st in body[:-1]:
            tgt = st.targets[0] if isinstance(st, ast.Assign) else st.target
            mapping[tgt.id] = _subst(st.value, mapping)
        return _subst(body[-1].value, mapping)

    def inline_helpers(self) -> bool:
        outer = self
        changed = [False]

        class T(ast.NodeTransformer):
            def visit_FunctionDef(self, n):
                return n if n is not outer.fn else self.generic_visit(n)

            def visit_Call(self, n: ast.Call):
                self.generic_visit(n)
                r = outer.callee(n)
                if r is None:
                    return n
                changed[0] = True
                return ast.copy_location(r, n)

        T().visit(self.fn)
        return changed[0]

    def run(self) -> ast.FunctionDef:
        self._unrolled: dict[str, bool] = {}
        self.inline_helpers()
        for _ in range(6):
            seqs = self.seq_names()
            before = {k for k in seqs}
            ch = self.expand_comprehensions(seqs)
            ch = self.unroll_loops(self.seq_names()) or ch
            ch = self.split_tuple_assigns() or ch
            for k in before:
                self._unrolled[k] = True
            if not ch:
                break
        self.drop_dead_seqs()
        ast.fix_missing_locations(self.fn)
        return self.fn


_DESUGAR_CACHE: dict = {}


def desugar(mod, qual: str) -> ast.FunctionDef:
    """Normalised deep copy of the function `qual` of module `mod` (see _Desugar)."""
    orig = mod.func(qual)
    cls = mod.get(qual.rsplit(".", 1)[0]) if "." in qual else None
    key = (mod.digest, mod.rel, qual)
    if key not in _DESUGAR_CACHE:
        fn = copy.deepcopy(orig)
        _DESUGAR_CACHE[key] = _Desugar(mod, fn, cls if isinstance(cls, ast.ClassDef) else None).run()
    return _DESUGAR_CACHE[key]


@dataclass
class Def:
    stmt: ast.stmt
    kind: str  # plain | tuple | aug | for | sub
    value: Optional[ast.expr]
    pos: Optional[int] = None
    arity: Optional[int] = None
    extra: frozenset = frozenset()  # names in the subscript of a 'sub' store


@dataclass
class Space:
    kind: str  # 'F' | 'C'
    vec: bool
    nd: Optional[str]  # token of the per-entity dimension for vector spaces

    def txt(self) -> str:
        return {"F": "faces", "C": "cells"}[self.kind] + (f"*{self.nd}" if self.vec else "")


@dataclass
class MapRef:
    space: Space
    transposed: bool
    call: ast.Call
    stmt: ast.stmt


class Fn:
    """One analysed function: statements, CFG, definitions table and resolution helpers."""

    def __init__(self, mod, qual: str):
        self.mod, self.qual = mod, qual
        self.fn = desugar(mod, qual)
        self.stmts = list(stmts_local(self.fn))
        self.order = {id(s): i for i, s in enumerate(self.stmts)}
        self.pm = parent_map(self.fn)
        self.cfg = cfgmod.build(self.fn)
        self._node = {id(s): n for n, s in self.cfg.stmt.items()}
        self._dom = self.cfg.dominators()
        self.defs: dict[str, list[Def]] = {}
        self.no_expand: set[str] = set()  # names never treated as temporaries holding a partial product
        for s in self.stmts:
            if isinstance(s, ast.Assign):
                for t in s.targets:
                    self._bind(t, s.value, s)
            elif isinstance(s, ast.AnnAssign) and s.value is not None:
                self._bind(s.target, s.value, s)
            elif isinstance(s, ast.AugAssign):
                b = base_name(s.target)
                if b:
                    self._add(b, Def(s, "aug" if isinstance(s.target, ast.Name) else "sub", s.value))
            elif isinstance(s, ast.For):
                for t in assigned_targets(s):
                    if isinstance(t, ast.Name):
                        self._add(t.id, Def(s, "for", None))

    def where(self) -> str:
        return f"{self.mod.rel}:{self.qual}"

    def und(self, msg: str, node: Optional[ast.AST] = None) -> Undecided:
        return Undecided(f"{self.where()}: {msg}" + (f" [{u(node)[:100]}]" if node is not None else ""))

    def _add(self, name: str, d: Def) -> None:
        self.defs.setdefault(name, []).append(d)

    def _bind(self, t: ast.expr, value: ast.expr, s: ast.stmt) -> None:
        if isinstance(t, ast.Name):
            self._add(t.id, Def(s, "plain", value))
        elif isinstance(t, (ast.Tuple, ast.List)):
            starred = any(isinstance(e, ast.Starred) for e in t.elts)
            if (isinstance(value, (ast.Tuple, ast.List)) and len(value.elts) == len(t.elts) and not starred
                    and not any(isinstance(e, ast.Starred) for e in value.elts)):
                for tt, vv in zip(t.elts, value.elts):
                    self._bind(tt, vv, s)
                return
            seen_star = False
            for i, tt in enumerate(t.elts):
                if isinstance(tt, ast.Starred):
                    seen_star = True
                    continue
                if isinstance(tt, ast.Name):
                    pos = i - len(t.elts) if seen_star else i
                    self._add(tt.id, Def(s, "tuple", value, pos=pos, arity=None if starred else len(t.elts)))
        elif isinstance(t, ast.Subscript):
            b = base_name(t)
            if b:
                ex = set()
                tt = t
                while isinstance(tt, ast.Subscript):
                    ex |= names_in(tt.slice)
                    tt = tt.value
                self._add(b, Def(s, "sub", value, extra=frozenset(ex)))

    # -- structure ----------------------------------------------------------------
    def contains(self, p: ast.AST, b: ast.AST) -> bool:
        cur = b
        while cur is not None:
            if cur is p:
                return True
            cur = self.pm.get(cur)
        return False

    def stmt_of(self, node: ast.AST) -> ast.stmt:
        cur = node
        while not isinstance(cur, ast.stmt):
            cur = self.pm[cur]
        return cur

    def dominates(self, a: ast.stmt, b: ast.stmt) -> bool:
        na, nb = self._node.get(id(a)), self._node.get(id(b))
        if na is None or nb is None:
            raise self.und("statement without CFG node", a if na is None else b)
        return na in self._dom.get(nb, ())

    def precedes(self, a: ast.stmt, b: ast.stmt) -> bool:
        """a is executed before b on every path (loops not containing b are assumed to run)."""
        cur = a
        p = self.pm.get(a)
        while p is not None and p is not self.fn:
            if isinstance(p, (ast.For, ast.While)) and not self.contains(p, b):
                cur = p
            p = self.pm.get(p)
        if cur is b:
            return False
        return self.dominates(cur, b)

    def before(self, a: ast.stmt, b: ast.stmt) -> bool:
        return self.order[id(a)] < self.order[id(b)]

    def arm_of(self, s: ast.AST, skip_loops: bool = True) -> tuple[Optional[ast.If], Optional[str]]:
        """Innermost enclosing If (not crossing the function) and which arm s is in."""
        cur = s
        p = self.pm.get(cur)
        while p is not None and p is not self.fn:
            if isinstance(p, ast.If):
                if any(cur is x for x in p.body):
                    return p, "body"
                if any(cur is x for x in p.orelse):
                    return p, "orelse"
            cur, p = p, self.pm.get(p)
        return None, None

    def key_loop(self, s: ast.AST, stop: Optional[ast.AST] = None) -> Optional[ast.For]:
        """Innermost enclosing for-loop of s other than `stop`."""
        p = self.pm.get(s)
        while p is not None and p is not self.fn:
            if isinstance(p, ast.For) and p is not stop:
                return p
            p = self.pm.get(p)
        return None

    # -- reaching definitions --------------------------------------------------------
    def reaching(self, name: str, at: ast.stmt) -> list[Def]:
        # item stores (`x[i] = v`) mutate, they do not rebind the name
        ds = [d for d in self.defs.get(name, []) if d.kind != "sub" and self.before(d.stmt, at)]
        dom = [d for d in ds if self.precedes(d.stmt, at)]
        if dom:
            last = max(dom, key=lambda d: self.order[id(d.stmt)])
            return [last] + [d for d in ds if self.before(last.stmt, d.stmt) and d not in dom]
        return ds

    def unique_def(self, name: str, at: ast.stmt) -> Optional[Def]:
        r = self.reaching(name, at)
        return r[0] if len(r) == 1 else None

    def unique_plain(self, name: str, at: ast.stmt) -> Optional[ast.expr]:
        d = self.unique_def(name, at)
        return d.value if d is not None and d.kind == "plain" else None

    def canon(self, e: ast.expr, at: ast.stmt, depth: int = 6) -> ast.expr:
        """e with every name that has a unique reaching plain definition replaced by it."""
        outer = self

        class T(ast.NodeTransformer):
            def __init__(self, d):
                self.d = d

            def visit_Name(self, n: ast.Name):
                if isinstance(n.ctx, ast.Load) and self.d > 0:
                    dd = outer.unique_def(n.id, at)
                    if dd is not None and dd.kind == "plain" and dd.value is not None:
                        return T(self.d - 1).visit(copy.deepcopy(dd.value))
                return n

        return T(depth).visit(copy.deepcopy(e))

    def dim_token(self, e: ast.expr, at: ast.stmt) -> str:
        c = self.canon(e, at)
        if isinstance(c, ast.Attribute) and c.attr == "dim":
            return "DIM"
        if isinstance(c, ast.Constant):
            return repr(c.value)
        return u(c)

    def depends(self, name: str, target: str, at: ast.stmt) -> bool:
        seen, todo = set(), [name]
        while todo:
            n = todo.pop()
            if n == target:
                return True
            if n in seen:
                continue
            seen.add(n)
            for d in self.defs.get(n, []):
                if not self.before(d.stmt, at):
                    continue
                if d.value is not None:
                    todo += list(names_in(d.value))
                todo += list(d.extra)
        return False

    # -- products -------------------------------------------------------------------------
    def flatten(self, e: ast.expr, at: ast.stmt, depth: int = 4) -> list[ast.expr]:
        e = strip_conv(e)
        if isinstance(e, ast.BinOp) and isinstance(e.op, (ast.Mult, ast.MatMult)):
            return self.flatten(e.left, at, depth) + self.flatten(e.right, at, depth)
        if isinstance(e, ast.Name) and depth > 0 and e.id not in self.no_expand:
            v = self.unique_plain(e.id, at)
            if v is not None and e.id not in names_in(v):
                sv = strip_conv(v)
                if isinstance(sv, ast.BinOp) and isinstance(sv.op, (ast.Mult, ast.MatMult)):
                    return self.flatten(sv, at, depth - 1)  # a temporary holding a partial product
        return [e]


# ------------------------------------------------------------------------------------
# model of one discretize() function

@dataclass
class Upd:
    stmt: ast.stmt
    acc: str
    acc_key: Optional[str]
    m: str
    m_key: Optional[str]
    L: Optional[MapRef]
    R: Optional[MapRef]
    Lx: ast.expr = None  # type: ignore[assignment]
    Rx: ast.expr = None  # type: ignore[assignment]


@dataclass
class Removal:
    stmt: ast.stmt
    call: ast.Call
    kind: str  # 'F' | 'C'
    nd: ast.expr
    names: list[str]
    keep: Optional[ast.expr] = None  # final removals: the set that is *not* removed
    pair_ok: bool = True
    pair: tuple = ()


@dataclass
class Write:
    stmt: ast.stmt
    key: str
    depth: int
    g: Optional[str]  # global matrix name stored (None: something else, e.g. an empty matrix)
    g_key: Optional[str] = None
    lhs_ind: Optional[ast.expr] = None
    rhs_ind: Optional[ast.expr] = None
    lhs_mid: Optional[str] = None


class Model:
    def __init__(self, f: Fn):
        self.f = f
        self._find_loop()
        self.dict_value_funcs = self._dict_value_funcs()
        self.map_calls: dict[int, tuple[ast.Call, ast.stmt]] = {}
        self._find_updates()
        self._find_shapes()

    # -- anchors -------------------------------------------------------------------------
    def _find_loop(self) -> None:
        f = self.f
        loops = []
        for s in f.stmts:
            if isinstance(s, ast.For):
                cs = [c for c in ast.walk(s.iter) if isinstance(c, ast.Call) and call_name(c) == "subproblems"]
                if cs:
                    loops.append((s, cs[0]))
        if len(loops) != 1:
            raise AnchorError(f"{f.where()}: expected one loop over subproblems(...), found {len(loops)}")
        self.loop, call = loops[0]
        it, tgt = self.loop.iter, self.loop.target
        if isinstance(it, ast.Call) and call_name(it) == "enumerate" and it.args and it.args[0] is call:
            if not (isinstance(tgt, ast.Tuple) and len(tgt.elts) == 2):
                raise f.und("enumerate(subproblems(..)) target is not a pair", tgt)
            tgt = tgt.elts[1]
        elif it is not call:
            raise f.und("subproblems(...) wrapped in an unknown iterator", it)
        if not (isinstance(tgt, ast.Tuple) and len(tgt.elts) == 5 and all(isinstance(e, ast.Name) for e in tgt.elts)):
            raise f.und("loop target over subproblems(...) is not a 5-tuple of names", tgt)
        n = [e.id for e in tgt.elts]  # type: ignore[attr-defined]
        self.T = dict(sub=n[0], faces_in=n[1], cells_in=n[2], l2g_cells=n[3], l2g_faces=n[4])
        if not call.args or not isinstance(call.args[0], ast.Name):
            raise f.und("first argument of subproblems(...) is not a name", call)
        self.grid = call.args[0].id
        args = f.fn.args.args
        if len(args) < 2:
            raise AnchorError(f"{f.where()}: discretize(self, sd, data) signature expected")
        self.sd = args[1].arg

    def in_loop(self, s: ast.AST) -> bool:
        return s is not self.loop and self.f.contains(self.loop, s)

    def after_loop(self, s: ast.stmt) -> bool:
        return not self.f.contains(self.loop, s) and self.f.before(self.loop, s)

    def before_loop(self, s: ast.stmt) -> bool:
        return not self.f.contains(self.loop, s) and self.f.before(s, self.loop)

    def _dict_value_funcs(self) -> set[str]:
        out = set()
        for s in self.f.stmts:
            if isinstance(s, ast.FunctionDef) and len(s.args.args) == 1 and not s.args.vararg and not s.args.kwonlyargs:
                p = s.args.args[0].arg
                b = body_nodoc(s)
                if len(b) == 1 and isinstance(b[0], ast.Return) and b[0].value is not None and _is_values_list(b[0].value, p):
                    out.add(s.name)
        return out

    # -- maps --------------------------------------------------------------------------------
    def map_ref(self, e: ast.expr, at: ast.stmt, transposed: bool = False, depth: int = 3) -> Optional[MapRef]:
        f = self.f
        t = is_transpose(e)
        if t is not None:
            return self.map_ref(t, at, not transposed, depth)
        if not isinstance(e, ast.Name):
            return None
        ds = f.reaching(e.id, at)
        ds = [d for d in ds if self.in_loop(d.stmt) == self.in_loop(at)] or ds
        if len(ds) != 1:
            return None
        d = ds[0]
        if d.kind == "plain" and d.value is not None and depth > 0:
            return self.map_ref(d.value, d.stmt, transposed, depth - 1)
        if d.kind != "tuple" or not isinstance(d.value, ast.Call) or call_name(d.value) != "subgrid_to_grid_mapping":
            return None
        if d.arity != 2 or d.pos not in (0, 1):
            raise f.und("result of subgrid_to_grid_mapping is not unpacked into a pair", d.stmt)
        call = d.value
        isv = kwarg(call, "is_vector")
        if isv is None and len(call.args) > 3:
            isv = call.args[3]
        if not (isinstance(isv, ast.Constant) and isinstance(isv.value, bool)):
            raise f.und("is_vector of subgrid_to_grid_mapping is not a literal", call)
        ndx = kwarg(call, "nd")
        if ndx is None and len(call.args) > 4:
            ndx = call.args[4]
        nd = None
        if isv.value:
            nd = f.dim_token(ndx, d.stmt) if ndx is not None else "DIM"
        self.map_calls[id(call)] = (call, d.stmt)
        return MapRef(Space("F" if d.pos == 0 else "C", bool(isv.value), nd), transposed, call, d.stmt)

    # -- accumulations ---------------------------------------------------------------------
    def _parse_update(self, s: ast.stmt) -> Optional[Upd]:
        f = self.f
        if isinstance(s, ast.AugAssign) and isinstance(s.op, ast.Add):
            tgt, val = s.target, s.value
        elif (isinstance(s, ast.Assign) and len(s.targets) == 1 and isinstance(s.value, ast.BinOp)
              and isinstance(s.value.op, ast.Add)):
            tgt = s.targets[0]
            if u(s.value.left) == u(tgt):
                val = s.value.right
            elif u(s.value.right) == u(tgt):
                val = s.value.left
            else:
                return None
        else:
            return None
        ref = split_ref(tgt)
        if ref is None:
            return None
        fac = f.flatten(val, s)
        refs = [self.map_ref(x, s) for x in fac]
        if not any(r is not None for r in refs):
            return None
        if len(fac) != 3 or refs[1] is not None:
            raise f.und("accumulation is not of the form  map * local_matrix * map", s)
        m = split_ref(fac[1])
        if m is None:
            raise f.und("middle factor of an accumulation is not a (subscripted) name", s)
        return Upd(s, ref[0], ref[1], m[0], m[1], refs[0], refs[2], fac[0], fac[2])

    def _find_updates(self) -> None:
        self.updates: list[Upd] = []
        for s in self.f.stmts:
            if self.in_loop(s):
                up = self._parse_update(s)
                if up is not None:
                    self.updates.append(up)
        if not self.updates:
            raise AnchorError(f"{self.f.where()}: no accumulation `acc += map * loc * map` found in the subproblem loop")
        self.accs: dict[str, list[Upd]] = {}
        for up in self.updates:
            self.accs.setdefault(up.acc, []).append(up)
        self.keyed = {a: ups[0].acc_key is not None for a, ups in self.accs.items()}
        # names initialised like an accumulator (sparse matrix with explicit shape before the loop) that
        # are never accumulated into: kept in the model so that the downstream chain is still analysed
        for nm, ds in self.f.defs.items():
            if nm in self.accs:
                continue
            ini = [d for d in ds if self._is_init(d)]
            if len(ini) == 1 and len([d for d in ds if d.kind in ("plain", "sub") and d.value is not None
                                      and not isinstance(d.value, ast.Dict)]) == 1 \
                    and not _looks_like_matdict(self.f, nm, ini[0].stmt):
                self.accs[nm] = []
                self.keyed[nm] = ini[0].kind == "sub"
        self.f.no_expand |= set(self.accs) | {x.m for x in self.updates}
        for a, ups in self.accs.items():
            if ups and len({x.acc_key is not None for x in ups}) != 1:
                raise self.f.und(f"accumulator {a} is used both as a matrix and as a dictionary")

    def _is_init(self, d: Def) -> bool:
        return (self.before_loop(d.stmt) and d.kind in ("plain", "sub") and isinstance(d.value, ast.Call)
                and call_name(d.value) in SPARSE_CTORS and bool(d.value.args) and isinstance(d.value.args[0], ast.Tuple)
                and len(d.value.args[0].elts) == 2)

    # -- spaces from the initial shapes ---------------------------------------------------------
    def space_of(self, e: ast.expr, at: ast.stmt) -> Space:
        f = self.f
        facs: list[ast.expr] = []

        def fl(x: ast.expr) -> None:
            x = f.canon(x, at)
            if isinstance(x, ast.BinOp) and isinstance(x.op, ast.Mult):
                fl(x.left)
                fl(x.right)
            else:
                facs.append(x)

        fl(e)
        cnt = [x for x in facs if isinstance(x, ast.Attribute) and x.attr in ("num_faces", "num_cells")]
        ext = [x for x in facs if x not in cnt]
        if len(cnt) != 1 or len(ext) > 1:
            raise f.und("shape entry is not <num_faces|num_cells> [* dimension]", e)
        kind = "F" if cnt[0].attr == "num_faces" else "C"  # type: ignore[attr-defined]
        if ext:
            return Space(kind, True, f.dim_token(ext[0], at))
        return Space(kind, False, None)

    def _find_shapes(self) -> None:
        f = self.f
        self.shape: dict[str, tuple[Space, Space]] = {}
        self.init_stmt: dict[str, ast.stmt] = {}
        for a in self.accs:
            cands = [d for d in f.defs.get(a, []) if self._is_init(d)]
            if len(cands) != 1:
                raise f.und(f"accumulator {a}: expected one initialisation with an explicit shape before the loop, "
                            f"found {len(cands)}")
            d = cands[0]
            if (d.kind == "sub") != self.keyed[a]:
                raise f.und(f"accumulator {a}: initialisation and accumulation disagree on dictionary level", d.stmt)
            r, c = d.value.args[0].elts  # type: ignore[union-attr]
            self.shape[a] = (self.space_of(r, d.stmt), self.space_of(c, d.stmt))
            self.init_stmt[a] = d.stmt

    def row_kind(self, a: str) -> str:
        return self.shape[a][0].kind


def _looks_like_matdict(f: Fn, nm: str, at: ast.stmt) -> bool:
    c = f.canon(ast.Name(id=nm, ctx=ast.Load()), at)
    return any(isinstance(n, ast.Attribute) and n.attr == "DISCRETIZATION_MATRICES" for n in ast.walk(c))


def _is_values_list(e: ast.expr, p: str) -> bool:
    def is_vals(x: ast.expr) -> bool:
        return (isinstance(x, ast.Call) and isinstance(x.func, ast.Attribute) and x.func.attr == "values"
                and isinstance(x.func.value, ast.Name) and x.func.value.id == p and not x.args)

    if isinstance(e, ast.ListComp) and len(e.generators) == 1:
        g = e.generators[0]
        return (is_vals(g.iter) and not g.ifs and isinstance(g.target, ast.Name) and isinstance(e.elt, ast.Name)
                and e.elt.id == g.target.id)
    if isinstance(e, ast.Call) and call_name(e) in ("list", "tuple") and len(e.args) == 1:
        return is_vals(e.args[0])
    if isinstance(e, (ast.List, ast.Tuple)) and len(e.elts) == 1 and isinstance(e.elts[0], ast.Starred):
        return is_vals(e.elts[0].value)
    return False


# ------------------------------------------------------------------------------------
# further extraction (functions over a Model)

def local_unpacks(m: Model) -> tuple[list[str], dict[str, list[str]]]:
    """Names of the local matrices unpacked from the local discretization call and the tuple
    aliases (name bound to the whole result -> element names)."""
    f = m.f
    stmts: dict[int, ast.stmt] = {}
    for up in m.updates:
        d = f.unique_def(up.m, up.stmt)
        if d is None or d.kind != "tuple" or not m.in_loop(d.stmt):
            raise f.und(f"local matrix {up.m} is not bound by unpacking the local discretization inside the loop", up.stmt)
        stmts[id(d.stmt)] = d.stmt
    names: list[str] = []
    alias: dict[str, list[str]] = {}
    for s in stmts.values():
        tgt = s.targets[0] if isinstance(s, ast.Assign) and len(s.targets) == 1 else None
        if not isinstance(tgt, ast.Tuple) or any(not isinstance(e, ast.Name) for e in tgt.elts):
            raise f.und("unpacking of the local discretization is not a flat tuple of names", s)
        elts = [e.id for e in tgt.elts]  # type: ignore[attr-defined]
        names += [e for e in elts if e != "_"]
        v = s.value  # type: ignore[attr-defined]
        if isinstance(v, ast.Name):
            src = f.unique_plain(v.id, s)
            if not isinstance(src, ast.Call):
                raise f.und(f"tuple {v.id} is not the direct result of a call", s)
            alias[v.id] = elts
        elif not isinstance(v, ast.Call):
            raise f.und("local matrices are not unpacked from a call", s)
    return names, alias


def expand_args(m: Model, args: list[ast.expr], at: ast.stmt, alias: dict[str, list[str]]) -> list[str]:
    f = m.f
    out: list[str] = []
    for a in args:
        if isinstance(a, ast.Name):
            if a.id in alias:
                raise f.und(f"tuple {a.id} passed un-starred to remove_nonlocal_contribution", at)
            out.append(a.id)
            continue
        if not isinstance(a, ast.Starred):
            raise f.und("unrecognised matrix argument of remove_nonlocal_contribution", a)
        v = a.value
        if isinstance(v, ast.Name) and v.id in alias:
            out += [x for x in alias[v.id] if x != "_"]
        elif (isinstance(v, ast.Subscript) and isinstance(v.value, ast.Name) and v.value.id in alias
              and isinstance(v.slice, ast.Slice)):
            def cst(x):
                if x is None:
                    return None
                try:
                    return int(ast.literal_eval(x))
                except Exception:
                    raise f.und("non-literal slice of the local-matrix tuple", a)
            sl = slice(cst(v.slice.lower), cst(v.slice.upper), cst(v.slice.step))
            out += [x for x in alias[v.value.id][sl] if x != "_"]
        elif (isinstance(v, ast.Call) and isinstance(v.func, ast.Name) and v.func.id in m.dict_value_funcs
              and len(v.args) == 1 and isinstance(v.args[0], ast.Name)):
            out.append(v.args[0].id)
        elif (isinstance(v, ast.Call) and isinstance(v.func, ast.Attribute) and v.func.attr == "values"
              and isinstance(v.func.value, ast.Name) and not v.args):
            out.append(v.func.value.id)
        elif isinstance(v, (ast.List, ast.Tuple)):
            out += expand_args(m, list(v.elts), at, alias)
        else:
            raise f.und("unrecognised starred argument of remove_nonlocal_contribution", a)
    return out


def removal_calls(m: Model) -> list[tuple[ast.stmt, ast.Call]]:
    out = []
    for s in m.f.stmts:
        if isinstance(s, ast.Expr) and isinstance(s.value, ast.Call) and call_name(s.value) == "remove_nonlocal_contribution":
            c = s.value
            if len(c.args) < 3 or any(isinstance(a, ast.Starred) for a in c.args[:2]) or c.keywords:
                raise m.f.und("remove_nonlocal_contribution call without (index set, nd, matrices...)", c)
            out.append((s, c))
    return out


def _np_call(e: ast.expr, names: set[str]) -> Optional[ast.Call]:
    return e if isinstance(e, ast.Call) and call_name(e) in names else None


def loop_removals(m: Model, alias: dict[str, list[str]]) -> list[Removal]:
    f, T = m.f, m.T
    out = []
    for s, c in removal_calls(m):
        if not m.in_loop(s):
            continue
        e = c.args[0]
        if isinstance(e, ast.Name):
            d = f.unique_def(e.id, s)
            if d is None or d.kind != "plain" or not m.in_loop(d.stmt):
                raise f.und("index set of an in-loop removal has no unique definition inside the loop", c)
            e = d.value
        # where(logical_not(isin(A, B)))[0]  |  flatnonzero(~isin(A, B))  |  isin(A, B, invert=True)
        if isinstance(e, ast.Subscript) and _np_call(e.value, {"where", "nonzero"}) and u(e.slice) == "0":
            inner = e.value.args[0] if e.value.args else None  # type: ignore[attr-defined]
        elif _np_call(e, {"flatnonzero"}):
            inner = e.args[0] if e.args else None  # type: ignore[attr-defined]
        else:
            raise f.und("unrecognised form of the in-loop elimination index set", e)
        neg = False
        if inner is not None and _np_call(inner, {"logical_not"}) and inner.args:  # type: ignore[attr-defined]
            inner, neg = inner.args[0], True  # type: ignore[attr-defined]
        elif isinstance(inner, ast.UnaryOp) and isinstance(inner.op, ast.Invert):
            inner, neg = inner.operand, True
        isin = _np_call(inner, {"isin", "in1d"}) if inner is not None else None
        if isin is None or len(isin.args) != 2:
            raise f.und("unrecognised form of the in-loop elimination index set", e)
        inv = kwarg(isin, "invert")
        if inv is not None:
            if not isinstance(inv, ast.Constant):
                raise f.und("non-literal invert= in isin", isin)
            neg = neg != bool(inv.value)
        A, B = isin.args
        if not (isinstance(A, ast.Name) and isinstance(B, ast.Name)) or {A.id, B.id} - set(T.values()):
            raise f.und("in-loop elimination set is not built from the subproblem tuple", isin)
        pair = (A.id, B.id)
        fpair, cpair = (T["l2g_faces"], T["faces_in"]), (T["l2g_cells"], T["cells_in"])
        pair_ok = neg and pair in (fpair, cpair)
        kind = "F" if A.id in fpair else "C"
        out.append(Removal(s, c, kind, c.args[1], expand_args(m, c.args[2:], s, alias), None, pair_ok, pair + (neg,)))
    return out


def final_removals(m: Model) -> list[Removal]:
    f = m.f
    out = []
    for s, c in removal_calls(m):
        if m.in_loop(s):
            continue
        if not m.after_loop(s):
            raise f.und("remove_nonlocal_contribution before the subproblem loop", c)
        e = f.canon(c.args[0], s, depth=1) if isinstance(c.args[0], ast.Name) else c.args[0]
        sd_ = _np_call(e, {"setdiff1d"})
        ar = _np_call(sd_.args[0], {"arange"}) if sd_ is not None and len(sd_.args) == 2 else None
        if ar is None or len(ar.args) != 1:
            raise f.und("final elimination set is not setdiff1d(arange(n), keep)", c.args[0])
        n = f.canon(ar.args[0], s)
        if not (isinstance(n, ast.Attribute) and n.attr in ("num_faces", "num_cells") and u(n.value) == m.sd):
            raise f.und("final elimination set does not range over the faces/cells of the full grid", ar)
        out.append(Removal(s, c, "F" if n.attr == "num_faces" else "C", c.args[1],
                           expand_args(m, c.args[2:], s, {}), sd_.args[1]))  # type: ignore[union-attr]
    return out


@dataclass
class Scaling:
    stmt: ast.stmt
    acc: str
    side: str  # 'left' | 'right'
    sx: ast.expr


def scalings(m: Model) -> tuple[list[Scaling], list[tuple[ast.stmt, str]]]:
    """Post-loop re-definitions of accumulators: recognised scalings, and the rest."""
    f = m.f
    sc, other = [], []
    for s in f.stmts:
        if not m.after_loop(s):
            continue
        if isinstance(s, ast.Assign) and len(s.targets) == 1:
            tgt, val = s.targets[0], s.value
        elif isinstance(s, ast.AugAssign):
            tgt, val = s.target, s
        else:
            continue
        ref = split_ref(tgt)
        if ref is None or ref[0] not in m.accs:
            if base_name(tgt) in m.accs:
                raise f.und("unrecognised store into an accumulator after the loop", s)
            continue
        if isinstance(s, ast.AugAssign):
            raise f.und("augmented assignment to an accumulator after the loop", s)
        v = strip_conv(val)
        if isinstance(v, ast.BinOp) and isinstance(v.op, (ast.Mult, ast.MatMult)):
            if u(v.right) == u(tgt) and u(v.left) != u(tgt):
                sc.append(Scaling(s, ref[0], "left", v.left))
                continue
            if u(v.left) == u(tgt) and u(v.right) != u(tgt):
                sc.append(Scaling(s, ref[0], "right", v.right))
                continue
        raise f.und("accumulator re-defined after the loop by something other than  S @ acc", s)
    return sc, other


@dataclass
class ScaleInfo:
    recip: Optional[bool]
    vec: bool
    nd: Optional[str]
    order_ok: bool
    lst: Optional[str]
    form: str


def scaling_matrix(m: Model, sx: ast.expr, at: ast.stmt) -> ScaleInfo:
    f = m.f
    e = f.canon(sx, at, depth=1) if isinstance(sx, ast.Name) else sx
    c = _np_call(e, DIAG_CTORS)
    if c is None or not c.args:
        raise f.und("scaling factor is not a diagonal sparse matrix constructor", sx)
    data = c.args[0]
    if call_name(c) in ("dia_matrix", "dia_array"):
        if not (isinstance(data, ast.Tuple) and len(data.elts) == 2 and u(data.elts[1]) == "0"):
            raise f.und("dia_matrix scaling is not ((data, 0), shape)", c)
        data = data.elts[0]
    elif isinstance(data, (ast.List, ast.Tuple)) and len(data.elts) == 1:
        data = data.elts[0]
    data = f.canon(data, at, depth=1) if isinstance(data, ast.Name) else data
    recip: Optional[bool] = False
    rep = data
    if isinstance(data, ast.BinOp) and isinstance(data.op, ast.Div):
        if isinstance(data.left, ast.Constant) and data.left.value in (1, 1.0):
            recip, rep = True, data.right
        else:
            raise f.und("scaling diagonal is a quotient with a numerator other than 1", data)
    elif isinstance(data, ast.BinOp) and isinstance(data.op, ast.Pow) and u(data.right) in ("-1", "-1.0"):
        recip, rep = True, data.left
    elif _np_call(data, {"reciprocal"}) and data.args:  # type: ignore[attr-defined]
        recip, rep = True, data.args[0]  # type: ignore[attr-defined]
    elif isinstance(data, ast.BinOp) and isinstance(data.op, ast.Mult) and isinstance(data.left, ast.Constant):
        rep = data.right  # a multiple of the count, not its reciprocal
    elif isinstance(data, ast.BinOp) and isinstance(data.op, ast.Mult) and isinstance(data.right, ast.Constant):
        rep = data.left
    rep = f.canon(rep, at, depth=1) if isinstance(rep, ast.Name) else rep
    # strip ravel / flatten
    order = None
    vec, nd, order_ok, form = False, None, True, "bincount"
    x = rep
    if isinstance(x, ast.Call) and isinstance(x.func, ast.Attribute) and x.func.attr in ("ravel", "flatten"):
        o = x.args[0] if x.args else kwarg(x, "order")
        order = o.value if isinstance(o, ast.Constant) else ("C" if o is None else "?")
        x = x.func.value
    t = _np_call(x, {"tile"})
    rp = _np_call(x, {"repeat"})
    if t is not None and len(t.args) == 2:
        reps = t.args[1]
        vec = True
        if isinstance(reps, ast.Tuple) and len(reps.elts) == 2 and u(reps.elts[1]) == "1":
            nd = f.dim_token(reps.elts[0], at)
            order_ok = order == "F"  # (nd, nf) array: face-major component ordering needs column-major ravel
            form = f"tile(.,({u(reps.elts[0])},1)).ravel({order!r})"
        elif isinstance(reps, ast.Tuple) and len(reps.elts) == 2 and u(reps.elts[0]) == "1":
            nd, order_ok, form = f.dim_token(reps.elts[1], at), False, "tile(.,(1,n)): block ordering"
        elif not isinstance(reps, ast.Tuple):
            nd, order_ok, form = f.dim_token(reps, at), False, "tile(.,n): block ordering"
        else:
            raise f.und("unrecognised tiling of the repetition count", t)
        x = t.args[0]
    elif rp is not None and len(rp.args) == 2 and order is None:
        vec, nd, form = True, f.dim_token(rp.args[1], at), "repeat(., n)"
        x = rp.args[0]
    elif order is not None:
        raise f.und("ravel of an untiled repetition count", rep)
    b = _np_call(x, {"bincount"})
    cc = _np_call(b.args[0], {"concatenate", "hstack"}) if b is not None and b.args else None
    if cc is None or len(cc.args) != 1 or not isinstance(cc.args[0], ast.Name):
        raise f.und("repetition count is not bincount(concatenate(<list>))", rep)
    return ScaleInfo(recip, vec, nd, order_ok, cc.args[0].id, form)


@dataclass
class GlobDef:
    stmt: ast.stmt
    g: str
    g_key: Optional[str]
    acc: str
    acc_key: Optional[str]
    L: Optional[MapRef]  # None for a plain alias (no-restriction shortcut)
    R: Optional[MapRef]
    alias: bool
    arm: tuple  # (id of the enclosing If or 0, 'body'|'orelse'|'')


def glob_defs(m: Model) -> list[GlobDef]:
    f = m.f
    out = []
    for s in f.stmts:
        if not m.after_loop(s) or not isinstance(s, (ast.Assign, ast.AnnAssign)) or getattr(s, "value", None) is None:
            continue
        tgt = s.targets[0] if isinstance(s, ast.Assign) else s.target
        if isinstance(s, ast.Assign) and len(s.targets) != 1:
            continue
        ref = split_ref(tgt)
        if ref is not None and ref[0] in m.accs:
            continue  # re-definition of an accumulator: handled by scalings()
        val = s.value
        used = names_in(val) & set(m.accs)
        if not used:
            continue
        if ref is None:
            raise f.und("accumulator flows into an unrecognised assignment target after the loop", s)
        iff, arm = f.arm_of(s)
        armk = (id(iff) if iff is not None else 0, arm or "")
        a = split_ref(strip_conv(val))
        if a is not None and a[0] in m.accs:
            out.append(GlobDef(s, ref[0], ref[1], a[0], a[1], None, None, True, armk))
            continue
        fac = f.flatten(val, s)
        if len(fac) != 3:
            raise f.und("full-grid mapping of an accumulator is not  map * acc * map", s)
        a = split_ref(fac[1])
        L, R = m.map_ref(fac[0], s), m.map_ref(fac[2], s)
        if a is None or a[0] not in m.accs or L is None or R is None:
            raise f.und("full-grid mapping of an accumulator is not  map * acc * map", s)
        out.append(GlobDef(s, ref[0], ref[1], a[0], a[1], L, R, False, armk))
    if not out:
        raise AnchorError(f"{f.where()}: no mapping of the accumulators to the full grid found")
    return out


def is_matdict(m: Model, e: ast.expr, at: ast.stmt) -> bool:
    c = m.f.canon(e, at)
    return (isinstance(c, ast.Subscript) and isinstance(c.slice, ast.Attribute) and c.slice.attr == "keyword"
            and isinstance(c.value, ast.Subscript) and isinstance(c.value.slice, ast.Attribute)
            and c.value.slice.attr == "DISCRETIZATION_MATRICES")


def writes(m: Model, globs: set[str]) -> list[Write]:
    f = m.f
    out = []
    for s in f.stmts:
        if not isinstance(s, ast.Assign) or len(s.targets) != 1 or not isinstance(s.targets[0], ast.Subscript):
            continue
        chain = []
        t = s.targets[0]
        while isinstance(t, ast.Subscript):
            chain.append(t.slice)
            t = t.value
        chain.reverse()
        if not isinstance(t, ast.Name) or not is_matdict(m, t, s):
            continue
        key = u(chain[0])
        if len(chain) == 1:
            g = s.value.id if isinstance(s.value, ast.Name) and s.value.id in globs else None
            if g is None and names_in(s.value) & globs:
                raise f.und("a full-grid matrix is stored through an unrecognised expression", s)
            out.append(Write(s, key, 1, g))
            continue
        if len(chain) > 3:
            raise f.und("unrecognised store into the matrix dictionary", s)
        rhs = s.value
        if not isinstance(rhs, ast.Subscript):
            raise f.und("row-subset store whose right-hand side is not a row subset", s)
        gref = split_ref(rhs.value)
        if gref is None or gref[0] not in globs:
            raise f.und("row-subset store does not read a full-grid matrix", s)
        out.append(Write(s, key, len(chain), gref[0], gref[1], chain[-1], rhs.slice,
                         u(chain[1]) if len(chain) == 3 else None))
    if not out:
        raise AnchorError(f"{f.where()}: no store into data[DISCRETIZATION_MATRICES][keyword] found")
    return out


# ------------------------------------------------------------------------------------
# rules over one discretize()

def _left_ok(mr: Optional[MapRef], rows: Space) -> bool:
    want = ("F", False) if rows.kind == "F" else ("C", True)
    return (mr is not None and (mr.space.kind, mr.transposed) == want and mr.space.vec == rows.vec
            and (not rows.vec or mr.space.nd == rows.nd))


def _right_ok(mr: Optional[MapRef], cols: Space) -> bool:
    want = ("C", False) if cols.kind == "C" else ("F", True)
    return (mr is not None and (mr.space.kind, mr.transposed) == want and mr.space.vec == cols.vec
            and (not cols.vec or mr.space.nd == cols.nd))


def _mr_txt(mr: Optional[MapRef]) -> str:
    if mr is None:
        return "not a subgrid map"
    return ("transposed " if mr.transposed else "") + {"F": "face map", "C": "cell map"}[mr.space.kind] + \
        (f" (vector, nd={mr.space.nd})" if mr.space.vec else " (scalar)")


def _nd_expected(spaces: list[Space]) -> set[str]:
    return {(s.nd or "DIM") if s.vec else "1" for s in spaces}


def check_function(ctx: Ctx, m: Model) -> dict:
    f, T = m.f, m.T
    mod, q = f.mod, f.qual
    names, alias = local_unpacks(m)
    lrem, frem = loop_removals(m, alias), final_removals(m)
    sc, _ = scalings(m)
    gds = glob_defs(m)
    globs = sorted({g.g for g in gds})
    ws = writes(m, set(globs))
    accs = list(m.accs)
    acc_of_m: dict[str, set[str]] = {}
    for up in m.updates:
        acc_of_m.setdefault(up.m, set()).add(up.acc)

    # find_active_indices -> (active_cells, active_faces)
    ac = af = None
    for nm, ds in f.defs.items():
        for d in ds:
            if d.kind == "tuple" and isinstance(d.value, ast.Call) and call_name(d.value) == "find_active_indices" and d.arity == 2:
                if d.pos == 0:
                    ac = nm
                elif d.pos == 1:
                    af = nm
    if ac is None or af is None:
        raise AnchorError(f"{f.where()}: `active_cells, active_faces = find_active_indices(...)` not found")

    # key loops of dictionary-valued matrices iterate one and the same collection
    key_iters: dict[str, ast.stmt] = {}

    def key_loop_ok(s: ast.stmt, key: Optional[str]) -> bool:
        if key is None:
            return True
        kl = f.key_loop(s, stop=m.loop)
        if kl is None or u(kl.target) != key:
            raise f.und("dictionary-valued matrix indexed by something other than the variable of its enclosing loop", s)
        key_iters.setdefault(u(kl.iter), s)
        return True

    for a in accs:
        if m.keyed[a]:
            kl = f.key_loop(m.init_stmt[a])
            if kl is None:
                raise f.und(f"dictionary accumulator {a} is not initialised in a loop over its keys", m.init_stmt[a])
            key_iters.setdefault(u(kl.iter), m.init_stmt[a])

    for a in accs:
        ctx.check("R3", bool(m.accs[a]), mod, q, m.init_stmt[a],
                  f"{a} is initialised as an accumulator before the loop but no local matrix is accumulated into it",
                  construct=f"accumulator {a}: updated in the loop")

    # ---------------- R4: factors of the accumulations --------------------------------------
    for up in m.updates:
        rows, cols = m.shape[up.acc]
        key_loop_ok(up.stmt, up.acc_key)
        ctx.check("R4", _left_ok(up.L, rows), mod, q, up.stmt,
                  f"left factor of the accumulation into {up.acc} is a {_mr_txt(up.L)} but the accumulator has rows {rows.txt()}",
                  construct=f"{up.acc} += L * {up.m} * R : left factor", facts={"L": u(up.Lx), "rows": rows.txt()})
        ctx.check("R4", _right_ok(up.R, cols), mod, q, up.stmt,
                  f"right factor of the accumulation into {up.acc} is a {_mr_txt(up.R)} but the accumulator has columns {cols.txt()}",
                  construct=f"{up.acc} += L * {up.m} * R : right factor", facts={"R": u(up.Rx), "cols": cols.txt()})
        ctx.check("R4", up.acc_key == up.m_key, mod, q, up.stmt,
                  f"accumulator {up.acc}[{up.acc_key}] is updated from {up.m}[{up.m_key}]: different keys",
                  construct=f"{up.acc} += L * {up.m} * R : key")

    # ---------------- R1: in-loop removal typed by row space ------------------------------------
    def local_rows(n: str) -> Optional[Space]:
        sp = [m.shape[up.acc][0] for up in m.updates if up.m == n]
        if not sp:
            return None
        if len({(s.kind, s.vec, s.nd) for s in sp}) != 1:
            raise f.und(f"local matrix {n} is accumulated into accumulators with different row spaces")
        # the left factor decides; fall back on the accumulator's rows when it is not a valid left factor
        L = [up.L for up in m.updates if up.m == n][0]
        if L is not None and (L.space.kind, L.transposed) in (("F", False), ("C", True)):
            return Space(L.space.kind, L.space.vec, L.space.nd)
        return sp[0]

    for n in sorted(set(names) | set(acc_of_m), key=lambda x: (names + sorted(acc_of_m)).index(x)):
        ctx.check("R3", n in acc_of_m, mod, q, m.loop, f"local matrix {n} returned by the local discretization is never "
                  f"accumulated", construct=f"local matrix {n}: accumulated")
        rows = local_rows(n)
        if rows is None:
            continue
        cover = [r for r in lrem if n in r.names]
        ups = [up for up in m.updates if up.m == n]
        right = [r for r in cover if r.kind == rows.kind and all(f.precedes(r.stmt, up.stmt) for up in ups)]
        wrong = [r for r in cover if r.kind != rows.kind]
        kind_txt = {"F": "faces of the overlap (l2g_faces not in faces_in_subgrid)",
                    "C": "cells of the overlap (l2g_cells not in cells_in_subgrid)"}
        msg = (f"local matrix {n} has {rows.txt()} rows: it must go through remove_nonlocal_contribution over the "
               f"{kind_txt[rows.kind]} before it is accumulated"
               + ("; it is passed to the removal over the other index space" if wrong else "")
               + ("" if right else "; no such call covers it (or the call comes after the accumulation)"))
        ctx.check("R1", bool(right) and not wrong, mod, q, (wrong or cover)[0].stmt if (wrong or cover) else m.loop,
                  msg, construct=f"local removal of {n}",
                  facts={"rows": rows.txt(), "covered_by": [r.kind for r in cover]})
    for r in lrem:
        ctx.check("R5", r.pair_ok, mod, q, r.stmt,
                  f"in-loop elimination set must be the positions of {('l2g_faces', 'l2g_cells')[r.kind == 'C']} that are not in "
                  f"{('faces_in_subgrid', 'cells_in_subgrid')[r.kind == 'C']}; found isin{r.pair[:2]}, negated={r.pair[2]}",
                  construct=f"in-loop elimination set over {r.kind}", facts={"pair": list(r.pair)})
        sp = [x for x in (local_rows(n) for n in r.names) if x is not None and x.kind == r.kind]
        if sp:
            exp = _nd_expected(sp)
            got = f.dim_token(r.nd, r.stmt)
            ctx.check("R1", len(exp) == 1 and got in exp, mod, q, r.stmt,
                      f"nd argument of the in-loop removal is {u(r.nd)} but the matrices have rows {sorted({s.txt() for s in sp})}",
                      construct=f"in-loop removal over {r.kind}: nd", facts={"nd": u(r.nd), "expected": sorted(exp)})

    # ---------------- R5: repetition count source, shortcut test ---------------------------------
    infos: dict[str, tuple[ScaleInfo, ast.stmt]] = {}
    for s in sc:
        if u(s.sx) not in infos:
            infos[u(s.sx)] = (scaling_matrix(m, s.sx, s.stmt), s.stmt)
    lsts = {i.lst for i, _ in infos.values()}
    for lst in sorted(x for x in lsts if x):
        apps = [s for s in f.stmts if m.in_loop(s) and isinstance(s, ast.Expr) and isinstance(s.value, ast.Call)
                and isinstance(s.value.func, ast.Attribute) and s.value.func.attr == "append"
                and isinstance(s.value.func.value, ast.Name) and s.value.func.value.id == lst]
        if not apps:
            raise f.und(f"list {lst} feeding the repetition count is not appended to inside the loop")
        for a in apps:
            arg = a.value.args[0] if a.value.args else None  # type: ignore[attr-defined]
            ctx.check("R5", isinstance(arg, ast.Name) and arg.id == T["faces_in"], mod, q, a,
                      "the face repetition count must be fed with faces_in_subgrid (2nd item of the subproblem tuple: faces "
                      "discretized by this subproblem), not with l2g_faces (which includes the overlap)",
                      construct=f"{lst}.append(<faces of this subproblem>)", facts={"appended": u(arg) if arg else None})
        init = [d for d in f.defs.get(lst, []) if m.before_loop(d.stmt)]
        ctx.check("R5", len(init) == 1 and isinstance(init[0].value, ast.List) and not init[0].value.elts, mod, q,
                  init[0].stmt if init else m.loop, f"{lst} must start as an empty list before the loop",
                  construct=f"{lst} = []")

    # ---------------- R3 (shortcut inside the loop) ----------------------------------------------------
    def loop_if(s: ast.stmt):
        res, cur, p = None, s, f.pm.get(s)
        while p is not None and p is not m.loop:
            if isinstance(p, ast.If):
                res = (p, "body" if any(cur is x for x in p.body) else "orelse")
            cur, p = p, f.pm.get(p)
        return res

    lifs = [loop_if(up.stmt) for up in m.updates]
    has_shortcut = False
    if any(x is not None for x in lifs):
        if any(x is None for x in lifs) or len({(id(x[0]), x[1]) for x in lifs}) != 1:  # type: ignore[index]
            raise f.und("accumulations are spread over different conditional arms of the loop body")
        iff, arm = lifs[0]  # type: ignore[misc]
        other = iff.orelse if arm == "body" else iff.body
        if not other:
            raise f.und("accumulations are conditional and the other arm is empty", iff)
        has_shortcut = True
        assigns: dict[tuple, ast.stmt] = {}
        for s in other:
            if isinstance(s, ast.Assign) and len(s.targets) == 1:
                a, b = split_ref(s.targets[0]), split_ref(s.value)
                if a is not None and a[0] in m.accs:
                    if b is None:
                        raise f.und("no-split shortcut assigns something other than a local matrix", s)
                    assigns[a] = s
        for a in accs:
            ups = m.accs[a]
            if not ups:
                continue
            ok = all((a, up.acc_key) in assigns and split_ref(assigns[(a, up.acc_key)].value) == (up.m, up.m_key)  # type: ignore[attr-defined]
                     for up in ups)
            got = [u(s.value) for k, s in assigns.items() if k[0] == a]  # type: ignore[attr-defined]
            ctx.check("R3", ok, mod, q, assigns.get((a, ups[0].acc_key), iff),
                      f"the no-split shortcut must assign {a} from {ups[0].m} (the local matrix accumulated into it in the "
                      f"other arm); found {got or 'no assignment'}", construct=f"{a}: no-split shortcut",
                      facts={"assigned_from": got})
        # test: <grid>.num_faces == <faces_in>.size
        t = iff.test if arm == "orelse" else (iff.test.operand if isinstance(iff.test, ast.UnaryOp) and isinstance(iff.test.op, ast.Not) else None)
        if not (isinstance(t, ast.Compare) and len(t.ops) == 1 and isinstance(t.ops[0], ast.Eq)):
            raise f.und("test of the no-split shortcut is not an equality", iff.test)
        sides = [f.canon(t.left, iff), f.canon(t.comparators[0], iff)]
        # one side: number of faces of the grid that is being split; other side: a face count of this subproblem
        def count_of(x: ast.expr) -> Optional[str]:
            """which item of the subproblem tuple the face count x is taken from (None: not a count of an item)"""
            if isinstance(x, ast.Attribute) and x.attr == "size" and isinstance(x.value, ast.Name):
                return x.value.id
            if isinstance(x, ast.Call) and call_name(x) == "len" and len(x.args) == 1 and isinstance(x.args[0], ast.Name):
                return x.args[0].id
            if (isinstance(x, ast.Subscript) and isinstance(x.value, ast.Attribute) and x.value.attr == "shape"
                    and isinstance(x.value.value, ast.Name) and u(x.slice) == "0"):
                return x.value.value.id
            if isinstance(x, ast.Attribute) and x.attr == "num_faces" and isinstance(x.value, ast.Name) and x.value.id != m.grid:
                return x.value.id
            return None

        nfs = [x for x in sides if isinstance(x, ast.Attribute) and x.attr == "num_faces" and u(x.value) == m.grid]
        oth = [count_of(x) for x in sides if not (isinstance(x, ast.Attribute) and x.attr == "num_faces" and u(x.value) == m.grid)]
        if len(nfs) != 1 or len(oth) != 1 or oth[0] not in T.values() or oth[0] == T["cells_in"] or oth[0] == T["l2g_cells"]:
            raise f.und("test of the no-split shortcut is not  <grid>.num_faces == <face count of an item of the subproblem tuple>", iff.test)
        ctx.check("R5", oth[0] == T["faces_in"], mod, q, iff,
                  "the no-split shortcut overwrites the accumulators, so its test must compare the number of faces with "
                  "faces_in_subgrid.size (faces owned by this subproblem); l2g_faces / the subgrid include the overlap and can "
                  "cover the whole grid in a split run, which then loses the contributions of the other subproblems",
                  construct="no-split shortcut test", facts={"test": u(iff.test), "counted": oth[0]})

    # ---------------- R2: rescaling ------------------------------------------------------------------------
    for key, (info, st) in infos.items():
        ctx.check("R2", info.recip is True, mod, q, st,
                  "the scaling diagonal must be the reciprocal of the face repetition count", construct=f"scaling matrix {key}: reciprocal")
        ctx.check("R2", info.order_ok, mod, q, st,
                  f"vector rows are ordered face-major (all components of face 0, then face 1, ...): the repetition count "
                  f"must be expanded accordingly; found {info.form}", construct=f"scaling matrix {key}: component ordering",
                  facts={"form": info.form})
    for a in accs:
        rows = m.shape[a][0]
        mine = [s for s in sc if s.acc == a]
        if rows.kind == "C":
            ctx.check("R2", not mine, mod, q, mine[0].stmt if mine else m.init_stmt[a],
                      f"{a} has cell rows (each cell is discretized by exactly one subproblem): it must not be rescaled by the "
                      f"face repetition count", construct=f"rescale {a}")
            continue
        ok, why = True, []
        if len(mine) != 1:
            ok = False
            why.append("not rescaled" if not mine else f"rescaled {len(mine)} times")
        for s in mine:
            key_loop_ok(s.stmt, split_ref(s.stmt.targets[0])[1])  # type: ignore[attr-defined,index]
            if m.keyed[a] != (split_ref(s.stmt.targets[0])[1] is not None):  # type: ignore[attr-defined,index]
                raise f.und(f"rescaling of {a} disagrees with its dictionary level", s.stmt)
            info = infos[u(s.sx)][0]
            if s.side != "left":
                ok = False
                why.append("multiplied from the right (scales columns, not face rows)")
            if info.vec != rows.vec or (rows.vec and info.nd != rows.nd):
                ok = False
                why.append(f"scaling built for {'vector' if info.vec else 'scalar'} face rows (nd={info.nd}) but rows are {rows.txt()}")
            for g in gds:
                if g.acc == a and not f.precedes(s.stmt, g.stmt):
                    ok = False
                    why.append("rescaled after being mapped to the full grid")
        ctx.check("R2", ok, mod, q, mine[0].stmt if mine else m.init_stmt[a],
                  f"{a} has face rows and is summed over overlapping subproblems: it must be left-multiplied exactly once after "
                  f"the loop by diag(1/repetitions): " + ("; ".join(why) or "ok"), construct=f"rescale {a}",
                  facts={"rows": rows.txt(), "scalings": [u(s.stmt) for s in mine]})
    return dict(names=names, lrem=lrem, frem=frem, gds=gds, globs=globs, ws=ws, accs=accs, af=af, ac=ac,
                key_loop_ok=key_loop_ok, key_iters=key_iters, has_shortcut=has_shortcut)


def kept_cells_criterion(m: Model, r: Removal, af: str) -> tuple[str, str]:
    """'any' / 'all': how the cells kept by the final cell removal are derived from the active faces."""
    f = m.f
    e = f.canon(r.keep, r.stmt, depth=1) if isinstance(r.keep, ast.Name) else r.keep
    if isinstance(e, ast.Subscript) and _np_call(e.value, {"where", "nonzero"}) and u(e.slice) == "0" and len(e.value.args) == 1:  # type: ignore[attr-defined]
        x = e.value.args[0]  # type: ignore[attr-defined]
    elif _np_call(e, {"flatnonzero"}) and len(e.args) == 1:  # type: ignore[union-attr]
        x = e.args[0]  # type: ignore[union-attr]
    else:
        raise f.und("cells kept by the final cell removal are not where(<criterion>)[0]", r.keep)

    def incidence_times_indicator(y: ast.expr) -> bool:
        if not (isinstance(y, ast.BinOp) and isinstance(y.op, (ast.Mult, ast.MatMult))):
            return False
        inc = any(isinstance(n, ast.Attribute) and n.attr == "cell_faces" for n in ast.walk(f.canon(y.left, r.stmt)))
        ind = isinstance(y.right, ast.Name) and any(d.kind == "sub" and af in d.extra for d in f.defs.get(y.right.id, []))
        return inc and ind

    if incidence_times_indicator(x):
        return "any", (f"where({u(x)}): support of (cell-face incidence) x (indicator of {af}) = every cell with AT LEAST ONE active face")
    if isinstance(x, ast.Compare) and len(x.ops) == 1 and isinstance(x.ops[0], (ast.Eq, ast.GtE)):
        sides = [x.left, x.comparators[0]]
        prod = [y for y in sides if incidence_times_indicator(y)]
        cnt = [y for y in sides if any(isinstance(n, ast.Call) and call_name(n) in ("sum", "diff", "bincount", "getnnz")
                                       for n in ast.walk(f.canon(y, r.stmt)))]
        if len(prod) == 1 and cnt:
            return "all", "number of active faces of the cell == number of faces of the cell"
    raise f.und("criterion selecting the cells kept by the final cell removal is not recognised", x)


def check_chain(ctx: Ctx, m: Model, st: dict) -> dict:
    """Map to the full grid -> final removal -> stores (R3, R4, R1)."""
    f, mod, q = m.f, m.f.mod, m.f.qual
    gds, frem, ws, accs, af, ac = st["gds"], st["frem"], st["ws"], st["accs"], st["af"], st["ac"]
    key_loop_ok = st["key_loop_ok"]

    # ---- full-grid mapping, per arm -----------------------------------------------------------------
    arms: dict[tuple, list[GlobDef]] = {}
    for g in gds:
        arms.setdefault(g.arm, []).append(g)
    if len(arms) > 1:
        if len(arms) != 2 or len({k[0] for k in arms}) != 1 or {k[1] for k in arms} != {"body", "orelse"}:
            raise f.und("full-grid mappings are spread over unrelated conditional arms")
    g_of: dict[str, str] = {}
    for armk, lst in arms.items():
        arm_txt = {"": "", "body": " (if-arm)", "orelse": " (else-arm)"}[armk[1]]
        is_alias = [g.alias for g in lst]
        if any(is_alias):
            if not all(is_alias):
                raise f.und("an arm mixes plain aliases and mapped accumulators", lst[0].stmt)
            iff, _ = f.arm_of(lst[0].stmt)
            tn = {u(n) for n in ast.walk(iff.test) if isinstance(n, ast.Attribute)}  # type: ignore[union-attr]
            need = {f"{m.grid}.num_faces", f"{m.sd}.num_faces", f"{m.grid}.num_cells", f"{m.sd}.num_cells"}
            if not need <= tn or armk[1] != "body":
                raise f.und("accumulators are aliased to the full grid under a test that is not "
                            "`active grid has all cells and all faces`", iff.test)  # type: ignore[union-attr]
        for a in accs:
            mine = [g for g in lst if g.acc == a]
            ctx.check("R3", len(mine) == 1, mod, q, mine[0].stmt if mine else lst[0].stmt,
                      f"accumulator {a} must be mapped to the full grid exactly once{arm_txt}; found {len(mine)}",
                      construct=f"{a}: mapped to the full grid{arm_txt}")
            for g in mine:
                key_loop_ok(g.stmt, g.g_key)
                if (g.g_key is not None) != m.keyed[a] or g.g_key != g.acc_key:
                    raise f.und("dictionary level/key of a full-grid matrix differs from its accumulator", g.stmt)
                if a in g_of and g_of[a] != g.g:
                    ctx.check("R3", False, mod, q, g.stmt, f"{a} is mapped to {g.g} in one arm and to {g_of[a]} in the other",
                              construct=f"{a}: same full-grid name in both arms")
                g_of.setdefault(a, g.g)
                if not g.alias:
                    rows, cols = m.shape[a]
                    ctx.check("R4", _left_ok(g.L, rows), mod, q, g.stmt,
                              f"left factor of the full-grid mapping of {a} is a {_mr_txt(g.L)} but the rows are {rows.txt()}",
                              construct=f"{g.g} = L * {a} * R : left factor")
                    ctx.check("R4", _right_ok(g.R, cols), mod, q, g.stmt,
                              f"right factor of the full-grid mapping of {a} is a {_mr_txt(g.R)} but the columns are {cols.txt()}",
                              construct=f"{g.g} = L * {a} * R : right factor")
    acc_of_g = {g: a for a, g in g_of.items()}
    if len(acc_of_g) != len(g_of):
        raise f.und("two accumulators are mapped to the same full-grid name")

    # ---- map calls: arguments --------------------------------------------------------------------------
    for call, stm in m.map_calls.values():
        a = call.args
        if len(a) < 3 or not all(isinstance(x, ast.Name) for x in a[:3]):
            raise f.und("subgrid_to_grid_mapping is not called with three plain names first", call)
        got = [x.id for x in a[:3]]  # type: ignore[attr-defined]
        if m.in_loop(stm):
            want = [m.grid, m.T["l2g_faces"], m.T["l2g_cells"]]
            ctx.check("R4", got == want, mod, q, stm,
                      f"the local-to-active map must be built from (grid passed to subproblems, l2g_faces, l2g_cells) = {want}: "
                      f"the local matrices are indexed by all local faces/cells including the overlap; found {got}",
                      construct=f"in-loop subgrid_to_grid_mapping({', '.join(got)})")
        else:
            fd = f.reaching(got[1], stm)
            ok_f = any(d.kind == "tuple" and isinstance(d.value, ast.Call) and call_name(d.value) == "extract_subgrid"
                       and d.pos == 1 for d in fd) and all(d.kind in ("tuple", "plain") for d in fd)
            ok = got[0] == m.sd and ok_f and got[2] == ac
            ctx.check("R4", ok, mod, q, stm,
                      f"the active-to-full map must be built from ({m.sd}, faces of the extracted active grid, {ac}); found {got}",
                      construct=f"post-loop subgrid_to_grid_mapping({', '.join(got)})")

    # ---- final removal --------------------------------------------------------------------------------------
    keep: dict[str, Removal] = {}
    for r in frem:
        if r.kind in keep:
            raise f.und("two final removals over the same index space", r.stmt)
        keep[r.kind] = r
        if r.kind == "F":
            ok = isinstance(r.keep, ast.Name) and r.keep.id == af
            ctx.check("R3", ok, mod, q, r.stmt, f"the final face removal must keep exactly the active faces ({af})",
                      construct="final removal over faces: kept set", facts={"kept": u(r.keep)})
        else:
            ok = isinstance(r.keep, ast.Name) and f.depends(r.keep.id, af, r.stmt)
            ctx.check("R3", ok, mod, q, r.stmt, f"the cells kept by the final cell removal must be derived from the active faces ({af})",
                      construct="final removal over cells: kept set", facts={"kept": u(r.keep)})
    for r in frem:
        if r.kind == "C":
            crit, why = kept_cells_criterion(m, r, af)
            ctx.check("R9", crit == "all", mod, q, r.stmt,
                      "a row of a cell-row matrix sums contributions of all faces of the cell, and only the active faces are "
                      "discretized with a complete stencil: the cells whose rows are kept/updated must be those with ALL faces active; "
                      f"found {why}", construct="cells kept by the final cell removal: all-faces criterion",
                      facts={"kept": u(f.canon(r.keep, r.stmt, depth=1)), "criterion": crit})  # type: ignore[arg-type]
    for g, a in acc_of_g.items():
        rows = m.shape[a][0]
        cover = [r for r in frem if g in r.names]
        defs_g = [x.stmt for x in gds if x.g == g]
        reads = [w.stmt for w in ws if w.g == g]
        right = [r for r in cover if all(f.before(d, r.stmt) for d in defs_g) and all(f.before(r.stmt, w) for w in reads)]
        ctx.check("R3", bool(right), mod, q, cover[0].stmt if cover else (frem[0].stmt if frem else m.loop),
                  f"{g} (full-grid image of {a}) must be passed to the final remove_nonlocal_contribution over non-active "
                  f"{'faces' if rows.kind == 'F' else 'cells'}, after it is computed and before it is stored",
                  construct=f"{g}: final removal")
        if cover:
            bad = [r for r in cover if r.kind != rows.kind]
            ctx.check("R1", not bad, mod, q, (bad or cover)[0].stmt,
                      f"{g} has {rows.txt()} rows but is passed to the final removal over {'cells' if rows.kind == 'F' else 'faces'}",
                      construct=f"{g}: final removal index space")
    for r in frem:
        sp = [m.shape[acc_of_g[n]][0] for n in r.names if n in acc_of_g and m.shape[acc_of_g[n]][0].kind == r.kind]
        if sp:
            exp = {"DIM" if s.vec else "1" for s in sp}
            got = f.dim_token(r.nd, r.stmt)
            ctx.check("R1", len(exp) == 1 and got in exp, mod, q, r.stmt,
                      f"nd argument of the final removal is {u(r.nd)} but the matrices have rows {sorted({s.txt() for s in sp})}",
                      construct=f"final removal over {r.kind}: nd")
        extra = [n for n in r.names if n not in acc_of_g]
        ctx.check("R3", not extra, mod, q, r.stmt, f"final removal is applied to {extra}, which are not full-grid matrices",
                  construct=f"final removal over {r.kind}: arguments are full-grid matrices")

    # ---- stores ------------------------------------------------------------------------------------------------
    groups: dict[tuple, list[Write]] = {}
    for w in ws:
        iff, arm = f.arm_of(w.stmt)
        groups.setdefault((id(iff) if iff is not None else 0, arm or ""), []).append(w)
    typ: dict[tuple, str] = {}
    ifs: dict[int, ast.If] = {}
    for k, lst in groups.items():
        iff, _ = f.arm_of(lst[0].stmt)
        if iff is not None:
            ifs[id(iff)] = iff
        d = {("full" if w.depth == 1 else "update") for w in lst}
        if len(d) != 1:
            raise f.und("an arm mixes whole-matrix stores and row-subset stores", lst[0].stmt)
        t = d.pop()
        if t == "full" and all(w.g is None for w in lst):
            t = "empty"
        typ[k] = t
    fulls = [k for k in groups if typ[k] == "full"]
    upds = [k for k in groups if typ[k] == "update"]
    if len(fulls) != 1 or len(upds) != 1:
        raise AnchorError(f"{f.where()}: expected one full-store arm and one update (row-subset) arm, found "
                          f"{len(fulls)} / {len(upds)}")
    kf, ku = fulls[0], upds[0]
    if kf[0] != ku[0] or kf[0] == 0:
        raise f.und("full-store arm and update arm are not the two arms of one if-statement")
    iff = ifs[kf[0]]
    t = iff.test
    neg = isinstance(t, ast.UnaryOp) and isinstance(t.op, ast.Not)
    tv = f.canon(t.operand if neg else t, iff)  # type: ignore[union-attr]
    if not (isinstance(tv, ast.Call) and call_name(tv) == "get" and tv.args and isinstance(tv.args[0], ast.Constant)
            and tv.args[0].value == "update_discretization"):
        raise f.und("the store arms are not selected by the 'update_discretization' parameter", iff.test)
    ctx.check("R3", ku[1] == ("orelse" if neg else "body"), mod, q, iff,
              "row-subset stores must be in the update_discretization=True arm and whole-matrix stores in the other",
              construct="update arm polarity")
    names = {"full": "full-store arm", "update": "update arm", "empty": "empty-grid shortcut"}
    all_keys: list[str] = []
    for k in groups:
        for w in groups[k]:
            if w.key not in all_keys:
                all_keys.append(w.key)
    for k, lst in groups.items():
        have = {w.key for w in lst}
        for key in all_keys:
            ctx.check("R3", key in have, mod, q, lst[0].stmt,
                      f"matrix_dictionary[{key}] is stored in another arm but not in the {names[typ[k]]}",
                      construct=f"key {key}: stored in the {names[typ[k]]}")
    pair_f = {w.key: w.g for w in groups[kf]}
    for g in sorted(acc_of_g):
        for k in (kf, ku):
            hit = [w for w in groups[k] if w.g == g]
            ctx.check("R3", len(hit) == 1, mod, q, hit[0].stmt if hit else groups[k][0].stmt,
                      f"{g} must be stored exactly once in the {names[typ[k]]}; found {len(hit)}",
                      construct=f"{g}: stored in the {names[typ[k]]}")
    for w in groups[ku]:
        a = acc_of_g.get(w.g)  # type: ignore[arg-type]
        if a is None:
            raise f.und("update arm stores something that is not a full-grid matrix", w.stmt)
        rows = m.shape[a][0]
        ctx.check("R3", pair_f.get(w.key) == w.g, mod, q, w.stmt,
                  f"update arm stores {w.g} under {w.key}; the full-store arm stores {pair_f.get(w.key)} there",
                  construct=f"key {w.key}: same matrix in both arms")
        ctx.check("R3", u(w.lhs_ind) == u(w.rhs_ind), mod, q, w.stmt,  # type: ignore[arg-type]
                  f"rows written ({u(w.lhs_ind)}) differ from rows read ({u(w.rhs_ind)})",  # type: ignore[arg-type]
                  construct=f"{w.g}: update rows read == rows written")
        r = keep.get(rows.kind)
        if r is not None:
            ind = f.canon(w.lhs_ind, w.stmt)  # type: ignore[arg-type]
            kept = u(f.canon(r.keep, r.stmt))  # type: ignore[arg-type]
            if rows.vec:
                ok = (isinstance(ind, ast.Call) and call_name(ind) == "expand_indices_nd" and len(ind.args) >= 2
                      and u(f.canon(ind.args[0], w.stmt)) == kept and f.dim_token(ind.args[1], w.stmt) == "DIM")
            else:
                ok = u(ind) == kept
            ctx.check("R3", ok, mod, q, w.stmt,
                      f"the rows of {w.g} written on update must be exactly the rows the final removal keeps "
                      f"({'expand_indices_nd(' + u(r.keep) + ', dim)' if rows.vec else u(r.keep)}); found {u(w.lhs_ind)}",  # type: ignore[arg-type]
                      construct=f"{w.g}: update rows == rows kept by the final removal", facts={"rows": u(ind)})
        if m.keyed[a]:
            key_loop_ok(w.stmt, w.g_key)
            if w.g_key is None:
                raise f.und("dictionary-valued full-grid matrix is row-indexed without a key", w.stmt)
            ok = w.depth == 3 and w.lhs_mid == w.g_key
            msg = (f"{w.g} is a dictionary (one matrix per coupling key) and the full-store arm stores the dictionary under "
                   f"{w.key}; the update arm row-indexes matrix_dictionary[{w.key}] itself instead of "
                   f"matrix_dictionary[{w.key}][{w.g_key}]")
            if not ok and not REPORT_KEYED_UPDATE_LEVEL:
                ctx.note(f"SUSPECTED-DEFECT {mod.rel}:{q}: {msg} (TypeError: unhashable ndarray when update_discretization=True)")
                ok = True
            ctx.check("R3", ok, mod, q, w.stmt, msg, construct=f"{w.g}: update arm dictionary level")
        elif w.depth != 2 or w.g_key is not None:
            raise f.und("row-subset store of a plain matrix has an unexpected subscript depth", w.stmt)
    if len(st["key_iters"]) > 1:
        its = sorted(st["key_iters"])
        ctx.check("R3", False, mod, q, st["key_iters"][its[1]],
                  f"loops over the keys of the dictionary-valued matrices iterate different collections: {its}",
                  construct="key loops iterate one collection")
    elif st["key_iters"]:
        ctx.check("R3", True, mod, q, m.loop, "", construct="key loops iterate one collection", desc="key loops iterate one collection")
    # key -> row/col spaces, for R7
    return {k: m.shape[acc_of_g[g]] for k, g in pair_f.items() if g in acc_of_g}


# ------------------------------------------------------------------------------------
# cross-module conventions

def check_producer(ctx: Ctx) -> None:
    """R5: every yield of _fvutils.subproblems has faces at tuple positions 1 and 4 and cells at 2 and 3
    (the consumers pair (4,1) in the face elimination/count and (3,2) in the cell elimination)."""
    mod = ctx.repo.module(FVUTILS)
    f = Fn(mod, "subproblems")
    ys = [n for s in f.stmts for n in ast.walk(s) if isinstance(n, ast.Yield)]
    ys = [y for y in ys if isinstance(y.value, ast.Tuple) and len(y.value.elts) == 5]
    if not ys:
        raise AnchorError(f"{FVUTILS}:subproblems yields no 5-tuple")

    def kind(e: ast.expr, at: ast.stmt) -> Optional[str]:
        c = f.canon(e, at)
        at_ = {n.attr for n in ast.walk(c) if isinstance(n, ast.Attribute)}
        if "num_faces" in at_ and "num_cells" not in at_:
            return "F"
        if "num_cells" in at_ and "num_faces" not in at_:
            return "C"
        if "parent_cell_ind" in at_:
            return "C"
        if isinstance(e, ast.Name):
            d = f.unique_def(e.id, at)
            if d is not None and d.kind == "tuple" and isinstance(d.value, ast.Call):
                cn = call_name(d.value)
                if cn == "extract_subgrid" and d.pos == 1:
                    return "F"  # extract_subgrid -> (grid, faces, nodes)
                if cn == "cell_ind_for_partial_update" and d.pos in (0, 1):
                    return "CF"[d.pos]  # -> (cells, faces)
        return None

    for y in ys:
        at = f.stmt_of(y)
        ks = [kind(e, at) for e in y.value.elts]  # type: ignore[union-attr]
        known = [(i, k) for i, k in enumerate(ks) if k is not None and i > 0]
        ok = all(k == ("F" if i in (1, 4) else "C") for i, k in known)
        if len(known) < 2:
            raise Undecided(f"{FVUTILS}:subproblems: cannot type the items of a yield [{u(y)[:80]}]")
        ctx.check("R5", ok, mod, "subproblems", at,
                  "subproblems() must yield (grid, faces_in_subgrid, cells_in_subgrid, l2g_cells, l2g_faces): the discretizations "
                  "read faces at positions 1 and 4 and cells at 2 and 3", construct=f"yield kinds {ks}", facts={"kinds": ks})


def check_partition(ctx: Ctx) -> None:
    """R4: subgrid_to_grid_mapping(sd, faces, cells, ...) returns (face_map [global x local], cell_map [local x global])."""
    mod = ctx.repo.module(PARTITION)
    f = Fn(mod, "subgrid_to_grid_mapping")
    params = [a.arg for a in f.fn.args.args]
    ctx.check("R4", len(params) >= 5 and "face" in params[1] and "cell" in params[2] and params[3] == "is_vector" and params[4] == "nd",
              mod, "subgrid_to_grid_mapping", f.fn, "signature must be (grid, faces, cells, is_vector, nd)",
              construct="subgrid_to_grid_mapping signature", facts={"params": params})
    rets = [s for s in f.stmts if isinstance(s, ast.Return)]
    if len(rets) != 1 or not (isinstance(rets[0].value, ast.Tuple) and len(rets[0].value.elts) == 2
                              and all(isinstance(e, ast.Name) for e in rets[0].value.elts)):
        raise Undecided(f"{PARTITION}:subgrid_to_grid_mapping: return is not a pair of names")
    for pos, nm in enumerate(e.id for e in rets[0].value.elts):  # type: ignore[attr-defined]
        ds = [d for d in f.defs.get(nm, []) if d.kind == "plain"]
        if not ds:
            raise Undecided(f"{PARTITION}:subgrid_to_grid_mapping: {nm} has no plain definition")
        for d in ds:
            shp = kwarg(d.value, "shape") if isinstance(d.value, ast.Call) else None
            if not (isinstance(shp, ast.Tuple) and len(shp.elts) == 2):
                raise Undecided(f"{PARTITION}:subgrid_to_grid_mapping: {nm} is not built with an explicit shape")
            glob_side = shp.elts[0] if pos == 0 else shp.elts[1]
            want = "num_faces" if pos == 0 else "num_cells"
            at_ = {n.attr for n in ast.walk(glob_side) if isinstance(n, ast.Attribute)}
            ctx.check("R4", want in at_, mod, "subgrid_to_grid_mapping", d.stmt,
                      f"item {pos} of the returned pair must be the {'face map (global faces x local faces)' if pos == 0 else 'cell map (local cells x global cells)'}",
                      construct=f"return[{pos}] = {nm}: shape {u(shp)}")


CALLEE_HOME = {"zero_rows": ("src/porepy/numerics/linalg/matrix_operations.py", "zero_rows"),
               "expand_indices_nd": ("src/porepy/utils/array_operations.py", "expand_indices_nd")}


def bind_call(ctx: Ctx, call: ast.Call, where: str) -> dict[str, ast.expr]:
    """Arguments of a call to a known library function bound to its parameter names (positional and keyword
    arguments, no defaults filled in); the parameter order is returned under the key '' as a Tuple of names."""
    home = CALLEE_HOME.get(call_name(call) or "")
    if home is None:
        raise Undecided(f"{where}: no signature known for {u(call.func)}")
    d = ctx.repo.module(home[0]).func(home[1])
    params = [a.arg for a in d.args.args]
    if any(isinstance(a, ast.Starred) for a in call.args) or any(k.arg is None for k in call.keywords) or len(call.args) > len(params):
        raise Undecided(f"{where}: cannot bind the arguments of {u(call)[:80]}")
    out: dict[str, ast.expr] = dict(zip(params, call.args))
    for k in call.keywords:
        if k.arg in out or k.arg not in params + [a.arg for a in d.args.kwonlyargs]:
            raise Undecided(f"{where}: cannot bind the arguments of {u(call)[:80]}")
        out[k.arg] = k.value  # type: ignore[index]
    out[""] = ast.Tuple(elts=[ast.Name(id=x, ctx=ast.Load()) for x in params], ctx=ast.Load())
    return out


def check_helper(ctx: Ctx) -> None:
    """R6: remove_nonlocal_contribution(raw_ind, nd, *args) zeroes rows expand_indices_nd(raw_ind, nd) of every arg."""
    mod = ctx.repo.module(FVUTILS)
    f = Fn(mod, "remove_nonlocal_contribution")
    where = f"{FVUTILS}:remove_nonlocal_contribution"
    a = f.fn.args
    if len(a.args) != 2 or a.vararg is None:
        raise AnchorError(f"{where}(raw_ind, nd, *args) signature expected")
    p0, p1, va = a.args[0].arg, a.args[1].arg, a.vararg.arg
    loops = [s for s in f.stmts if isinstance(s, ast.For)]
    zr = [(s, c) for s in f.stmts if isinstance(s, ast.Expr) for c in [s.value] if isinstance(c, ast.Call) and call_name(c) == "zero_rows"]
    if len(loops) != 1 or len(zr) != 1 or not f.contains(loops[0], zr[0][0]):
        raise Undecided(f"{where}: expected one loop calling zero_rows once")
    lp, (zs, zc) = loops[0], zr[0]
    it = lp.iter
    if isinstance(it, ast.Name) and it.id == va:
        ok = True
    elif isinstance(it, ast.Subscript) and isinstance(it.value, ast.Name) and it.value.id == va:
        ok = False  # a slice / item of the matrices: some are skipped
    else:
        raise Undecided(f"{where}: loop over an unrecognised iterable [{u(it)[:60]}]")
    ctx.check("R6", ok, mod, "remove_nonlocal_contribution", lp,
              f"the loop must visit every matrix passed (*{va}); found iteration over {u(it)}",
              construct="loop over all matrices", facts={"iter": u(it)})
    zb = bind_call(ctx, zc, where)
    zp = [n.id for n in zb[""].elts]  # type: ignore[attr-defined]
    if len(zp) < 2 or zp[0] not in zb or zp[1] not in zb:
        raise Undecided(f"{where}: zero_rows is not called with a matrix and rows")
    mat = zb[zp[0]]
    if isinstance(mat, ast.Name) and isinstance(lp.target, ast.Name) and mat.id == lp.target.id:
        ok = True
    elif va in names_in(mat):
        ok = False  # a fixed item of the matrices instead of the loop variable
    else:
        raise Undecided(f"{where}: zero_rows applied to an unrecognised matrix [{u(mat)[:60]}]")
    ctx.check("R6", ok, mod, "remove_nonlocal_contribution", zs, "zero_rows must be applied to the loop variable",
              construct="zero_rows(<loop variable>, rows)")
    rows = f.canon(zb[zp[1]], zs)
    if not (isinstance(rows, ast.Call) and call_name(rows) == "expand_indices_nd"):
        raise Undecided(f"{where}: rows zeroed are not expand_indices_nd(...) [{u(rows)[:60]}]")
    eb = bind_call(ctx, rows, where)
    ep = [n.id for n in eb[""].elts]  # type: ignore[attr-defined]
    if len(ep) < 2 or ep[0] not in eb or ep[1] not in eb:
        raise Undecided(f"{where}: expand_indices_nd is not called with indices and nd")
    ind, ndx = eb[ep[0]], eb[ep[1]]
    order = eb.get(ep[2]) if len(ep) > 2 else None

    def is_param(x: ast.expr, pn: str) -> Optional[bool]:
        if isinstance(x, ast.Name):
            return x.id == pn if x.id in (p0, p1) else None
        if isinstance(x, ast.Constant):
            return False
        return None

    k0, k1 = is_param(ind, p0), is_param(ndx, p1)
    if k0 is None or k1 is None or (order is not None and not isinstance(order, ast.Constant)):
        raise Undecided(f"{where}: arguments of expand_indices_nd are not the function's parameters [{u(rows)[:80]}]")
    ok = k0 and k1 and (order is None or order.value == "F")  # type: ignore[union-attr]
    ctx.check("R6", bool(ok), mod, "remove_nonlocal_contribution", zs,
              f"rows zeroed must be expand_indices_nd({p0}, {p1}) (default face-major ordering)",
              construct="rows = expand_indices_nd(raw_ind, nd)", facts={"rows": u(rows)})


def check_tables(ctx: Ctx, mod, cls: str, key_spaces: dict) -> None:
    """R7: left/right key tables handed to partial_update_discretization agree with the typing from discretize."""
    q = f"{cls}.update_discretization"
    f = Fn(mod, q)
    calls = [c for s in f.stmts for c in ast.walk(s) if isinstance(c, ast.Call) and call_name(c) == "partial_update_discretization"]
    if len(calls) != 1:
        raise AnchorError(f"{mod.rel}:{q}: expected one call of partial_update_discretization")
    call = calls[0]
    at = f.stmt_of(call)
    tables: dict[tuple, set[str]] = {}
    for kw in call.keywords:
        parts = (kw.arg or "").split("_")
        if len(parts) == 3 and parts[0] in ("scalar", "vector") and parts[1] in ("cell", "face") and parts[2] in ("left", "right"):
            v = f.canon(kw.value, at)
            if not isinstance(v, (ast.List, ast.Tuple)):
                raise Undecided(f"{mod.rel}:{q}: {kw.arg} is not a literal list")
            tables[(parts[2], parts[0] == "vector", "F" if parts[1] == "face" else "C")] = {u(e) for e in v.elts}
    if not tables:
        raise AnchorError(f"{mod.rel}:{q}: no key tables passed to partial_update_discretization")
    for key, (rows, cols) in key_spaces.items():
        for side, sp in (("left", rows), ("right", cols)):
            inn = sorted(f"{'vector' if t[1] else 'scalar'}_{'face' if t[2] == 'F' else 'cell'}_{t[0]}"
                         for t, ks in tables.items() if t[0] == side and key in ks)
            want = f"{'vector' if sp.vec else 'scalar'}_{'face' if sp.kind == 'F' else 'cell'}_{side}"
            ctx.check("R7", inn == [want], mod, q, at,
                      f"{key} has {('rows', 'columns')[side == 'right']} {sp.txt()} in discretize, so it must be listed in {want} "
                      f"(only); it is listed in {inn or 'no ' + side + ' table'}", construct=f"{key}: {side} table",
                      facts={"listed_in": inn, "expected": want})
    listed = set().union(*tables.values())
    extra = sorted(listed - set(key_spaces))
    ctx.check("R7", not extra, mod, q, at, f"keys {extra} are listed in the update tables but never stored by discretize",
              construct="update tables list only stored keys")


BC_FILE = "src/porepy/params/bc.py"


def _per_face_attrs(ctx: Ctx, cls: str) -> set[str]:
    """Attributes of a boundary-condition class that hold one entry per face (initialised in
    __init__ by an array constructor whose shape mentions num_faces)."""
    mod = ctx.repo.module(BC_FILE)
    fn = mod.func(f"{cls}.__init__")
    out = set()
    for s in stmts_local(fn):
        tgt = s.targets[0] if isinstance(s, ast.Assign) and len(s.targets) == 1 else (s.target if isinstance(s, ast.AnnAssign) else None)
        val = getattr(s, "value", None)
        if (isinstance(tgt, ast.Attribute) and isinstance(tgt.value, ast.Name) and tgt.value.id == "self"
                and isinstance(val, ast.Call) and any(isinstance(n, ast.Attribute) and n.attr == "num_faces" for n in ast.walk(val))):
            out.add(tgt.attr)
    if not {"is_dir", "is_neu", "is_rob"} <= out:
        raise AnchorError(f"{BC_FILE}:{cls}.__init__: per-face flag arrays not found")
    return out


def check_sub_bc(ctx: Ctx, mod, cls: str) -> None:
    """R8: `_bc_for_subgrid(bc, sub_grid, face_map, ...)`: every per-face attribute of `bc` is copied to the
    sub-grid condition restricted by `face_map` in its face (last) axis, to the attribute of the same name."""
    q = f"{cls}._bc_for_subgrid"
    if mod.get(q) is None:
        return
    f = Fn(mod, q)
    a = [x.arg for x in f.fn.args.args]
    if len(a) < 4:
        raise AnchorError(f"{mod.rel}:{q}: signature (self, bc, sub_grid, face_map, ...) expected")
    bc, sub, fmap = a[1], a[2], a[3]
    ctor = [(nm, d) for nm, ds in f.defs.items() for d in ds if d.kind == "plain" and isinstance(d.value, ast.Call)
            and (call_name(d.value) or "").startswith("BoundaryCondition") and d.value.args and u(d.value.args[0]) == sub]
    if len(ctor) != 1:
        raise AnchorError(f"{mod.rel}:{q}: construction of the sub-grid boundary condition from {sub} not found")
    sub_bc, cd = ctor[0]
    per_face = _per_face_attrs(ctx, call_name(cd.value))  # type: ignore[arg-type]

    def restricted(node: ast.Attribute) -> Optional[bool]:
        """True: bc.X[..., face_map]; False: used unrestricted; None: inside np.where(...) (global face indices)."""
        p = f.pm.get(node)
        if isinstance(p, ast.Subscript) and p.value is node:
            top = p  # bc.X[i][j]...: the last index of the outermost subscript addresses the face axis
            while isinstance(f.pm.get(top), ast.Subscript) and f.pm[top].value is top:  # type: ignore[union-attr]
                top = f.pm[top]
            last = top.slice.elts[-1] if isinstance(top.slice, ast.Tuple) and top.slice.elts else top.slice
            return isinstance(last, ast.Name) and last.id == fmap
        cur = p
        while cur is not None and not isinstance(cur, ast.stmt):
            if isinstance(cur, ast.Call) and call_name(cur) in ("where", "flatnonzero", "nonzero"):
                return None
            cur = f.pm.get(cur)
        return False

    copied: dict[str, bool] = {}
    for s in f.stmts:
        if isinstance(s, (ast.For, ast.While, ast.If, ast.With, ast.Try, ast.FunctionDef)):
            roots = [x for x in (getattr(s, "iter", None), getattr(s, "test", None)) if x is not None]  # header only
        else:
            roots = [s]
        reads = [n for r0 in roots for n in ast.walk(r0) if isinstance(n, ast.Attribute) and isinstance(n.value, ast.Name)
                 and n.value.id == bc and isinstance(n.ctx, ast.Load) and n.attr in per_face]
        tgt = s.targets[0] if isinstance(s, ast.Assign) and len(s.targets) == 1 else None
        t = tgt
        while isinstance(t, ast.Subscript):
            t = t.value
        tattr = t.attr if isinstance(t, ast.Attribute) and isinstance(t.value, ast.Name) and t.value.id == sub_bc else None
        for r in reads:
            k = restricted(r)
            if k is None:
                continue
            ctx.check("R8", k, mod, q, s,
                      f"{bc}.{r.attr} holds one entry per face of the original grid: it must be restricted to the faces of the "
                      f"sub-grid ([..., {fmap}]) like its sibling attributes, otherwise the sub-problem indexes it with local face numbers",
                      construct=f"{bc}.{r.attr} restricted by {fmap}", facts={"statement": u(s)})
            if tattr is not None:
                ctx.check("R8", tattr == r.attr, mod, q, s, f"{sub_bc}.{tattr} is filled from {bc}.{r.attr} (a different attribute)",
                          construct=f"{sub_bc}.{tattr} <- {bc}.{r.attr}")
                copied[tattr] = True
        if tattr is not None and not reads and isinstance(getattr(s, "value", None), ast.Constant):
            copied.setdefault(tattr, True)  # derived flag (e.g. is_neu cleared where is_dir/is_rob hold)
    for x in sorted(per_face):
        ctx.check("R8", x in copied, mod, q, f.fn,
                  f"per-face attribute {x} of the boundary condition is not transferred to the sub-grid condition",
                  construct=f"{x}: transferred to the sub-grid condition")


def check_restrictions(ctx: Ctx, m: Model, ac: str) -> None:
    """R8 (call sites): inside the loop, data is restricted from the *active-grid* objects with the local-to-active
    maps including the overlap (l2g_cells / l2g_faces), the sub-grid being the one yielded by subproblems()."""
    f, mod, q, T = m.f, m.f.mod, m.f.qual, m.T
    n_loop = 0
    for s in f.stmts:
        for c in [n for n in ast.walk(s) if isinstance(n, ast.Call) and not isinstance(s, (ast.For, ast.If, ast.FunctionDef))]:
            cn = call_name(c)
            if cn == "_bc_for_subgrid":
                args = [u(x) for x in c.args]
                if len(args) < 3 or c.keywords:
                    raise f.und("_bc_for_subgrid not called positionally", c)
                if m.in_loop(s):
                    n_loop += 1
                    src = f.reaching(args[0], s) if isinstance(c.args[0], ast.Name) else []
                    from_active = any(d.value is not None and any(isinstance(k, ast.Call) and call_name(k) == "_bc_for_subgrid"
                                                                  for k in ast.walk(d.value)) for d in src)
                    want = [T["sub"], T["l2g_faces"]] + ([m.grid] if len(args) > 3 else [])
                    ctx.check("R8", from_active and args[1:] == want, mod, q, s,
                              f"the boundary condition of a sub-problem must be cut from the active grid's condition with "
                              f"(sub-grid, l2g_faces[, active grid]) = {want}; found {args}", construct="in-loop _bc_for_subgrid arguments",
                              facts={"args": args, "bc_from_active_grid": from_active})
                else:
                    fd = f.reaching(args[2], s) if isinstance(c.args[2], ast.Name) else []
                    okf = any(d.kind == "tuple" and isinstance(d.value, ast.Call) and call_name(d.value) == "extract_subgrid" and d.pos == 1 for d in fd)
                    want_tail = [m.sd] if len(args) > 3 else []
                    ctx.check("R8", args[1] == m.grid and okf and args[3:] == want_tail, mod, q, s,
                              f"the active grid's boundary condition must be cut with ({m.grid}, faces of the extracted grid"
                              f"{', ' + m.sd if want_tail else ''}); found {args}", construct="active-grid _bc_for_subgrid arguments")
            elif cn == "restrict_to_cells" and m.in_loop(s) and isinstance(c.func, ast.Attribute):
                recv = base_name(c.func.value)
                arg = u(c.args[0]) if len(c.args) == 1 else None
                pre = [d for d in f.defs.get(recv or "", []) if m.before_loop(d.stmt) and d.value is not None]
                from_active = any(isinstance(k, ast.Call) and call_name(k) == "restrict_to_cells" and len(k.args) == 1 and u(k.args[0]) == ac
                                  for d in pre for k in ast.walk(d.value))
                ctx.check("R8", arg == T["l2g_cells"] and from_active, mod, q, s,
                          f"constitutive data of a sub-problem must be the active grid's data (restricted with {ac}) restricted with "
                          f"l2g_cells (all local cells incl. overlap); found {u(c)}", construct=f"in-loop restriction of {recv}",
                          facts={"arg": arg, "receiver_from_active_grid": from_active})
    if n_loop != 1:
        raise AnchorError(f"{f.where()}: expected one _bc_for_subgrid call inside the subproblem loop, found {n_loop}")


def _find_method(ctx: Ctx, mod, cls: str, name: str):
    """(module, qualname, def) of method `name` of class `cls`, looking into base classes that are analysed targets."""
    seen = set()
    todo = [(mod, cls)]
    while todo:
        mo, cl = todo.pop()
        if (mo.rel, cl) in seen:
            continue
        seen.add((mo.rel, cl))
        d = mo.get(f"{cl}.{name}")
        if isinstance(d, ast.FunctionDef):
            return mo, f"{cl}.{name}", d
        c = mo.get(cl)
        if isinstance(c, ast.ClassDef):
            for b in c.bases:
                bn = (u(b)).split(".")[-1]
                for rel, tcls in TARGETS:
                    if tcls == bn:
                        todo.append((ctx.repo.module(rel), tcls))
    return None


def _arg_for(call: ast.Call, fndef: ast.FunctionDef, pname: str, skip_self: bool = True) -> Optional[ast.expr]:
    params = [a.arg for a in fndef.args.args][1 if skip_self else 0:]
    for k in call.keywords:
        if k.arg == pname:
            return k.value
    if pname in params and params.index(pname) < len(call.args) and not any(isinstance(a, ast.Starred) for a in call.args):
        return call.args[params.index(pname)]
    return None


def check_frame(ctx: Ctx, m: Model, cls: str) -> None:
    """R10: the local coordinate system of a 2d grid embedded in 3d is fitted once for the whole grid: a map_grid(<grid>)
    reached from the in-loop local discretization with the sub-grid as <grid> must be given the rotation by its caller."""
    f, mod = m.f, m.f.mod
    call = None
    for up in m.updates:
        d = f.unique_def(up.m, up.stmt)
        v = d.value if d is not None else None
        if isinstance(v, ast.Name):
            v = f.unique_plain(v.id, d.stmt)  # type: ignore[union-attr]
        if isinstance(v, ast.Call):
            call = v
            break
    if call is None or not (isinstance(call.func, ast.Attribute) and u(call.func.value) == "self"):
        raise f.und("local discretization is not a call of a method of self")
    if not call.args or u(call.args[0]) != m.T["sub"]:
        raise f.und("local discretization is not called with the sub-grid as first argument", call)
    top = _find_method(ctx, mod, cls, call.func.attr)
    if top is None:
        raise AnchorError(f"{f.where()}: method {call.func.attr} not found")

    def outside_loop(e: Optional[ast.expr]) -> Optional[bool]:
        """the value passed is fixed before the loop (True) / computed per sub-problem (False) / unknown (None)"""
        if not isinstance(e, ast.Name):
            return None
        ds = f.defs.get(e.id, [])
        if not ds:
            return None
        return all(not m.in_loop(d.stmt) for d in ds if d.kind != "sub")

    # chain: list of (module, qual, def, grid parameter name, call that entered it)
    def visit(mo, qual, fd: ast.FunctionDef, gparam: str, chain: list, depth: int) -> None:
        for n in ast.walk(fd):
            if not isinstance(n, ast.Call):
                continue
            if call_name(n) == "map_grid" and n.args and isinstance(n.args[0], ast.Name) and n.args[0].id == gparam:
                rarg = kwarg(n, "R") if kwarg(n, "R") is not None else (n.args[2] if len(n.args) > 2 else None)
                ok: Optional[bool]
                why = "map_grid refits the frame from the nodes of the sub-grid"
                if rarg is None:
                    ok = False
                elif isinstance(rarg, ast.Name) and rarg.id in [a.arg for a in fd.args.args]:
                    # follow the parameter up the chain to the call in the loop
                    ok = None
                    cur_p = rarg.id
                    links = chain[:]  # [(callee def, call node, caller def or None for discretize)]
                    while links:
                        cfd, ccall, caller_fd = links.pop()
                        a = _arg_for(ccall, cfd, cur_p)
                        if a is None:
                            ok, why = False, f"parameter {cur_p} of {cfd.name} is not passed, so map_grid refits the frame per sub-grid"
                            break
                        if caller_fd is None:
                            o = outside_loop(a)
                            ok = o
                            if o is False:
                                why = f"the rotation passed ({u(a)}) is computed inside the sub-problem loop"
                            break
                        if isinstance(a, ast.Name) and a.id in [x.arg for x in caller_fd.args.args]:
                            cur_p = a.id
                            continue
                        ok = None
                        break
                else:
                    ok = None
                if ok is None:
                    raise Undecided(f"{mo.rel}:{qual}: cannot decide where the rotation given to map_grid comes from [{u(n)[:80]}]")
                ctx.check("R10", ok, mo, qual, n,
                          f"sub-problems of {cls}.discretize must share one local coordinate system (fitted once from the whole "
                          f"grid): quantities that depend on the orientation of the frame (vector source, vector unknowns on a 2d "
                          f"grid embedded in 3d) otherwise change sign between sub-grids whose fitted normal flips; {why}",
                          construct=f"{cls}.discretize sub-problems: frame of map_grid({gparam})",
                          facts={"call": u(n), "reached_from": f"{cls}.discretize"})
            elif depth > 0 and isinstance(n.func, ast.Attribute) and u(n.func.value) == "self" \
                    and any(isinstance(a, ast.Name) and a.id == gparam for a in n.args):
                sub = _find_method(ctx, mod, cls, n.func.attr)
                if sub is None:
                    continue
                smo, squal, sfd = sub
                pos = [i for i, a in enumerate(n.args) if isinstance(a, ast.Name) and a.id == gparam][0]
                sparams = [a.arg for a in sfd.args.args][1:]
                if pos < len(sparams):
                    visit(smo, squal, sfd, sparams[pos], chain + [(sfd, n, fd)], depth - 1)

    tmo, tqual, tfd = top
    tparams = [a.arg for a in tfd.args.args]
    if len(tparams) < 2:
        raise AnchorError(f"{tmo.rel}:{tqual}: grid parameter expected")
    visit(tmo, tqual, tfd, tparams[1], [(tfd, call, None)], 1)


def check_eta(ctx: Ctx, m: Model) -> None:
    """R8 (array-valued eta): an array indexed by the sub-faces of the full grid that is gathered inside the loop with
    l2g_faces (numbering of the active grid) must first be restricted to the active grid."""
    f, mod, q, T = m.f, m.f.mod, m.f.qual, m.T
    CALLEE_HOME.setdefault("adjust_eta_length", (FVUTILS, "adjust_eta_length"))
    for s in f.stmts:
        if not m.in_loop(s) or isinstance(s, (ast.For, ast.If, ast.While, ast.With, ast.FunctionDef)):
            continue
        for c in [n for n in ast.walk(s) if isinstance(n, ast.Call) and call_name(n) == "adjust_eta_length"]:
            b = bind_call(ctx, c, f.where())
            pn = [n.id for n in b[""].elts]  # type: ignore[attr-defined]
            if len(pn) < 3 or any(x not in b for x in pn[:3]):
                raise f.und("adjust_eta_length is not called with (eta, sub-grid, faces)", c)
            eta, sub, faces = b[pn[0]], b[pn[1]], b[pn[2]]
            ctx.check("R8", u(sub) == T["sub"] and u(faces) == T["l2g_faces"], mod, q, s,
                      f"eta of a sub-problem must be gathered for (sub-grid, l2g_faces) = ({T['sub']}, {T['l2g_faces']}); found "
                      f"({u(sub)}, {u(faces)})", construct="in-loop adjust_eta_length: sub-grid and faces")
            if not isinstance(eta, ast.Name):
                raise f.und("eta passed to adjust_eta_length is not a name", c)

            def origin(name: str, at: ast.stmt, depth: int = 3) -> set[str]:
                out: set[str] = set()
                for d in f.reaching(name, at):
                    v = d.value
                    if v is None or d.kind != "plain":
                        out.add("unknown")
                    elif isinstance(v, ast.Name) and depth > 0:
                        out |= origin(v.id, d.stmt, depth - 1)
                    elif any(isinstance(k, ast.Call) and call_name(k) == "adjust_eta_length" for k in ast.walk(v)) and not m.in_loop(d.stmt):
                        k = [k for k in ast.walk(v) if isinstance(k, ast.Call) and call_name(k) == "adjust_eta_length"][0]
                        kb = bind_call(ctx, k, f.where())
                        fd = f.reaching(u(kb[pn[2]]), d.stmt) if isinstance(kb.get(pn[2]), ast.Name) else []
                        okf = any(x.kind == "tuple" and isinstance(x.value, ast.Call) and call_name(x.value) == "extract_subgrid" and x.pos == 1 for x in fd)
                        out.add("active" if u(kb.get(pn[1])) == m.grid and okf else "unknown")  # type: ignore[arg-type]
                    elif any(isinstance(k, ast.Attribute) and k.attr == "PARAMETERS" for k in ast.walk(f.canon(v, d.stmt))):
                        out.add("full")
                    else:
                        out.add("unknown")
                return out

            o = origin(eta.id, s)
            if "active" in o:
                ok = True
            elif o == {"full"}:
                ok = False
            else:
                raise f.und(f"cannot decide which grid the array {eta.id} passed to adjust_eta_length is numbered on", c)
            ctx.check("R8", ok, mod, q, s,
                      f"{eta.id} comes straight from the parameter dictionary (one entry per sub-face of the full grid) but is "
                      f"gathered with {T['l2g_faces']}, which numbers the faces of the active grid: on a partial discretization "
                      f"(active grid smaller than the grid) the wrong entries are picked; restrict it to the active grid first "
                      f"(adjust_eta_length(eta, {m.grid}, <faces of the extracted grid>))",
                      construct=f"in-loop adjust_eta_length: {eta.id} numbered on the active grid", facts={"origin": sorted(o)})


def check_active_cells_unique(ctx: Ctx) -> None:
    """R11: the cells returned by cell_ind_for_partial_update (used to extract the active grid) contain no duplicates:
    contributions of independent, jointly usable modes (cells / faces / nodes) concatenated with hstack must be uniqued."""
    mod = ctx.repo.module(FVUTILS)
    q = "cell_ind_for_partial_update"
    f = Fn(mod, q)
    rets = [s for s in f.stmts if isinstance(s, ast.Return) and isinstance(s.value, ast.Tuple) and len(s.value.elts) == 2]
    if len(rets) != 1:
        raise Undecided(f"{FVUTILS}:{q}: expected one `return cells, faces`")
    e = rets[0].value.elts[0]  # type: ignore[union-attr]
    uniq_in_ret = any(isinstance(n, ast.Call) and call_name(n) in ("unique", "union1d") for n in ast.walk(e))
    names = [n.id for n in ast.walk(e) if isinstance(n, ast.Name) and n.id in f.defs]
    if len(names) != 1:
        raise Undecided(f"{FVUTILS}:{q}: returned cell set is not derived from one local array [{u(e)[:60]}]")
    nm = names[0]
    accum, uniq, other = [], [], []
    for d in f.defs[nm]:
        v = d.value
        if d.kind != "plain" or v is None:
            other.append(d)
        elif isinstance(v, ast.Call) and call_name(v) in ("hstack", "concatenate", "append", "r_") and nm in names_in(v):
            accum.append(d)
        elif isinstance(v, ast.Call) and call_name(v) in ("unique", "union1d") and nm in names_in(v):
            uniq.append(d)
        elif isinstance(v, ast.Call) and call_name(v) in ("empty", "zeros", "array") and nm not in names_in(v):
            pass  # initial empty array
        else:
            other.append(d)
    if other:
        raise Undecided(f"{FVUTILS}:{q}: unrecognised definition of {nm} [{u(other[0].stmt)[:80]}]")
    arms = {id(f.arm_of(d.stmt)[0]) for d in accum}
    if len(accum) < 2 or len(arms) < 2:
        raise Undecided(f"{FVUTILS}:{q}: the cell set is not accumulated over several independent modes")
    unions = [d for d in uniq if call_name(d.value) == "union1d"]  # type: ignore[arg-type]
    final_unique = uniq_in_ret or any(all(f.before(a.stmt, d.stmt) for a in accum) and f.precedes(d.stmt, rets[0]) for d in uniq)
    ctx.check("R11", final_unique, mod, q, accum[-1].stmt,
              f"{nm} is the concatenation of the cells found by {len(accum)} independent modes (cells / faces / nodes) that may be "
              f"given together; without np.unique the same cell is returned several times and extract_subgrid builds an inconsistent "
              f"active grid", construct=f"{nm}: duplicates removed before it is returned",
              facts={"accumulations": [u(d.stmt) for d in accum], "unique": bool(final_unique), "union1d_steps": len(unions)})


def run(ctx: Ctx) -> None:
    for rel, cls in TARGETS:
        mod = ctx.repo.module(rel)
        m = Model(Fn(mod, f"{cls}.discretize"))
        st = check_function(ctx, m)
        key_spaces = check_chain(ctx, m, st)
        check_tables(ctx, mod, cls, key_spaces)
        check_restrictions(ctx, m, st["ac"])
        check_eta(ctx, m)
        check_frame(ctx, m, cls)
        check_sub_bc(ctx, mod, cls)
        ctx.sample({"function": f"{cls}.discretize", "subproblem_tuple": m.T,
                    "accumulators": {a: f"{r.txt()} x {c.txt()}" for a, (r, c) in m.shape.items()},
                    "local_removals": [{"over": r.kind, "nd": u(r.nd), "matrices": r.names} for r in st["lrem"]],
                    "final_removals": [{"over": r.kind, "nd": u(r.nd), "matrices": r.names, "kept": u(r.keep)} for r in st["frem"]],
                    "no_split_shortcut": st["has_shortcut"]})
    check_producer(ctx)
    check_partition(ctx)
    check_helper(ctx)
    check_active_cells_unique(ctx)
    if ctx.tier == "thorough":
        ctx.note("observation (not decided statically, reported by a refactoring agent on the unmodified tree): on a 2d grid "
                 "embedded in 3d, Mpfa.discretize with update_discretization=True + specified_cells gives vector_source / "
                 "bound_pressure_vector_source rows differing from a full discretization (max diff 14.8 / 0.70). The glob_R "
                 "rotation applied after the loop is taken from map_grid(sd) while the local discretizations rotate with "
                 "map_grid(sub-grid); whether the two in-plane rotations agree is a numerical fact outside this rule family.")


# ------------------------------------------------------------------------------------
# seeded mutants (single textual edits that still compile; most are invisible to a
# discretization done in one piece, i.e. to most of the test-suite)

def _m(name, file, old, new, rule, control=False, count=1):
    return dict(name=name, file=file, old=old, new=new, rule=rule, control=control, count=count)


MUTANTS = [
    # --- R2: rescaling
    _m("mpfa-drop-scaling-bound-flux", MPFA, "        active_bound_flux = scaling @ active_bound_flux\n", "", "R2", control=True),
    _m("mpfa-drop-scaling-vector-source", MPFA, "        active_vector_source = scaling @ active_vector_source\n", "", "R2"),
    _m("mpsa-drop-scaling-bound-displacement-cell", MPSA,
       "        active_bound_displacement_cell = scaling @ active_bound_displacement_cell\n", "", "R2"),
    _m("biot-drop-scaling-bound-displacement-pressure", BIOT,
       "            active_bound_displacement_pressure[key] = (\n                scaling_vector @ active_bound_displacement_pressure[key]\n            )\n",
       "", "R2"),
    _m("biot-scaling-from-the-right", BIOT, "        active_bound_stress = scaling_vector @ active_bound_stress\n",
       "        active_bound_stress = active_bound_stress @ scaling_vector\n", "R2"),
    _m("mpsa-repetitions-block-ordered", MPSA,
       "np.bincount(np.concatenate(faces_in_subgrid_accum)), (nd, 1)\n        ).ravel(\"F\")",
       "np.bincount(np.concatenate(faces_in_subgrid_accum)), (nd, 1)\n        ).ravel(\"C\")", "R2"),
    _m("mpsa-scaling-twice", MPSA, "        active_stress = scaling @ active_stress\n",
       "        active_stress = scaling @ active_stress\n        active_stress = scaling @ active_stress\n", "R2"),
    _m("biot-scaling-not-reciprocal", BIOT, "(1.0 / num_face_repetitions_vector, 0), shape=(nf * nd, nf * nd)",
       "(1.0 * num_face_repetitions_vector, 0), shape=(nf * nd, nf * nd)", "R2"),
    # --- R1: removal typed by row space
    _m("biot-face-matrix-to-cell-removal", BIOT,
       "                *matrices_from_dict(loc_scalar_gradient),\n                *matrices_from_dict(loc_bound_displacement_pressure),\n            )\n\n"
       "            eliminate_cell = np.where(\n                np.logical_not(np.isin(l2g_cells, cells_in_subgrid))\n            )[0]\n"
       "            _fvutils.remove_nonlocal_contribution(\n                eliminate_cell,\n                1,\n",
       "                *matrices_from_dict(loc_bound_displacement_pressure),\n            )\n\n"
       "            eliminate_cell = np.where(\n                np.logical_not(np.isin(l2g_cells, cells_in_subgrid))\n            )[0]\n"
       "            _fvutils.remove_nonlocal_contribution(\n                eliminate_cell,\n                1,\n                *matrices_from_dict(loc_scalar_gradient),\n",
       "R1", control=True),
    _m("biot-cell-matrices-removed-over-faces", BIOT, "                eliminate_cell,\n                1,\n", "                eliminate_face,\n                1,\n", "R1"),
    _m("biot-final-removal-consistency-over-faces", BIOT,
       "            *matrices_from_dict(bound_displacement_pressure),\n        )\n\n        # Cells to be updated",
       "            *matrices_from_dict(bound_displacement_pressure),\n            *matrices_from_dict(consistency),\n        )\n\n        # Cells to be updated", "R1"),
    _m("mpfa-local-removal-forgets-vector-sources", MPFA, "remove_nonlocal_contribution(eliminate_face, 1, *discr_fields)",
       "remove_nonlocal_contribution(eliminate_face, 1, *discr_fields[:4])", "R1"),
    _m("mpsa-local-removal-drops-one", MPSA,
       "                loc_bound_stress,\n                loc_bound_displacement_cell,\n                loc_bound_displacement_face,\n            )\n\n            # Next, transfer",
       "                loc_bound_stress,\n                loc_bound_displacement_face,\n            )\n\n            # Next, transfer", "R1"),
    _m("mpsa-local-removal-scalar-nd", MPSA, "                eliminate_face,\n                sd.dim,\n                loc_stress,",
       "                eliminate_face,\n                1,\n                loc_stress,", "R1"),
    # --- R3: completeness chain
    _m("mpsa-update-arm-forgets-matrix", MPSA,
       "            matrix_dictionary[self.bound_displacement_cell_matrix_key][update_ind] = (\n                bound_displacement_cell_glob[update_ind]\n            )\n",
       "", "R3", control=True),
    _m("mpfa-final-removal-forgets-vector-source", MPFA, "            bound_pressure_face_glob,\n            vector_source_glob,\n            bound_pressure_vector_source_glob,\n        )",
       "            bound_pressure_face_glob,\n            bound_pressure_vector_source_glob,\n        )", "R3"),
    _m("mpfa-shortcut-wrong-sibling", MPFA, "                active_bound_pressure_cell = loc_bound_pressure_cell\n",
       "                active_bound_pressure_cell = loc_flux\n", "R3"),
    _m("mpfa-update-arm-wrong-sibling", MPFA, "                bound_pressure_face_glob[active_faces]\n", "                bound_flux_glob[active_faces]\n", "R3"),
    _m("mpsa-update-rows-from-extracted-faces", MPSA, "update_ind = pp.array_operations.expand_indices_nd(active_faces, sd.dim)",
       "update_ind = pp.array_operations.expand_indices_nd(extracted_faces, sd.dim)", "R3"),
    _m("biot-final-face-removal-forgets-scalar-gradient", BIOT,
       "            bound_displacement_face,\n            *matrices_from_dict(scalar_gradient),\n", "            bound_displacement_face,\n", "R3"),
    _m("biot-local-matrix-never-accumulated", BIOT,
       "                active_consistency[key] += (\n                    cell_map_scalar.transpose() * loc_biot_stab[key] * cell_map_scalar\n                )\n", "", "R3"),
    # --- R4: factors / index spaces
    _m("mpfa-vector-source-scalar-cell-map", MPFA, "active_vector_source += face_map * loc_vector_source * cell_map_vec",
       "active_vector_source += face_map * loc_vector_source * cell_map", "R4"),
    _m("mpfa-active-map-from-active-faces", MPFA, "                sd, extracted_faces, active_cells, is_vector=False\n",
       "                sd, active_faces, active_cells, is_vector=False\n", "R4"),
    _m("mpsa-local-map-from-faces-in-subgrid", MPSA, "                active_grid, l2g_faces, l2g_cells, is_vector=True\n",
       "                active_grid, faces_in_subgrid, l2g_cells, is_vector=True\n", "R4"),
    _m("biot-divergence-left-untransposed", BIOT,
       "                active_consistency[key] += (\n                    cell_map_scalar.transpose() * loc_biot_stab[key] * cell_map_scalar",
       "                active_consistency[key] += (\n                    cell_map_scalar * loc_biot_stab[key] * cell_map_scalar", "R4"),
    # --- R5: which faces are counted
    _m("mpfa-count-l2g-faces", MPFA, "faces_in_subgrid_accum.append(faces_in_subgrid)", "faces_in_subgrid_accum.append(l2g_faces)", "R5", control=True),
    _m("biot-count-l2g-faces", BIOT, "faces_in_subgrid_accum.append(faces_in_subgrid)", "faces_in_subgrid_accum.append(l2g_faces)", "R5"),
    _m("mpfa-shortcut-test-l2g-faces", MPFA, "if active_grid.num_faces == faces_in_subgrid.size:", "if active_grid.num_faces == l2g_faces.size:", "R5"),
    _m("mpsa-eliminate-without-negation", MPSA, "                np.logical_not(np.isin(l2g_faces, faces_in_subgrid))\n            )[0]\n            _fvutils.remove_nonlocal_contribution(\n                eliminate_face,\n                sd.dim,\n                loc_stress,",
       "                np.isin(l2g_faces, faces_in_subgrid)\n            )[0]\n            _fvutils.remove_nonlocal_contribution(\n                eliminate_face,\n                sd.dim,\n                loc_stress,", "R5"),
    _m("subproblems-yield-swapped", FVUTILS, "yield sub_sd, loc_faces, cells_in_partition, l2g_cells, l2g_faces",
       "yield sub_sd, loc_faces, cells_in_partition, l2g_faces, l2g_cells", "R5"),
    # --- R6: the helper
    _m("helper-skips-first-matrix", FVUTILS, "    for mat in args:\n        pp.matrix_operations.zero_rows(mat, eliminate_ind)",
       "    for mat in args[1:]:\n        pp.matrix_operations.zero_rows(mat, eliminate_ind)", "R6"),
    _m("helper-ignores-nd", FVUTILS, "eliminate_ind = pp.array_operations.expand_indices_nd(raw_ind, nd)\n    for mat in args:",
       "eliminate_ind = pp.array_operations.expand_indices_nd(raw_ind, 1)\n    for mat in args:", "R6"),
    # --- seeded by independent fault-seeding agents (all pass the repo's tests)
    _m("seed-robin-weight-unrestricted", MPFA, "        sub_bc.robin_weight = bc.robin_weight[face_map]\n", "        sub_bc.robin_weight = bc.robin_weight\n", "R8", control=True),
    _m("seed-shortcut-test-subgrid-faces", MPFA, "if active_grid.num_faces == faces_in_subgrid.size:", "if active_grid.num_faces == sub_sd.num_faces:", "R5", control=True),
    _m("seed-update-arm-bound-pressure-vector-source-sibling", MPFA, "            ] = bound_pressure_vector_source_glob[active_faces]\n",
       "            ] = vector_source_glob[active_faces]\n", "R3"),
    # --- R8: restriction of boundary conditions / parameters to the sub-problem
    _m("mpsa-sub-bc-basis-unrestricted", MPSA, "        sub_bc.basis = bc.basis[:, :, face_map]\n", "        sub_bc.basis = bc.basis\n", "R8"),
    _m("mpfa-sub-bc-wrong-sibling", MPFA, "        sub_bc.is_rob = bc.is_rob[face_map]\n", "        sub_bc.is_rob = bc.is_dir[face_map]\n", "R8"),
    _m("mpsa-sub-bc-forgets-robin-weight", MPSA, "        sub_bc.robin_weight = bc.robin_weight[:, :, face_map]\n", "", "R8"),
    _m("mpsa-loop-bc-from-full-grid", MPSA, "                active_bound, sub_g, l2g_faces\n", "                bound, sub_g, l2g_faces\n", "R8"),
    _m("biot-loop-bc-faces-in-subgrid", BIOT, "                active_bound, sub_sd, l2g_faces\n", "                active_bound, sub_sd, faces_in_subgrid\n", "R8"),
    _m("biot-loop-tensor-cells-in-subgrid", BIOT, "loc_c = active_constit.restrict_to_cells(l2g_cells)", "loc_c = active_constit.restrict_to_cells(cells_in_subgrid)", "R8"),
    _m("mpfa-loop-tensor-from-full-grid", MPFA, "loc_k = active_k.restrict_to_cells(l2g_cells)", "loc_k = k.restrict_to_cells(l2g_cells)", "R8"),
    _m("mpfa-eta-gathered-with-faces-in-subgrid", MPFA, "eta=active_eta, sub_sd=sub_sd, l2g_faces=l2g_faces",
       "eta=active_eta, sub_sd=sub_sd, l2g_faces=faces_in_subgrid", "R8"),
    # --- reverted fixes (536488c03, 9796a25de, 9eb643a6e)
    _m("revert-fix-active-cells-not-uniqued", FVUTILS, "    cell_ind = np.unique(cell_ind)\n    face_ind.sort()\n",
       "    cell_ind.sort()\n    face_ind.sort()\n", "R11", control=True),
    _m("revert-fix-mpfa-eta-from-full-grid", MPFA, "eta=active_eta, sub_sd=sub_sd, l2g_faces=l2g_faces", "eta=eta, sub_sd=sub_sd, l2g_faces=l2g_faces", "R8"),
    _m("revert-fix-mpsa-eta-from-full-grid", MPSA, "eta=active_eta, sub_sd=sub_g, l2g_faces=l2g_faces", "eta=eta, sub_sd=sub_g, l2g_faces=l2g_faces", "R8"),
    _m("revert-fix-mpfa-frame-refitted-per-subgrid", MPFA, "                nodes,\n            ) = pp.map_geometry.map_grid(sd, R=rotation)\n",
       "                nodes,\n            ) = pp.map_geometry.map_grid(sd)\n", "R10"),
    _m("revert-fix-mpsa-frame-refitted-per-subgrid", MPSA, "            nodes,\n        ) = pp.map_geometry.map_grid(sd, R=rotation)\n",
       "            nodes,\n        ) = pp.map_geometry.map_grid(sd)\n", "R10"),
    _m("biot-rotation-not-passed-to-local-discretization", BIOT, "                inverter=inverter,\n                rotation=rotation,\n            )",
       "                inverter=inverter,\n            )", "R10"),
    _m("mpsa-rotation-not-forwarded-to-reduce-grid", MPSA, "sd, constit = self._reduce_grid_constit_2d(sd, constit, rotation)", "sd, constit = self._reduce_grid_constit_2d(sd, constit)", "R10"),
    # --- R7: update tables
    _m("biot-divergence-listed-as-face-left", BIOT, "        scalar_cell_left = [\n            self.displacement_divergence_matrix_key,\n",
       "        scalar_cell_left = [\n", "R7"),
]
