"""C01 - forward-mode AD rules are exact: abstract interpretation of every overload arm of
AdArray and every function of ad/functions.py over the domain of *dual terms*
(value expression, coefficient of each operand's Jacobian), compared with sympy's derivative.

The interpreter is branch-local and straight-line: isinstance dispatch is resolved by the
abstract *kind* of the operand (scalar / array / sparse / ad / slicer), `if ...: raise` guards
are skipped, no loops are executed, no path conditions are collected and no solver is used.
sympy is only the term normaliser / differentiator for expressions copied out of the source.
"""
from __future__ import annotations

import ast
from dataclasses import dataclass, field
from typing import Optional

import sympy as sp

from ..core.astutil import u, dotted, walk_local, methods, body_nodoc, call_name, calls_in, names_in, kwarg
from ..core.loader import AnchorError, Undecided
from ..core.report import Ctx

FWD = "src/porepy/numerics/ad/forward_mode.py"
FUN = "src/porepy/numerics/ad/functions.py"

META = {
    "explanation": (
        "Abstract interpretation of ad/forward_mode.py (AdArray overloads) and ad/functions.py over dual terms: for each "
        "isinstance arm the returned AdArray is computed symbolically as (value, coefficient of self.jac, coefficient "
        "of other.jac); delegations between overloads are followed by interpreting the callee arm. Oracle: value == "
        "python semantics of the operator with operands in (reflected) order; coefficients == sympy partial "
        "derivatives. Functions: dV/dx == Jacobian factor, ndarray arm value == AdArray arm value, numpy call arity. "
        "maximum: value and Jacobian selected in lock-step by the same index set from the same operands. l2_norm: "
        "value agreement of arms, Jacobian = local matrix * var.jac with entries component/norm. Decides exactness of "
        "every *local* rule (forward mode is compositional); does not decide floating-point agreement with numpy."),
    "rule_text": "one obligation per (overload, operand kind) arm and per function (derivative, arm agreement, arity)",
    "trusted_base": ["python ast", "sympy diff/simplify as term normaliser (inconclusive => exit 2)", "numpy function table in this module"],
    "assumptions": ["operands are real and inside the smooth domain (symbols declared positive)",
                    "scipy `diags(a) * J` scales row i of J by a[i]"],
    "technique": "abstract interpretation over dual numbers + sympy derivative comparison",
}
MIN_INSTANCES = {"R1": 19, "R2": 18, "R3": 20, "R4": 7, "R5": 2, "R6": 2}

x, y, c, a = sp.symbols("x y c a", positive=True)
xr = sp.Symbol("x", real=True)  # argument of the function library (abs/sign need a sign-indefinite symbol)
M = sp.Symbol("M", commutative=False)


class PC(sp.Function):
    """piecewise-constant numpy function (heaviside, isclose, sign-like): derivative 0"""

    def fdiff(self, argindex=1):
        return sp.S.Zero


class MM(sp.Function):
    """left multiplication by a fixed sparse matrix: MM(M, v) = M @ v (linear in v)"""


NP1 = {"exp": sp.exp, "log": sp.log, "sin": sp.sin, "cos": sp.cos, "tan": sp.tan, "arcsin": sp.asin,
       "arccos": sp.acos, "arctan": sp.atan, "sinh": sp.sinh, "cosh": sp.cosh, "tanh": sp.tanh,
       "arcsinh": sp.asinh, "arccosh": sp.acosh, "arctanh": sp.atanh, "sqrt": sp.sqrt, "abs": sp.Abs,
       "absolute": sp.Abs, "sign": sp.sign}
NP_ARITY = dict({k: 1 for k in NP1}, heaviside=2, maximum=2, minimum=2, power=2, arctan2=2)


@dataclass
class E:
    """array-valued expression, possibly piecewise over one boolean mask"""
    on: sp.Expr
    off: sp.Expr
    mask: Optional[sp.Expr] = None
    kind: str = "array"

    @staticmethod
    def of(e, kind="array"):
        return E(sp.sympify(e), sp.sympify(e), None, kind)

    def map(self, f):
        return E(f(self.on), f(self.off), self.mask, self.kind)


def _bin(op, l: E, r: E) -> E:
    mask = l.mask if l.mask is not None else r.mask
    if l.mask is not None and r.mask is not None and l.mask != r.mask:
        raise Undecided("two different masks in one expression")
    kind = "array" if "array" in (l.kind, r.kind) else l.kind
    return E(op(l.on, r.on), op(l.off, r.off), mask, kind)


@dataclass
class Jac:
    co: dict  # operand name -> E coefficient ; {} == structurally zero

    def scaled(self, e: E) -> "Jac":
        return Jac({k: _bin(lambda p, q: p * q, e, v) for k, v in self.co.items()})

    def plus(self, o: "Jac", sign=1) -> "Jac":
        out = dict(self.co)
        for k, v in o.co.items():
            vv = v.map(lambda t: sign * t)
            out[k] = _bin(lambda p, q: p + q, out[k], vv) if k in out else vv
        return Jac(out)


@dataclass
class Ad:
    val: E
    jac: Jac
    kind: str = "ad"


@dataclass
class Other:
    """opaque value of a known kind (sparse matrix, slicer)"""
    kind: str
    sym: object = None


class Raises(Exception):
    pass


KINDS = {"int": "scalar", "float": "scalar", "number": "scalar", "ndarray": "array", "spmatrix": "sparse",
         "sparray": "sparse", "csr_matrix": "sparse", "AdArray": "ad", "ArraySlicer": "slicer"}


def _isinstance_kinds(t: ast.expr) -> set[str]:
    out = set()
    elts = t.elts if isinstance(t, ast.Tuple) else ([t.left, t.right] if isinstance(t, ast.BinOp) and isinstance(t.op, ast.BitOr) else [t])
    for e in elts:
        if isinstance(e, ast.BinOp) and isinstance(e.op, ast.BitOr):
            out |= _isinstance_kinds(e)
            continue
        d = dotted(e)
        if d is None or d.split(".")[-1] not in KINDS:
            raise Undecided(f"isinstance against unknown type {u(e)}")
        out.add(KINDS[d.split(".")[-1]])
    return out


class Interp:
    def __init__(self, cls_methods: dict[str, ast.FunctionDef] | None, module_funcs: dict[str, ast.FunctionDef] | None = None):
        self.meths = cls_methods or {}
        self.funcs = module_funcs or {}
        self.depth = 0

    # -- calls ---------------------------------------------------------------------
    def call_method(self, name: str, recv: Ad, args: list):
        fn = self.meths.get(name)
        if fn is None:
            raise Undecided(f"AdArray.{name} not found")
        params = [p.arg for p in fn.args.args]
        env = {params[0]: recv}
        for p, v in zip(params[1:], args):
            env[p] = v
        return self.run(fn, env)

    def run(self, fn: ast.FunctionDef, env: dict):
        self.depth += 1
        if self.depth > 6:
            raise Undecided("delegation too deep")
        try:
            r = self.block(body_nodoc(fn), env)
        finally:
            self.depth -= 1
        if r is None:
            raise Undecided(f"{fn.name}: no return reached")
        return r

    # -- statements ----------------------------------------------------------------
    def block(self, stmts: list[ast.stmt], env: dict):
        for s in stmts:
            if isinstance(s, ast.Return):
                if s.value is None:
                    raise Undecided("bare return")
                return self.ev(s.value, env)
            if isinstance(s, ast.Raise):
                raise Raises(u(s)[:80])
            if isinstance(s, (ast.Assert, ast.Pass)):
                continue
            if isinstance(s, ast.Expr):
                if isinstance(s.value, ast.Constant):
                    continue
                raise Undecided(f"expression statement {u(s)[:60]}")
            if isinstance(s, ast.AnnAssign):
                if s.value is None:
                    continue
                s = ast.Assign(targets=[s.target], value=s.value)
            if isinstance(s, ast.Assign):
                self.assign(s, env)
                continue
            if isinstance(s, ast.If):
                r = self.if_(s, env)
                if r is not None:
                    return r
                continue
            raise Undecided(f"statement kind {type(s).__name__}: {u(s)[:60]}")
        return None

    def if_(self, s: ast.If, env: dict):
        t = self.test(s.test, env)
        if t is True:
            return self.block(s.body, env)
        if t is False:
            return self.block(s.orelse, env)
        # unknown test: only a guard whose body always raises may be skipped
        if all(isinstance(b, ast.Raise) for b in s.body) and not s.orelse:
            return None
        if isinstance(s.test, ast.Compare) and "ndim" in u(s.test) and all(isinstance(b, ast.Assign) for b in s.body) and not s.orelse:
            return None  # `if val.ndim == 0: val = np.array([val])` : shape normalisation only
        raise Undecided(f"cannot decide branch `{u(s.test)[:70]}`")

    def test(self, t: ast.expr, env: dict):
        if isinstance(t, ast.UnaryOp) and isinstance(t.op, ast.Not):
            r = self.test(t.operand, env)
            return None if r is None else (not r)
        if isinstance(t, ast.BoolOp):
            rs = [self.test(v, env) for v in t.values]
            if isinstance(t.op, ast.And):
                if any(r is False for r in rs):
                    return False
                return True if all(r is True for r in rs) else None
            if any(r is True for r in rs):
                return True
            return False if all(r is False for r in rs) else None
        if isinstance(t, ast.Call) and call_name(t) == "isinstance" and len(t.args) == 2 and isinstance(t.args[0], ast.Name):
            v = env.get(t.args[0].id)
            if v is None:
                return None
            return getattr(v, "kind") in _isinstance_kinds(t.args[1])
        return None

    def assign(self, s: ast.Assign, env: dict) -> None:
        if len(s.targets) != 1:
            raise Undecided("chained assignment")
        tg = s.targets[0]
        if isinstance(tg, ast.Name):
            env[tg.id] = self.ev(s.value, env)
            return
        if isinstance(tg, ast.Attribute) and isinstance(tg.value, ast.Name) and isinstance(env.get(tg.value.id), Ad):
            obj = env[tg.value.id]
            v = self.ev(s.value, env)
            if tg.attr == "val" and isinstance(v, E):
                env[tg.value.id] = Ad(v, obj.jac)
                return
            if tg.attr == "jac" and isinstance(v, Jac):
                env[tg.value.id] = Ad(obj.val, v)
                return
        if isinstance(tg, ast.Subscript) and isinstance(tg.value, ast.Name) and isinstance(env.get(tg.value.id), E):
            # masked store  A[mask] = rhs
            m = self.mask_of(tg.slice, env)
            if m is not None:
                base = env[tg.value.id]
                rhs = self.ev(s.value, env)
                if not isinstance(rhs, E):
                    raise Undecided("masked store of non-array")
                if base.mask is not None and base.mask != m:
                    raise Undecided("two masks on one array")
                env[tg.value.id] = E(rhs.on, base.off, m, "array")
                return
        raise Undecided(f"assignment target {u(tg)[:60]}")

    def mask_of(self, sl: ast.expr, env: dict):
        if isinstance(sl, ast.Name) and isinstance(env.get(sl.id), E) and env[sl.id].kind == "mask":
            return env[sl.id].on
        return None

    # -- expressions ---------------------------------------------------------------
    def ev(self, e: ast.expr, env: dict):
        if isinstance(e, ast.Constant):
            if isinstance(e.value, (int, float)) and not isinstance(e.value, bool):
                return E.of(sp.nsimplify(e.value, rational=True), "scalar")
            raise Undecided(f"constant {e.value!r}")
        if isinstance(e, ast.Name):
            if e.id in env:
                return env[e.id]
            raise Undecided(f"unknown name {e.id}")
        if isinstance(e, ast.Attribute):
            d = dotted(e)
            if d in ("np.pi", "numpy.pi", "math.pi"):
                return E.of(sp.pi, "scalar")
            base = self.ev(e.value, env) if not (d and d.split(".")[0] in ("np", "sps", "pp")) else None
            if isinstance(base, Ad):
                if e.attr == "val":
                    return base.val
                if e.attr == "jac":
                    return base.jac
            if isinstance(base, (E, Jac)) and e.attr in ("shape", "size", "ndim"):
                return Other("shape")
            raise Undecided(f"attribute {u(e)[:60]}")
        if isinstance(e, ast.UnaryOp) and isinstance(e.op, ast.USub):
            v = self.ev(e.operand, env)
            if isinstance(v, E):
                return v.map(lambda t: -t)
            if isinstance(v, Jac):
                return Jac({}).plus(v, -1)
            if isinstance(v, Ad):
                return self.call_method("__neg__", v, [])
            if isinstance(v, Other):
                return v
            raise Undecided("negation of opaque value")
        if isinstance(e, ast.BinOp):
            return self.binop(e, env)
        if isinstance(e, ast.Compare) and len(e.ops) == 1:
            l, r = self.ev(e.left, env), self.ev(e.comparators[0], env)
            if isinstance(l, E) and isinstance(r, E):
                return E.of(PC(sp.Symbol(type(e.ops[0]).__name__), l.on, r.on), "mask")
            raise Undecided("comparison of non-arrays")
        if isinstance(e, ast.Subscript):
            base = self.ev(e.value, env)
            if isinstance(base, E):
                m = self.mask_of(e.slice, env)
                if m is not None:
                    if base.mask is not None and base.mask != m:
                        raise Undecided("read with a different mask")
                    return E(base.on, base.on, None, "array")
            raise Undecided(f"subscript {u(e)[:60]}")
        if isinstance(e, ast.Call):
            return self.call(e, env)
        raise Undecided(f"expression {type(e).__name__}: {u(e)[:60]}")

    def binop(self, e: ast.BinOp, env: dict):
        l, r = self.ev(e.left, env), self.ev(e.right, env)
        op = type(e.op)
        if isinstance(l, E) and isinstance(r, E):
            f = {ast.Add: lambda p, q: p + q, ast.Sub: lambda p, q: p - q, ast.Mult: lambda p, q: p * q,
                 ast.Div: lambda p, q: sp.Mul(p, sp.Pow(q, -1, evaluate=False), evaluate=False),  # keep written divisions visible
                 ast.Pow: lambda p, q: p ** q}.get(op)
            if f is None:
                raise Undecided(f"operator {op.__name__} on arrays")
            return _bin(f, l, r)
        if isinstance(l, Jac) and isinstance(r, Jac) and op in (ast.Add, ast.Sub):
            return l.plus(r, 1 if op is ast.Add else -1)
        if isinstance(l, Jac) and isinstance(r, E) and r.kind == "scalar" and op in (ast.Mult, ast.Div):
            return l.scaled(r if op is ast.Mult else r.map(lambda t: 1 / t))
        if isinstance(l, E) and l.kind == "scalar" and isinstance(r, Jac) and op is ast.Mult:
            return r.scaled(l)
        if isinstance(l, Other) and l.kind == "sparse" and op is ast.MatMult:
            if isinstance(r, E):
                return r.map(lambda t: MM(M, t))
            if isinstance(r, Jac):
                return Jac({k: v.map(lambda t: MM(M, t)) for k, v in r.co.items()})
        if isinstance(l, Other) and l.kind == "sparse" and op is ast.Mult and isinstance(r, Jac):
            # local sparse matrix times a Jacobian: opaque linear map of the Jacobian
            return Jac({k: v.map(lambda t: MM(M, t)) for k, v in r.co.items()})
        if isinstance(l, Ad):
            name = {ast.Add: "__add__", ast.Sub: "__sub__", ast.Mult: "__mul__", ast.Div: "__truediv__", ast.Pow: "__pow__"}.get(op)
            if name:
                return self.call_method(name, l, [r])
        if isinstance(r, Ad):
            name = {ast.Add: "__radd__", ast.Sub: "__rsub__", ast.Mult: "__rmul__", ast.Div: "__rtruediv__", ast.Pow: "__rpow__",
                    ast.MatMult: "__rmatmul__"}.get(op)
            if name:
                return self.call_method(name, r, [l])
        raise Undecided(f"binary operation {u(e)[:70]}")

    def call(self, e: ast.Call, env: dict):
        f = e.func
        name = call_name(e)
        d = dotted(f)
        # numpy elementwise functions
        if d and d.split(".")[0] in ("np", "numpy") and len(d.split(".")) == 2:
            if name in NP1:
                if len(e.args) != 1:
                    raise ArityError(e, name)
                v = self.ev(e.args[0], env)
                if not isinstance(v, E):
                    raise Undecided(f"np.{name} of non-array")
                return v.map(NP1[name])
            if name == "heaviside":
                if len(e.args) != 2:
                    raise ArityError(e, name)
                v, z = self.ev(e.args[0], env), self.ev(e.args[1], env)
                return _bin(lambda p, q: PC(sp.Symbol("heaviside"), p, q), v, z)
            if name == "isclose":
                v, z = self.ev(e.args[0], env), self.ev(e.args[1], env)
                tol = kwarg(e, "atol")
                t = self.ev(tol, env) if tol is not None else E.of(0, "scalar")
                return E.of(PC(sp.Symbol("isclose"), v.on, z.on, t.on), "mask")
            if name in ("ones_like", "ones"):
                return E.of(1)
            if name in ("zeros_like", "zeros"):
                return E.of(0)
            raise Undecided(f"numpy function np.{name}")
        if d in ("sps.csr_matrix", "sps.csc_matrix", "sps.coo_matrix") and len(e.args) == 1 and "shape" in u(e.args[0]):
            return Jac({})  # structurally zero Jacobian of a given shape
        if d in ("sps.diags",) and len(e.args) == 1:
            v = self.ev(e.args[0], env)
            if isinstance(v, E):
                return DiagOf(v)
        if name == "float" and isinstance(f, ast.Name) and len(e.args) == 1:
            return self.ev(e.args[0], env)
        if name in ("AdArray",) and len(e.args) == 2:
            v, j = self.ev(e.args[0], env), self.ev(e.args[1], env)
            if isinstance(v, E) and isinstance(j, Jac):
                return Ad(v, j)
            raise Undecided(f"AdArray({type(v).__name__}, {type(j).__name__})")
        if isinstance(f, ast.Attribute):
            recv = self.ev(f.value, env)
            if f.attr in ("astype", "copy") and isinstance(recv, (E, Jac)):
                if isinstance(recv, E) and recv.kind == "mask" and f.attr == "astype":
                    return E(recv.on, recv.on, None, "array")
                return recv
            if f.attr == "copy" and isinstance(recv, Ad) and "copy" in self.meths:
                return self.call_method("copy", recv, [])
            if isinstance(recv, Ad) and f.attr == "_diagvec_mul_jac" and len(e.args) == 1:
                fn = self.meths.get("_diagvec_mul_jac")
                if fn is not None and self.depth < 5:
                    return self.call_method("_diagvec_mul_jac", recv, [self.ev(e.args[0], env)])
                v = self.ev(e.args[0], env)
                return recv.jac.scaled(v)
            if isinstance(recv, Ad) and f.attr in self.meths:
                return self.call_method(f.attr, recv, [self.ev(x, env) for x in e.args])
            if isinstance(recv, Other) and recv.kind == "slicer":
                return Other("delegated-to-slicer")
        if isinstance(f, ast.Name) and f.id in self.funcs:
            # call of a function of the same module (e.g. the AdArray arm delegating to the ndarray arm of the same function):
            # interpret the callee with the actual arguments; parameters that are not passed take their DEFAULT value (a
            # constant), not the caller's variable of the same name
            fn = self.funcs[f.id]
            params = [p.arg for p in fn.args.args]
            env2 = dict(zip(params, [self.ev(x, env) for x in e.args]))
            for k in e.keywords:
                if k.arg is None or k.arg not in params:
                    raise Undecided(f"call {u(e)[:70]}: keyword not a parameter")
                env2[k.arg] = self.ev(k.value, env)
            dfl = fn.args.defaults
            for p_, d_ in zip(params[len(params) - len(dfl):], dfl):
                if p_ in env2:
                    continue
                if isinstance(d_, ast.Constant) and isinstance(d_.value, (int, float)) and not isinstance(d_.value, bool):
                    env2[p_] = E.of(sp.Rational(str(d_.value)), "scalar")
                else:
                    raise Undecided(f"call {u(e)[:70]}: default of `{p_}` is not a numeric constant")
            if set(params) - set(env2):
                raise Undecided(f"call {u(e)[:70]}: parameters {sorted(set(params) - set(env2))} not bound")
            return self.run(fn, env2)
        raise Undecided(f"call {u(e)[:70]}")


@dataclass
class DiagOf:
    v: E
    kind: str = "diag"


class ArityError(Exception):
    def __init__(self, call: ast.Call, name: str):
        self.call, self.name = call, name


def _binop_diag(interp_binop):
    def wrapped(self, e, env):
        l, r = None, None
        try:
            l = self.ev(e.left, env)
        except Undecided:
            raise
        r = self.ev(e.right, env)
        if isinstance(l, DiagOf) and isinstance(r, Jac) and isinstance(e.op, (ast.Mult, ast.MatMult)):
            return r.scaled(l.v)  # diags(a) * J : left scaling (rows)
        if isinstance(l, Jac) and isinstance(r, DiagOf):
            raise Undecided("right scaling J * diags(a) (column scaling) is not the chain rule form")
        return interp_binop(self, e, env)
    return wrapped


Interp.binop = _binop_diag(Interp.binop)  # type: ignore[method-assign]


# ------------------------------------------------------------------------------------------
def _zero(e: sp.Expr) -> bool:
    e = sp.simplify(e)
    if e == 0:
        return True
    e2 = sp.simplify(sp.expand_power_base(sp.powsimp(sp.expand(e), force=True), force=True))
    if e2 == 0:
        return True
    # numeric guard against simplify incompleteness: evaluate the *expression* at rational points
    # (opaque applications PC(..)/MM(..) are replaced by fresh symbols first)
    opaque = sorted({t for t in e.atoms(sp.Function) if isinstance(t, (PC, MM))}, key=str)
    if opaque:
        e = e.xreplace({t: sp.Symbol(f"_opaque{i}") for i, t in enumerate(opaque)})
    syms = sorted(e.free_symbols, key=str)
    pts = [sp.Rational(3, 7), sp.Rational(5, 11), sp.Rational(2, 13), sp.Rational(7, 17)]
    vals = []
    for k in range(3):
        sub = {s: pts[(i + k) % 4] + sp.Rational(k, 19) for i, s in enumerate(syms)}
        try:
            v = complex(e.subs(sub).evalf(30))
        except Exception:
            raise Undecided(f"cannot evaluate {e}")
        vals.append(abs(v))
    if all(v < 1e-20 for v in vals):
        return True
    if all(v > 1e-9 for v in vals):
        return False
    raise Undecided(f"sympy inconclusive on {e}")


def _removable_singularity(written: sp.Expr, want: sp.Expr) -> bool:
    """Spot value of the *expression as written* at operand value 0 (other symbols := 2): a written division by
    the operand (e.g. `n * x**n / x` for `n * x**(n-1)`) is algebraically equal but evaluates to NaN at 0 where the
    true derivative is finite."""
    import numpy as _np
    if any(isinstance(t, (PC, MM)) for t in (written.atoms(sp.Function) | want.atoms(sp.Function))):
        return False
    syms = sorted(written.free_symbols | want.free_symbols, key=str)
    vals = [0.0 if str(sy) == "x" else 2.0 for sy in syms]

    def at0(e):
        try:
            f = sp.lambdify(syms, e, "numpy")  # prints the expression as written (no re-simplification)
            with _np.errstate(all="ignore"):
                return complex(f(*vals))
        except ZeroDivisionError:
            return complex("nan")
        except Exception:
            return None
    wv, gv = at0(sp.simplify(want)), at0(written)
    if wv is None or gv is None or not _np.isfinite(wv):
        return False
    return not _np.isfinite(gv)


def _eq(p: sp.Expr, q: sp.Expr) -> bool:
    return _zero(sp.sympify(p) - sp.sympify(q))


OPS = {"add": lambda p, q: p + q, "sub": lambda p, q: p - q, "mul": lambda p, q: p * q,
       "truediv": lambda p, q: p / q, "pow": lambda p, q: p ** q}


def _check_overloads(ctx: Ctx, fwd, cls) -> None:
    meths = methods(cls)
    it = Interp(meths)
    selfv = Ad(E.of(x), Jac({"self": E.of(1)}))
    others = {"scalar": E.of(c, "scalar"), "array": E.of(a, "array"),
              "ad": Ad(E.of(y), Jac({"other": E.of(1)})), "sparse": Other("sparse"), "slicer": Other("slicer")}
    osym = {"scalar": c, "array": a, "ad": y}
    for base, f in OPS.items():
        for refl in (False, True):
            name = f"__{'r' if refl else ''}{base}__"
            fn = meths.get(name)
            if fn is None:
                raise AnchorError(f"AdArray.{name} missing")
            for kind, ov in others.items():
                q = f"AdArray.{name}"
                cons = f"{name}[other:{kind}]"
                try:
                    res = it.call_method(name, selfv, [ov])
                except Raises:
                    if kind in ("scalar", "array", "ad") and not (kind == "ad" and name == "__rmul__"):
                        ctx.check("R3", False, fwd, q, fn, f"arm for {kind} operand raises: supported operand kind rejected", construct=cons)
                    continue
                except ArityError as ex:
                    ctx.check("R2", False, fwd, q, ex.call, f"np.{ex.name} called with wrong number of arguments", construct=cons)
                    continue
                if isinstance(res, Other):
                    continue  # delegated to the slicer (C36)
                if kind in ("sparse", "slicer"):
                    continue
                if not isinstance(res, Ad):
                    raise Undecided(f"{q}[{kind}] returns {type(res).__name__}")
                o = osym[kind]
                want = f(o, x) if refl else f(x, o)
                ok_v = _eq(res.val.on, want)
                ds = res.jac.co.get("self", E.of(0)).on
                do = res.jac.co.get("other", E.of(0)).on
                ok_s = _eq(ds, sp.diff(want, x))
                ok_o = True if kind != "ad" else _eq(do, sp.diff(want, y))
                sing = _removable_singularity(ds, sp.diff(want, x)) or (kind == "ad" and _removable_singularity(do, sp.diff(want, y)))
                facts = {"value": str(sp.simplify(res.val.on)), "coeff_self_jac": str(sp.simplify(ds)),
                         "coeff_other_jac": str(sp.simplify(do)) if kind == "ad" else None,
                         "expected_value": str(want), "expected_d_dself": str(sp.simplify(sp.diff(want, x)))}
                msg = []
                if not ok_v:
                    msg.append(f"value is {facts['value']} but `{'other' if refl else 'self'} {base} {'self' if refl else 'other'}` is {want}")
                if not ok_s:
                    msg.append(f"coefficient of self.jac is {facts['coeff_self_jac']}, derivative is {facts['expected_d_dself']}")
                if not ok_o:
                    msg.append(f"coefficient of other.jac is {facts['coeff_other_jac']}, derivative is {sp.simplify(sp.diff(want, y))}")
                if sing:
                    msg.append("the Jacobian factor as written divides by the operand's value: NaN at value 0 where the derivative is finite "
                               "(removable singularity)")
                ctx.check("R3", ok_v and ok_s and ok_o and not sing, fwd, q, fn, "; ".join(msg) or "dual rule exact", construct=cons, facts=facts)
                ctx.sample({"rule": "R3", "arm": cons, **facts})
    # __neg__
    res = it.call_method("__neg__", selfv, [])
    ok = isinstance(res, Ad) and _eq(res.val.on, -x) and _eq(res.jac.co.get("self", E.of(0)).on, -1)
    ctx.check("R3", ok, fwd, "AdArray.__neg__", meths["__neg__"], "negation must negate value and Jacobian", construct="__neg__")
    # __rmatmul__ sparse arm: same matrix on value and Jacobian
    res = it.call_method("__rmatmul__", selfv, [Other("sparse")])
    ok = isinstance(res, Ad) and res.val.on == MM(M, x) and res.jac.co.get("self", E.of(0)).on == MM(M, 1) and set(res.jac.co) == {"self"}
    ctx.check("R3", ok, fwd, "AdArray.__rmatmul__", meths["__rmatmul__"], "sparse @ AdArray must be (M @ val, M @ jac) with the same M",
              construct="__rmatmul__[other:sparse]", facts={"value": str(getattr(getattr(res, 'val', None), 'on', None))})
    # _diagvec_mul_jac: left scaling
    res = it.call_method("_diagvec_mul_jac", selfv, [E.of(a)])
    ok = isinstance(res, Jac) and set(res.co) == {"self"} and _eq(res.co["self"].on, a)
    ctx.check("R3", ok, fwd, "AdArray._diagvec_mul_jac", meths["_diagvec_mul_jac"], "_diagvec_mul_jac(a) must be diags(a) * self.jac (row scaling)",
              construct="_diagvec_mul_jac")
    # __getitem__: same key on val and jac
    gi = meths.get("__getitem__")
    if gi is None:
        raise AnchorError("AdArray.__getitem__ missing")
    keyname = gi.args.args[1].arg
    subs = [n for n in walk_local(gi) if isinstance(n, ast.Subscript) and u(n.value) in ("self.val", "self.jac")]
    keys = {u(n.value): u(n.slice) for n in subs}
    ok = keys.get("self.val") == keyname and keys.get("self.jac") == keyname
    ctx.check("R3", ok, fwd, "AdArray.__getitem__", gi, "row slicing must apply the same key to val and jac", construct="__getitem__", facts=keys)


EXEMPT_FUNCS = {
    "l2_norm": "vector norm: entries checked structurally by R4 (not a scalar elementwise rule)",
    "maximum": "selection function: lock-step rule R4",
}


def _check_functions(ctx: Ctx, fun, fwdcls) -> None:
    meths = methods(fwdcls)
    funcs = {q: f for q, f in fun.functions() if "." not in q}
    n = 0
    for name, fn in funcs.items():
        if name.startswith("_") or name in EXEMPT_FUNCS:
            continue
        params = [p.arg for p in fn.args.args]
        if not params:
            continue
        var = params[-1] if params[-1] == "var" else ("var" if "var" in params else None)
        if var is None:
            continue
        psyms = {p: E.of(sp.Symbol(p, positive=True), "scalar") for p in params if p != var}
        for p_, dflt in zip(reversed(fn.args.args), reversed(fn.args.defaults)):
            pass
        it = Interp(meths, funcs)
        res = {}
        bad_arity = False
        for kind, v in (("ad", Ad(E.of(xr), Jac({"self": E.of(1)}))), ("array", E.of(xr, "array"))):
            env = dict(psyms)
            env[var] = v
            try:
                res[kind] = it.run(fn, env)
            except ArityError as ex:
                ctx.check("R2", False, fun, name, ex.call, f"np.{ex.name} called with {len(ex.call.args)} argument(s), takes {NP_ARITY[ex.name]}",
                          construct=f"{name}: np.{ex.name} arity")
                bad_arity = True
            except Raises:
                res[kind] = None
        if bad_arity:
            continue
        adr, ndr = res.get("ad"), res.get("array")
        if not isinstance(adr, Ad):
            raise Undecided(f"functions.{name}: AdArray arm does not return an AdArray")
        n += 1
        # R1: derivative
        V, G = adr.val, adr.jac.co.get("self", E.of(0))
        extra = set(adr.jac.co) - {"self"}
        sing_f = _removable_singularity(G.on, sp.diff(V.on, xr))
        ok_on = _eq(sp.diff(V.on, xr), G.on) and not sing_f
        ok_off = _eq(sp.diff(V.off, xr), G.off)
        facts = {"function": name, "val": str(V.on), "jac_factor": str(sp.simplify(G.on)), "d_val": str(sp.simplify(sp.diff(V.on, xr)))}
        if V.mask is not None or G.mask is not None:
            facts.update({"val_off_mask": str(V.off), "jac_factor_off_mask": str(sp.simplify(G.off)), "mask": str(V.mask or G.mask)})
        msg = "Jacobian factor equals d(value)/dx"
        if not ok_on:
            msg = f"Jacobian factor {facts['jac_factor']} is not the derivative {facts['d_val']} of the value {facts['val']}"
        elif not ok_off:
            msg = (f"outside the mask the value is {V.off} (derivative {sp.diff(V.off, xr)}) but the Jacobian factor is "
                   f"{sp.simplify(G.off)}")
        ctx.check("R1", ok_on and ok_off and not extra, fun, name, fn, msg, construct=f"{name}: d(val)/d(var) vs jac", facts=facts)
        ctx.sample({"rule": "R1", **facts})
        # R2: arm agreement
        if isinstance(ndr, E):
            same = _eq(ndr.on, V.on) and _eq(ndr.off, V.off)
            if not same and V.mask is not None and V.on == 1 and V.off == 0:
                same = _eq(ndr.on, V.mask)  # indicator of the mask == mask.astype(float)
            ctx.check("R2", same, fun, name, fn, f"ndarray arm value {ndr.on} differs from AdArray arm value {V.on}",
                      construct=f"{name}: ndarray arm vs AdArray arm", facts={"ndarray": str(ndr.on), "adarray": str(V.on)})
        elif ndr is not None:
            raise Undecided(f"functions.{name}: ndarray arm returns {type(ndr).__name__}")
    if n < 15:
        raise AnchorError(f"only {n} elementwise AD functions interpreted")
    # numpy arity sweep over the whole module (catches arms the interpreter does not enter, e.g. classes)
    for call in [c_ for c_ in ast.walk(fun.tree) if isinstance(c_, ast.Call)]:
        d = dotted(call.func)
        if d and d.startswith("np.") and d[3:] in NP_ARITY and not any(isinstance(a_, ast.Starred) for a_ in call.args):
            npos = len(call.args) + sum(1 for k in call.keywords if k.arg in ("x1", "x2", "x"))
            ctx.check("R2", npos == NP_ARITY[d[3:]], fun, _encl(fun, call), call,
                      f"{d} takes {NP_ARITY[d[3:]]} array argument(s), called with {npos}", construct=f"{_encl(fun, call)}: {u(call)}")


def _encl(mod, node) -> str:
    best = ("<module>", -1)
    for q, n in mod.qualnames().items():
        if getattr(n, "lineno", 0) <= node.lineno <= getattr(n, "end_lineno", 0) and n.lineno > best[1]:
            best = (q, n.lineno)
    return best[0]


def _check_regularized(ctx: Ctx, fun) -> None:
    """RegularizedHeaviside: Jacobian deliberately inexact (exception table); arms must agree on the value."""
    fn = fun.get("RegularizedHeaviside.__call__")
    if fn is None:
        return
    hs = [c_ for c_ in calls_in(fn) if dotted(c_.func) == "np.heaviside"]
    if len(hs) != 2:
        raise Undecided("RegularizedHeaviside.__call__: expected one np.heaviside call per arm")
    seconds = [u(h.args[1]) if len(h.args) > 1 else None for h in hs]
    ctx.check("R2", seconds[0] is not None and seconds[0] == seconds[1], fun, "RegularizedHeaviside.__call__", fn,
              f"the two arms pass different values at zero to np.heaviside: {seconds}", construct="RegularizedHeaviside arms: heaviside(., z)",
              facts={"second_args": seconds})


def _check_maximum(ctx: Ctx, fun) -> None:
    fn = fun.func("maximum")
    q = "maximum"
    p0, p1 = [p.arg for p in fn.args.args][:2]
    # (a) collection loop appends v and j of the same var, iterating [var_0, var_1] in order
    loops = [n for n in walk_local(fn) if isinstance(n, ast.For)]
    ok = False
    for lp in loops:
        if isinstance(lp.iter, (ast.List, ast.Tuple)) and [u(e_) for e_ in lp.iter.elts] == [p0, p1]:
            apps = [c_ for c_ in ast.walk(lp) if isinstance(c_, ast.Call) and call_name(c_) == "append"]
            lists = {u(c_.func.value): u(c_.args[0]) for c_ in apps}  # type: ignore[attr-defined]
            vn = u(lp.target)
            # in the AdArray arm v = var.val, j = var.jac
            asg: dict[str, set] = {}
            for s_ in ast.walk(lp):
                if isinstance(s_, ast.Assign) and len(s_.targets) == 1:
                    asg.setdefault(u(s_.targets[0]), set()).add(u(s_.value))
            vals_l = [k for k, v in lists.items() if f"{vn}.val" in asg.get(v, {v})]
            jacs_l = [k for k, v in lists.items() if f"{vn}.jac" in asg.get(v, {v})]
            ok = len(lists) == 2 and len(vals_l) == 1 and len(jacs_l) == 1 and vals_l != jacs_l
    if not ok:
        # form B: two list comprehensions over (var_0, var_1): vals = [t.val if isinstance(t, AdArray) else t for t in args]
        from ..core.astutil import single_assign_value
        cands = {}
        for st in walk_local(fn):
            if isinstance(st, ast.Assign) and len(st.targets) == 1 and isinstance(st.targets[0], ast.Name) and isinstance(st.value, ast.ListComp) \
                    and len(st.value.generators) == 1:
                gen = st.value.generators[0]
                it = gen.iter
                if isinstance(it, ast.Name):
                    it = single_assign_value(fn, it.id) or it
                if isinstance(it, (ast.List, ast.Tuple)) and [u(e_) for e_ in it.elts] == [p0, p1] and isinstance(gen.target, ast.Name):
                    t = gen.target.id
                    txt = u(st.value.elt)
                    if f"{t}.val" in txt and f"{t}.jac" not in txt:
                        cands["val"] = st.targets[0].id
                    elif f"{t}.jac" in txt and f"{t}.val" not in txt:
                        cands["jac"] = st.targets[0].id
        if set(cands) == {"val", "jac"} and cands["val"] != cands["jac"]:
            vals_l, jacs_l, ok = [cands["val"]], [cands["jac"]], True
    if not ok:
        raise Undecided("maximum: value/Jacobian collection loop not of the recognised form")
    V, J = vals_l[0], jacs_l[0]
    ctx.check("R4", True, fun, q, fn, "values and Jacobians are collected in lock-step from [var_0, var_1]", construct="maximum: collection",
              facts={"vals": V, "jacs": J})
    # (b) index set from comparison vals[1] > vals[0]
    inds_asg = [s for s in walk_local(fn) if isinstance(s, ast.Assign) and any(isinstance(n, ast.Compare) for n in ast.walk(s.value))
                and f"{V}[" in u(s.value)]
    if len(inds_asg) != 1:
        raise Undecided("maximum: index-set assignment not found")
    inds = u(inds_asg[0].targets[0])
    cmp_ = [n for n in ast.walk(inds_asg[0].value) if isinstance(n, ast.Compare)][0]
    l, r, op = u(cmp_.left), u(cmp_.comparators[0]), type(cmp_.ops[0]).__name__
    strict_1_gt_0 = (l, op, r) in ((f"{V}[1]", "Gt", f"{V}[0]"), (f"{V}[0]", "Lt", f"{V}[1]"))
    ctx.check("R4", strict_1_gt_0, fun, q, inds_asg[0], "index set must be where the second argument is strictly larger (ties take the first argument)",
              construct="maximum: index set", facts={"compare": u(cmp_)})
    # (c) value: base copy of vals[0] patched at inds from vals[1]; jac: base copy of jacs[0] patched at inds from jacs[1]
    base_val = [s for s in walk_local(fn) if isinstance(s, ast.Assign) and u(s.value) == f"{V}[0].copy()"]
    base_jac = [s for s in walk_local(fn) if isinstance(s, ast.Assign) and u(s.value) == f"{J}[0].copy()"]
    ok = len(base_val) == 1 and len(base_jac) == 1
    ctx.check("R4", ok, fun, q, fn, "maximum value and Jacobian must both start from the first argument (vals[0], jacs[0])",
              construct="maximum: base operand", facts={"val_base": [u(s) for s in base_val], "jac_base": [u(s) for s in base_jac]})
    if not ok:
        return
    mv, mj = u(base_val[0].targets[0]), u(base_jac[0].targets[0])
    patch_v = [s for s in walk_local(fn) if isinstance(s, ast.Assign) and isinstance(s.targets[0], ast.Subscript) and u(s.targets[0].value) == mv]
    okv = len(patch_v) == 1 and u(patch_v[0].targets[0].slice) == inds and u(patch_v[0].value) == f"{V}[1][{inds}]"
    ctx.check("R4", okv, fun, q, patch_v[0] if patch_v else fn, f"value must be patched at `{inds}` from the second argument at `{inds}`",
              construct="maximum: value patch")
    # jacobian patches: every use of jacs[...] after base must be jacs[1] and be indexed/sliced by inds
    uses = [n for n in walk_local(fn) if isinstance(n, ast.Subscript) and u(n.value) == J and isinstance(n.slice, ast.Constant)]
    idxs = sorted({n.slice.value for n in uses})
    pm_ok = True
    jac_patch_sites = 0
    for s in walk_local(fn):
        if isinstance(s, ast.Assign) and isinstance(s.targets[0], ast.Subscript) and u(s.targets[0].value) == mj:
            jac_patch_sites += 1
            pm_ok &= u(s.targets[0].slice) == inds and u(s.value) == f"{J}[1][{inds}]"
        if isinstance(s, ast.Call) and call_name(s) == "slice_sparse_matrix":
            jac_patch_sites += 1
            pm_ok &= len(s.args) == 2 and u(s.args[0]).startswith(f"{J}[1]") and u(s.args[1]) == inds
        if isinstance(s, ast.Call) and call_name(s) == "merge_matrices":
            jac_patch_sites += 1
            pm_ok &= len(s.args) >= 3 and u(s.args[0]) == mj and u(s.args[2]) == inds
    # every AdArray returned by maximum carries either a zero Jacobian (both arguments constant) or the patched Jacobian
    for r in [r_ for r_ in walk_local(fn) if isinstance(r_, ast.Return) and isinstance(r_.value, ast.Call) and call_name(r_.value) == "AdArray"]:
        if len(r.value.args) != 2:
            raise Undecided("maximum: AdArray return with unexpected arity")
        jv = u(r.value.args[1])
        vv = u(r.value.args[0])
        ok_r = jv == "0" or (jv == mj and vv == mv)
        ctx.check("R4", ok_r, fun, q, r, f"maximum returns AdArray({vv}, {jv}): the Jacobian must be the row-patched one (rows where the second "
                  f"argument wins come from its Jacobian, zero for a constant) paired with the patched value", construct=f"maximum: return AdArray({vv}, {jv})")
    ctx.check("R4", pm_ok and jac_patch_sites >= 3 and idxs == [0, 1], fun, q, fn,
              f"Jacobian rows must be patched at the same index set `{inds}` from the second argument's Jacobian",
              construct="maximum: jacobian patch", facts={"sites": jac_patch_sites})
    _check_maximum_row_format(ctx, fun, fn, q, mj)
    _check_maximum_fresh(ctx, fun, fn, q, mj)


def _check_maximum_fresh(ctx: Ctx, fun, fn, q: str, mj: str) -> None:
    """The Jacobian that is patched IN PLACE (merge_matrices / row assignment) must be a fresh object on every path, never the
    operand's own matrix: `.tocsr()` / `.tocsc()` / `.asformat()` return the SAME object when the format already matches, so
    only an explicit copy (`.copy()`, `copy=True`, a constructor) counts."""
    from ..core.astutil import parent_map
    pm = parent_map(fn)

    def arms(node):
        out, p = [], pm.get(node)
        c = node
        while p is not None and p is not fn:
            if isinstance(p, ast.If):
                out.append((id(p), "body" if any(c is b or c in list(ast.walk(b)) for b in p.body) else "orelse"))
            c, p = p, pm.get(p)
        return set(out)

    def is_copy(v: ast.expr) -> bool:
        if isinstance(v, ast.Call) and isinstance(v.func, ast.Attribute) and v.func.attr == "copy":
            return True
        if isinstance(v, ast.Call) and isinstance(kwarg(v, "copy"), ast.Constant) and kwarg(v, "copy").value is True:
            return True
        if isinstance(v, ast.Call) and (dotted(v.func) or "").split(".")[-1] in ("csr_matrix", "csc_matrix", "csr_array", "csc_array", "deepcopy") \
                and not (isinstance(kwarg(v, "copy"), ast.Constant) and kwarg(v, "copy").value is False):
            return (dotted(v.func) or "").endswith("deepcopy") or (isinstance(kwarg(v, "copy"), ast.Constant) and kwarg(v, "copy").value is True)
        return False

    copies = [s for s in walk_local(fn) if isinstance(s, ast.Assign) and len(s.targets) == 1 and u(s.targets[0]) == mj and is_copy(s.value)]
    sites = [c for c in walk_local(fn) if isinstance(c, ast.Call) and call_name(c) == "merge_matrices" and c.args and u(c.args[0]) == mj]
    sites += [s for s in walk_local(fn) if isinstance(s, ast.Assign) and isinstance(s.targets[0], ast.Subscript) and u(s.targets[0].value) == mj]
    if not sites:
        raise Undecided("maximum: no in-place patch site of the Jacobian found")
    for site in sites:
        sa = arms(site)
        ok = any(cp.lineno < site.lineno and arms(cp) <= sa for cp in copies)
        ctx.check("R4", ok, fun, q, site,
                  f"`{mj}` is patched in place here but is not a fresh copy on this path (conversions such as .tocsr() return the same "
                  f"object when the format already matches): the first argument's own Jacobian is overwritten and every later use of that "
                  f"operand differentiates wrongly", construct="maximum: patched Jacobian is a fresh copy",
                  facts={"copies_at": [c.lineno for c in copies]})


def _check_maximum_row_format(ctx: Ctx, fun, fn, q: str, mj: str) -> None:
    """`inds` index entries of the value vector = ROWS of the Jacobian, so the sparse patch `merge_matrices(jac, lines, inds, fmt)`
    must run in the row-compressed format whatever the format of the incoming Jacobian (AdArray accepts any scipy format;
    initAdArrays itself builds csc blocks): fmt must denote "csr" and the patched matrix must have been converted to csr on
    every path. A format that may be "csc" replaces columns (or makes merge_matrices raise: the lines are sliced as csr)."""
    from ..core.astutil import parent_map
    pm = parent_map(fn)
    merges = [s for s in walk_local(fn) if isinstance(s, ast.Call) and call_name(s) == "merge_matrices"]
    if not merges:
        return  # dense-only implementation: nothing to decide here (the jacobian-patch obligation above covers the sites)
    # conversions of the patched matrix to csr, and whether they are conditional on its format
    conv_uncond, conv_cond = [], []
    for s in walk_local(fn):
        if isinstance(s, ast.Assign) and len(s.targets) == 1 and u(s.targets[0]) == mj and isinstance(s.value, ast.Call) \
                and isinstance(s.value.func, ast.Attribute) and s.value.func.attr in ("tocsr", "asformat") :
            if s.value.func.attr == "asformat" and not (s.value.args and isinstance(s.value.args[0], ast.Constant) and s.value.args[0].value == "csr"):
                continue
            p, cond = pm.get(s), False
            while p is not None and p is not fn:
                if isinstance(p, ast.If) and any(isinstance(n, ast.Constant) and n.value in ("csc", "csr") for n in ast.walk(p.test)):
                    cond = True
                if isinstance(p, ast.If) and "getformat" in u(p.test):
                    cond = True
                p = pm.get(p)
            (conv_cond if cond else conv_uncond).append(s)
    for c in merges:
        fmt = c.args[3] if len(c.args) >= 4 else kwarg(c, "matrix_format")
        if fmt is None:
            raise Undecided("maximum: merge_matrices call without a format argument")
        line = c.lineno
        before_uncond = [s for s in conv_uncond if s.lineno < line]
        before_cond = [s for s in conv_cond if s.lineno < line]
        if isinstance(fmt, ast.Constant):
            if fmt.value == "csr":
                ok = bool(before_uncond)
                if not ok and not before_cond:
                    raise Undecided("maximum: merge in csr format but no recognisable `.tocsr()` conversion of the patched Jacobian")
            elif fmt.value == "csc":
                ok = False
            else:
                raise Undecided(f"maximum: unknown format constant {fmt.value!r}")
        elif u(fmt) == f"{mj}.getformat()" or u(fmt) == f"{mj}.format":
            if before_uncond:
                ok = True
            elif before_cond:
                ok = False  # converted only when not csc (or similar): the format handed on may be "csc"
            else:
                raise Undecided("maximum: format taken from the patched Jacobian, no recognisable conversion")
        else:
            raise Undecided(f"maximum: merge_matrices format argument `{u(fmt)}` not interpretable")
        ctx.check("R4", ok, fun, q, c,
                  f"the Jacobian patch replaces ROWS `{inds_txt(c)}`: merge_matrices must run in csr format on a matrix converted to csr on every "
                  f"path; here the format is `{u(fmt)}` with {len(before_uncond)} unconditional / {len(before_cond)} format-conditional "
                  f"conversion(s): a csc Jacobian (legal AdArray input) gets columns replaced or raises ValueError",
                  construct="maximum: jacobian patch runs in row format")


def inds_txt(c: ast.Call) -> str:
    return u(c.args[2]) if len(c.args) >= 3 else "?"


def _check_l2norm(ctx: Ctx, fun) -> None:
    fn = fun.func("l2_norm")
    q = "l2_norm"
    from ..core.astutil import inline_locals, subst
    rets = [r for r in walk_local(fn) if isinstance(r, ast.Return)]
    # ndarray arm: first return under `not isinstance(var, AdArray)`
    nd = [r for r in rets if r.value is not None and not (isinstance(r.value, ast.Call) and call_name(r.value) in ("AdArray", "abs"))]
    ad_ret = [r for r in rets if isinstance(r.value, ast.Call) and call_name(r.value) == "AdArray"]
    if len(ad_ret) != 1:
        raise Undecided("l2_norm: AdArray return not found")
    val_e, jac_e = ad_ret[0].value.args
    # resolve locals by the nearest preceding assignment (the function is straight-line between the arms)
    asg: dict[str, list] = {}
    for s_ in walk_local(fn):
        if isinstance(s_, ast.Assign) and len(s_.targets) == 1 and isinstance(s_.targets[0], ast.Name):
            asg.setdefault(s_.targets[0].id, []).append(s_)

    def resolve(e_: ast.expr, line: int, depth: int = 0) -> ast.expr:
        mapping = {}
        for nm in names_in(e_):
            prev = [a_ for a_ in asg.get(nm, []) if a_.lineno < line]
            if prev and depth < 6:
                mapping[nm] = resolve(prev[-1].value, prev[-1].lineno, depth + 1)
        return subst(e_, mapping) if mapping else e_

    def last(nm):
        if nm not in asg:
            raise Undecided(f"l2_norm: {nm} unassigned")
        return asg[nm][-1].value

    class _ValToVar(ast.NodeTransformer):
        def visit_Attribute(self, n):
            if u(n) == "var.val":
                return ast.Name(id="var", ctx=ast.Load())
            return self.generic_visit(n)

    import copy as _copy
    v_ad = u(val_e)
    txt_ad = u(_ValToVar().visit(_copy.deepcopy(resolve(val_e, ad_ret[0].lineno))))
    txt_nd = u(resolve(nd[0].value, nd[0].lineno)) if nd else None
    resh_names = [n for n in names_in(last(v_ad) if isinstance(val_e, ast.Name) else val_e) if n in asg]
    ok = txt_nd is not None and txt_ad == txt_nd and "norm" in txt_ad and "reshape" in txt_ad
    ctx.check("R2", ok, fun, q, fn, "l2_norm: ndarray arm and AdArray arm must compute the same norm (same reshape order and axis)",
              construct="l2_norm: arm agreement", facts={"adarray": txt_ad, "ndarray": txt_nd})
    # jacobian = <local sparse matrix> * var.jac
    jv = last(u(jac_e)) if isinstance(jac_e, ast.Name) else jac_e
    ok = isinstance(jv, ast.BinOp) and isinstance(jv.op, (ast.Mult, ast.MatMult)) and u(jv.right) == "var.jac"
    ctx.check("R4", ok, fun, q, fn, "l2_norm Jacobian must be (local matrix) * var.jac (chain rule, left multiplication)",
              construct="l2_norm: jac = N * var.jac", facts={"jac": u(jv)})
    # entries: component / norm on nonzero norms
    ent = [s for s in walk_local(fn) if isinstance(s, ast.Assign) and isinstance(s.targets[0], ast.Subscript)
           and isinstance(s.value, ast.BinOp) and isinstance(s.value.op, ast.Div)]
    ok = False
    if len(ent) == 1:
        num, den = ent[0].value.left, ent[0].value.right
        nb = num.value.id if isinstance(num, ast.Subscript) and isinstance(num.value, ast.Name) else None
        db = den.value.id if isinstance(den, ast.Subscript) and isinstance(den.value, ast.Name) else None
        ok = nb in resh_names and db == v_ad
    ctx.check("R4", ok, fun, q, ent[0] if ent else fn, "l2_norm Jacobian entries must be component / norm (d|u|/du_i = u_i/|u|)",
              construct="l2_norm: entries", facts={"entry": u(ent[0]) if ent else None})
    # dim == 1 delegates to abs
    d1 = [i for i in walk_local(fn) if isinstance(i, ast.If) and u(i.test) in ("dim == 1", "1 == dim")]
    ok = bool(d1) and any(isinstance(r, ast.Return) and isinstance(r.value, ast.Call) and call_name(r.value) == "abs" for r in d1[0].body)
    ctx.check("R4", ok, fun, q, d1[0] if d1 else fn, "l2_norm with dim == 1 must delegate to abs", construct="l2_norm: dim==1")


def _check_ctor(ctx: Ctx, fwd, cls) -> None:
    """R5: AdArray.__init__ must store fresh arrays.  The overloads pass operands' arrays straight through
    (`AdArray(self.val + c, self.jac)`, slicing views), so a constructor that keeps references makes results alias
    their operands; a later in-place row assignment then corrupts the operand."""
    init = methods(cls).get("__init__")
    if init is None:
        raise AnchorError("AdArray.__init__ missing")
    params = [p.arg for p in init.args.args[1:]]
    for attr, par_ in zip(("val", "jac"), params):
        st = [s_ for s_ in walk_local(init) if isinstance(s_, (ast.Assign, ast.AnnAssign)) and u(s_.targets[0] if isinstance(s_, ast.Assign) else s_.target) == f"self.{attr}"]
        if len(st) != 1 or st[0].value is None:
            raise Undecided(f"AdArray.__init__: store of self.{attr} not found")
        v = st[0].value
        fresh = False
        if isinstance(v, ast.Call) and isinstance(v.func, ast.Attribute) and v.func.attr == "astype":
            cp = kwarg(v, "copy")
            fresh = cp is None or (isinstance(cp, ast.Constant) and cp.value is True)
        elif isinstance(v, ast.Call) and ((isinstance(v.func, ast.Attribute) and v.func.attr == "copy") or dotted(v.func) in ("np.array", "copy.copy", "copy.deepcopy")):
            fresh = kwarg(v, "copy") is None or getattr(kwarg(v, "copy"), "value", True) is True
        elif isinstance(v, ast.Name):
            fresh = False
        else:
            raise Undecided(f"AdArray.__init__: cannot classify `{u(v)}` as fresh or aliased")
        ctx.check("R5", fresh, fwd, "AdArray.__init__", st[0], f"self.{attr} keeps a reference to the constructor argument (`{u(v)}`): results of "
                  f"overloads that pass an operand's array through (e.g. u + c shares u.jac) alias their operands", construct=f"AdArray.__init__: self.{attr} = {u(v)}")


def run(ctx: Ctx) -> None:
    fwd = ctx.repo.module(FWD)
    fun = ctx.repo.module(FUN)
    cls = fwd.cls("AdArray")
    _check_overloads(ctx, fwd, cls)
    _check_ctor(ctx, fwd, cls)
    _check_functions(ctx, fun, cls)
    _check_regularized(ctx, fun)
    _check_maximum(ctx, fun)
    _check_l2norm(ctx, fun)
    _check_formats_and_dtypes(ctx, fwd, cls)


def _check_formats_and_dtypes(ctx: Ctx, fwd, cls) -> None:
    """R6 - representation clauses that the value/derivative algebra silently relies on.
    (a) AdArray.__getitem__ row-slices `self.jac`: every Jacobian built by a block constructor (sps.bmat / hstack / vstack /
        block_diag, which return COO by default) must be converted to a compressed format before it is wrapped in an AdArray.
    (b) An overload that negates a raw operand (`-other`) must not do so on an ndarray of unknown dtype: the negation of an
        unsigned integer array wraps around; accepted: the ndarray arm re-binds the operand with a float cast first, or the
        negation is written as a float product / np.negative(..., dtype=float)."""
    meths = methods(cls)
    gi = meths.get("__getitem__")
    slices_jac = gi is not None and any(isinstance(n, ast.Subscript) and u(n.value) == "self.jac" for n in ast.walk(gi))
    n6 = 0
    if slices_jac:
        for q, fn in fwd.functions():
            builds = [st for st in walk_local(fn) if isinstance(st, ast.Assign) and isinstance(st.value, ast.Call)
                      and (dotted(st.value.func) or "") in ("sps.bmat", "sps.hstack", "sps.vstack", "sps.block_diag", "sps.block_array")]
            wraps = [c for c in walk_local(fn) if isinstance(c, ast.Call) and call_name(c) == "AdArray"]
            if not builds or not wraps:
                continue
            for b in builds:
                tgt = u(b.targets[0])
                if not any(tgt in names_in(w) for w in wraps):
                    continue
                n6 += 1
                fmt = kwarg(b.value, "format")
                ok = isinstance(fmt, ast.Constant) and fmt.value in ("csr", "csc")
                if not ok:
                    ok = any(isinstance(st, ast.Assign) and u(st.targets[0]) == tgt and isinstance(st.value, ast.Call)
                             and isinstance(st.value.func, ast.Attribute) and st.value.func.attr in ("tocsr", "tocsc") and st.lineno > b.lineno
                             for st in walk_local(fn))
                    ok = ok or any(isinstance(a, ast.Call) and isinstance(a.func, ast.Attribute) and a.func.attr in ("tocsr", "tocsc") and tgt in names_in(a)
                                   for w in wraps for a in w.args)
                ctx.check("R6", ok, fwd, q, b, f"`{u(b)[:90]}` builds the Jacobian with a block constructor that returns COO by default and wraps it "
                          f"in an AdArray without conversion; AdArray.__getitem__ slices self.jac, which a COO matrix does not support "
                          f"(row slicing of the result raises TypeError)", construct=f"{q}: Jacobian of a new AdArray is in a sliceable format")
    if slices_jac and n6 == 0:
        raise AnchorError("no block-constructed Jacobian wrapped in an AdArray found (initAdArrays expected)")
    for name, fn in meths.items():
        params = [p_.arg for p_ in fn.args.args[1:]]
        for neg in [n for n in walk_local(fn) if isinstance(n, ast.UnaryOp) and isinstance(n.op, ast.USub) and isinstance(n.operand, ast.Name) and n.operand.id in params]:
            par = neg.operand.id
            cast = False
            for iff in [i for i in walk_local(fn) if isinstance(i, ast.If) and i.lineno < neg.lineno]:
                t = iff.test
                if isinstance(t, ast.Call) and call_name(t) == "isinstance" and u(t.args[0]) == par and "ndarray" in u(t.args[1]):
                    for st in iff.body:
                        if isinstance(st, ast.Assign) and u(st.targets[0]) == par and isinstance(st.value, ast.Call) and (
                                (isinstance(st.value.func, ast.Attribute) and st.value.func.attr == "astype" and st.value.args and u(st.value.args[0]) in ("float", "np.float64"))
                                or (dotted(st.value.func) in ("np.asarray", "np.array") and kwarg(st.value, "dtype") is not None and u(kwarg(st.value, "dtype")) in ("float", "np.float64"))):
                            cast = True
            ann = next((a.annotation for a in fn.args.args if a.arg == par), None)
            may_be_array = ann is None or any(k in u(ann) for k in ("AdType", "ndarray", "Any", "Union"))
            if not may_be_array:
                continue
            ctx.check("R6", cast, fwd, f"AdArray.{name}", neg,
                      f"`-{par}` negates the raw operand; for an ndarray of unsigned integer dtype the negation wraps around "
                      f"(AdArray([0,1]) - np.array([1,2], dtype=np.uint8) has values [255, 255]), so the value differs from the numpy evaluation",
                      construct=f"AdArray.{name}: negation of an operand of unknown dtype")


def _m(name, old, new, rule, file=FUN, control=False, count=1, accept_undecided=False):
    return dict(name=name, file=file, old=old, new=new, rule=rule, control=control, count=count, accept_undecided=accept_undecided)


MUTANTS = [
    _m("seed-pow-array-reuses-power-divides-by-val", "new_jac = self._diagvec_mul_jac(other * (self.val ** (other - 1)))", "new_jac = self._diagvec_mul_jac(other * new_val / self.val)", "R3", file=FWD),
    _m("seed-ctor-no-copy", "        self.jac: sps.spmatrix = jac.astype(float)", "        self.jac: sps.spmatrix = jac.astype(float, copy=False)", "R5", file=FWD),
    _m("seed-maximum-scalar-clip-keeps-jac", "        vals[1] = np.ones_like(vals[0]) * vals[1]\n", "        return AdArray(np.maximum(vals[0], vals[1]), jacs[0])\n", "R4"),
    _m("revert-fix-maximum-keeps-csc", "        is_csc = max_jac.getformat() == \"csc\"\n        max_jac = max_jac.tocsr()\n",
       "        is_csc = False\n        if not max_jac.getformat() == \"csc\":\n            max_jac = max_jac.tocsr()\n", "R4"),
    _m("seed-maximum-no-copy-relies-on-tocsr", "    max_jac = jacs[0].copy()\n", "    max_jac = jacs[0]\n", "R4"),
    _m("seed-heaviside-smooth-value-drops-eps", "        val = 0.5 * (1 + 2 * np.pi ** (-1) * np.arctan(var.val * eps ** (-1)))\n",
       "        val = heaviside_smooth(var.val)\n", "R1"),
    _m("revert-fix-initadarrays-coo-jacobian", "        jac = sps.bmat([jac], format=\"csr\")\n", "        jac = sps.bmat([jac])\n", "R6", file=FWD),
    _m("revert-fix-sub-negates-unsigned-array", "        if isinstance(other, np.ndarray):\n            # The negation of an unsigned integer array wraps around.\n            other = other.astype(float)\n",
       "", "R6", file=FWD),
    _m("maximum-merge-in-own-format", "pp.matrix_operations.merge_matrices(max_jac, lines, inds, \"csr\")",
       "pp.matrix_operations.merge_matrices(max_jac, lines, inds, jacs[0].getformat())", "R4", accept_undecided=True),
    _m("maximum-merge-csc-constant", "pp.matrix_operations.merge_matrices(max_jac, lines, inds, \"csr\")",
       "pp.matrix_operations.merge_matrices(max_jac, lines, inds, \"csc\")", "R4"),
    _m("revert-fix-safe-power", "    jac_vals[nonzero_inds] = power * _val[nonzero_inds] ** (power - 1.0)", "    jac_vals[nonzero_inds] = power * vals[nonzero_inds] ** (power - 1.0)", "R1", control=True),
    _m("safe-power-nonzero-derivative-off-mask", "    jac_vals = np.zeros_like(vals)\n", "    jac_vals = np.ones_like(vals)\n", "R1"),
    _m("cos-jac-sign", "jac = var._diagvec_mul_jac(-np.sin(var.val))", "jac = var._diagvec_mul_jac(np.sin(var.val))", "R1", control=True),
    _m("arctan-denominator", "jac = var._diagvec_mul_jac((var.val**2 + 1) ** (-1))", "jac = var._diagvec_mul_jac((var.val**2 - 1) ** (-1))", "R1"),
    _m("tanh-exponent", "np.cosh(var.val) ** (-2)", "np.cosh(var.val) ** (-1)", "R1"),
    _m("log-jac", "der = var._diagvec_mul_jac(1 / var.val)", "der = var._diagvec_mul_jac(var.val)", "R1"),
    _m("arccosh-den", "den2 = (var.val + 1) ** (-0.5)", "den2 = (var.val + 1) ** (-1.5)", "R1"),
    _m("heaviside-smooth-nd-arm", "        return 0.5 * (1 + 2 * np.pi ** (-1) * np.arctan(var * eps ** (-1)))",
       "        return (1 + 2 * np.pi ** (-1) * np.arctan(var * eps ** (-1)))", "R2"),
    _m("exp-nd-arm-other-function", "        return np.exp(var)", "        return np.expm1(var)", "R2", accept_undecided=True),
    _m("revert-fix-heaviside-arity", "            return np.heaviside(var, 0.0)", "            return np.heaviside(var)  # type: ignore", "R2", control=True),
    _m("regularized-arms-disagree", "            return np.heaviside(var, 0.0)", "            return np.heaviside(var, zerovalue)", "R2"),
    _m("mul-ad-arm-same-val", "new_jac = self._diagvec_mul_jac(other.val) + other._diagvec_mul_jac(\n                self.val\n            )",
       "new_jac = self._diagvec_mul_jac(self.val) + other._diagvec_mul_jac(\n                self.val\n            )", "R3", file=FWD, control=True),
    _m("pow-ad-arm-drops-log", "self.val ** other.val.astype(float) * np.log(self.val)", "self.val ** other.val.astype(float)", "R3", file=FWD),
    _m("rsub-drops-negation", "        return -self.__sub__(other)", "        return self.__sub__(other)", "R3", file=FWD),
    _m("truediv-scalar-multiplies-jac", "            new_jac = self.jac / float(other)", "            new_jac = self.jac * float(other)", "R3", file=FWD),
    _m("truediv-array-arm-uses-other", "            new_jac = self._diagvec_mul_jac(other.astype(float) ** (-1.0))", "            new_jac = self._diagvec_mul_jac(other.astype(float))", "R3", file=FWD),
    _m("pow-scalar-exponent", "float(other) * self.val ** float(other - 1)", "float(other) * self.val ** float(other)", "R3", file=FWD),
    _m("rpow-array-log-of-self", "new_jac = self._diagvec_mul_jac((other**self.val) * np.log(other))", "new_jac = self._diagvec_mul_jac((other**self.val) * np.log(self.val))", "R3", file=FWD),
    _m("rmatmul-jac-not-multiplied", "            new_jac = other @ self.jac", "            new_jac = self.jac", "R3", file=FWD),
    _m("diagvec-right-scaling", "        A = sps.diags(a)\n\n        return A * self.jac", "        A = sps.diags(a)\n\n        return self.jac * A", "R3", file=FWD, accept_undecided=True),
    _m("getitem-jac-unsliced", "        return AdArray(val, self.jac[key])", "        return AdArray(val, self.jac[:])", "R3", file=FWD),
    _m("rtruediv-ad-swapped", "            return other.__mul__(self.__pow__(-1.0))", "            return self.__mul__(other.__pow__(-1.0))", "R3", file=FWD),
    _m("maximum-jac-from-first", "lines = pp.matrix_operations.slice_sparse_matrix(jacs[1].tocsr(), inds)", "lines = pp.matrix_operations.slice_sparse_matrix(jacs[0].tocsr(), inds)", "R4"),
    _m("maximum-nonstrict", "inds = (vals[1] > vals[0]).nonzero()[0]", "inds = (vals[1] < vals[0]).nonzero()[0]", "R4"),
    _m("maximum-base-from-second", "    max_jac = jacs[0].copy()", "    max_jac = jacs[1].copy()", "R4"),
    _m("l2norm-order-mismatch", '        resh = np.reshape(var, (dim, -1), order="F")', '        resh = np.reshape(var, (dim, -1), order="C")', "R2"),
    _m("l2norm-entries-inverted", "jac_vals[:, nonzero_inds] = resh[:, nonzero_inds] / vals[nonzero_inds]", "jac_vals[:, nonzero_inds] = vals[nonzero_inds] / resh[:, nonzero_inds]", "R4"),
    _m("charfun-jac-not-zero", "    jac = sps.csr_matrix(var.jac.shape)\n    return AdArray(vals, jac)", "    jac = var.jac\n    return AdArray(vals, jac)", "R1"),
]
