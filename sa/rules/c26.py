"""C26 - mortar projections (MortarGrid side): accessor/field agreement, transposed int<->avg pairs,
update protocol, kind taint, md-grid replacement dispatch, overlap-weight normalisation.

The AD wrappers around these projections (grid_operators.MortarProjections etc.) are C27's rules;
C27 imports the small dataflow helpers defined here.
"""
from __future__ import annotations

import ast
import re
from typing import Optional

from ..core import cfg as cfgmod
from ..core.astutil import (u, walk_local, call_name, kwarg, names_in, stmts_local, assigned_targets,
                            parent_map, enclosing_stmt, methods)
from ..core.loader import AnchorError, Undecided
from ..core.report import Ctx

MG = "src/porepy/grids/mortar_grid.py"
MD = "src/porepy/grids/md_grid.py"
MATCH = "src/porepy/grids/match_grids.py"

FIELD_RE = re.compile(r"^_(primary|secondary|mortar)_to_(primary|secondary|mortar)_(int|avg)$")
KIND_OF_SCALING = {"integrated": "int", "averaged": "avg"}
SWAP = {"int": "avg", "avg": "int"}
SIDES = ("primary", "secondary")

META = {
    "explanation": (
        "Sibling-agreement and dataflow analysis of MortarGrid's eight projection fields. R1: accessor X_to_Y_k(nd) "
        "returns the Kronecker expansion (with nd) of exactly the field _X_to_Y_k. R2: _set_projections derives "
        "_mortar_to_G_int from the transpose of _G_to_mortar_avg and _mortar_to_G_avg from the transpose of "
        "_G_to_mortar_int (odd number of transposes through storage wrappers), each under the flag parameter named G. "
        "R3: in every method that assigns a _G_to_mortar_* field (or calls _init_projections), every normally returning "
        "path afterwards passes a _set_projections call with side G enabled, and the int and avg fields of a side are "
        "assigned on the same paths. R4: reaching-definition taint over the CFG: what flows into _G_to_mortar_K comes only "
        "from that same field and from match_* calls with scaling of kind K (integrated->int, averaged->avg); "
        "_init_projections (matching grids: int==avg) builds each side's pair from one matrix. R5: "
        "MixedDimensionalGrid.replace_subdomains_and_interfaces calls update_primary(new, old) for pair position 0, "
        "update_secondary(new) for position 1 and update_mortar on the old interface, arguments mapped through the "
        "callee signatures. R6: match_1d/match_2d divide the overlap weights by the row grid's volumes for 'averaged' "
        "(row sums one) and by the column grid's volumes for 'integrated' (column sums one); "
        "match_grids_along_1d_mortar forwards its scaling; both grids' point sets reach the overlap routine through the same "
        "frame mapping (equal modulo the grid name). R7: index arrays read off the stored entries of a projection matrix and "
        "used as an entity set are de-duplicated (today violated in match_grids_along_1d_mortar: known finding, a second "
        "update_primary doubles the row sums). Decides these structural clauses; row/column sums, conserved "
        "totals and the geometric overlaps themselves are numerical and not decided."),
    "rule_text": "one obligation per (accessor | derived field | field assignment x protocol clause | tainted assignment | "
                 "update call | scaling arm)",
    "trusted_base": ["python ast", "sa.core (loader, astutil, cfg)",
                     "statement calls to private MortarGrid helpers are inlined into their callers; one-line helpers and helper "
                     "return values are looked through (taint summaries); md-grid methods are read through C24's normaliser",
                     "transparent-operation table (copy/T/tocsc/optimized_compressed_storage/bmat/product keep the kind)"],
    "assumptions": ["R3/R4 are decided for MortarGrid's own methods; writers outside the class (today two functions of "
                    "fracs/wells_3d.py) are enumerated by the thorough-tier sweep and reported as notes, one of them "
                    "(_add_interface) overwrites _primary_to_mortar_int after construction without _set_projections()",
                    "integrated and averaged maps coincide on matching grids, which is why _init_projections may copy one into the other",
                    "sparse_array_to_row_col_data returns (rows, cols, data): only `data` carries weights"],
    "technique": "sibling agreement + reaching-definition taint (kind lattice {int, avg}) on a statement CFG",
}
MIN_INSTANCES = {"R1": 8, "R2": 8, "R3": 16, "R4": 14, "R5": 3, "R6": 7, "R7": 1}


# ---------------------------------------------------------------------------------------
# shared helpers (also imported by c27)
# ---------------------------------------------------------------------------------------

class Fn:
    """A function with parent map, CFG, cached (post)dominators and reaching definitions."""

    def __init__(self, fn: ast.FunctionDef, rel: str, qual: str):
        self.fn, self.rel, self.qual = fn, rel, qual
        self.pm = parent_map(fn)
        self.cfg = cfgmod.build(fn)
        self._nodes: dict[int, int] = {}
        self._dom = None
        self._pdom = None
        self._defs: dict[str, list] = {}

    def node(self, stmt: ast.AST) -> int:
        k = id(stmt)
        if k not in self._nodes:
            try:
                self._nodes[k] = self.cfg.node_for(stmt)
            except KeyError:
                raise Undecided(f"{self.rel}:{self.qual}: statement not in CFG: {u(stmt)[:60]}")
        return self._nodes[k]

    def stmt_of(self, node: ast.AST) -> ast.stmt:
        if node is self.fn:
            return node
        return enclosing_stmt(self.pm, node)

    def dominates(self, a: ast.AST, b: ast.AST) -> bool:
        if self._dom is None:
            self._dom = self.cfg.dominators()
        return self.node(a) in self._dom.get(self.node(b), set())

    def postdominates(self, a: ast.AST, b: ast.AST) -> bool:
        if self._pdom is None:
            self._pdom = self.cfg.postdominators()
        bn = self.node(b)
        if bn not in self._pdom:
            return True
        return self.node(a) in self._pdom[bn]

    def cooccur(self, a: ast.AST, b: ast.AST) -> bool:
        """a and b are executed on exactly the same normally-returning paths."""
        if a is b:
            return True
        return (self.dominates(a, b) and self.postdominates(b, a)) or (self.dominates(b, a) and self.postdominates(a, b))

    def enclosing(self, node: ast.AST, kinds) -> list[tuple[ast.AST, ast.AST]]:
        out, cur = [], node
        while cur in self.pm:
            par = self.pm[cur]
            if isinstance(par, kinds):
                out.append((par, cur))
            cur = par
        return out

    @staticmethod
    def in_body(par: ast.AST, child: ast.AST) -> bool:
        return any(child is s for s in getattr(par, "body", []))

    @staticmethod
    def in_orelse(par: ast.AST, child: ast.AST) -> bool:
        return any(child is s for s in getattr(par, "orelse", []))

    # ---- definitions -------------------------------------------------------------------
    def defs(self, name: str) -> list[tuple[ast.stmt, str, object]]:
        """(statement, kind, payload): kind in assign|tuple|aug|for|other (strong) and weak
        (element/attribute store or .append on the name: does not kill earlier definitions)."""
        if name in self._defs:
            return self._defs[name]
        out = []
        for s in stmts_local(self.fn):
            if isinstance(s, (ast.Assign, ast.AnnAssign)):
                val = s.value
                tgts = s.targets if isinstance(s, ast.Assign) else [s.target]
                for t in tgts:
                    if isinstance(t, ast.Name) and t.id == name and val is not None:
                        out.append((s, "assign", val))
                    elif isinstance(t, (ast.Tuple, ast.List)):
                        for i, el in enumerate(t.elts):
                            if isinstance(el, ast.Name) and el.id == name:
                                out.append((s, "tuple", (val, i, len(t.elts))))
                            elif name in names_in(el):
                                out.append((s, "other", None))
                    elif isinstance(t, (ast.Subscript, ast.Attribute)):
                        base = t
                        while isinstance(base, (ast.Subscript, ast.Attribute)):
                            base = base.value
                        if isinstance(base, ast.Name) and base.id == name and val is not None:
                            out.append((s, "weak", val))
            elif isinstance(s, ast.AugAssign):
                if isinstance(s.target, ast.Name) and s.target.id == name:
                    out.append((s, "aug", s.value))
                else:
                    base = s.target
                    while isinstance(base, (ast.Subscript, ast.Attribute)):
                        base = base.value
                    if isinstance(base, ast.Name) and base.id == name:
                        out.append((s, "weak", s.value))
            elif isinstance(s, (ast.For, ast.AsyncFor)):
                if any(isinstance(t, ast.Name) and t.id == name for t in assigned_targets(s)):
                    out.append((s, "for", s.iter))
            elif isinstance(s, (ast.With, ast.AsyncWith)):
                if any(isinstance(t, ast.Name) and t.id == name for t in assigned_targets(s)):
                    out.append((s, "other", None))
            elif isinstance(s, ast.Expr) and isinstance(s.value, ast.Call):
                c = s.value
                if isinstance(c.func, ast.Attribute) and isinstance(c.func.value, ast.Name) and c.func.value.id == name \
                        and c.func.attr in ("append", "extend", "insert", "update", "setdefault") and c.args:
                    out.append((s, "weak", c.args[-1]))
        self._defs[name] = out
        return out

    def reaching(self, name: str, at: ast.stmt) -> tuple[list[tuple[ast.stmt, str, object]], bool]:
        """Definitions of `name` that may reach the evaluation of statement `at`, and whether the value at
        function entry (parameter / free name) may reach it."""
        ds = self.defs(name)
        strong = frozenset(self.node(s) for s, k, _ in ds if k != "weak")
        atn = self.node(at) if at is not self.fn else None
        out = []
        for s, k, p in ds:
            sn = self.node(s)
            if atn is None:
                continue
            if self.cfg.reachable(sn, atn, strong - {sn}):
                out.append((s, k, p))
        entry = atn is None or self.cfg.reachable(cfgmod.ENTRY, atn, strong)
        return out, entry

    def resolve(self, e: ast.expr, at: ast.stmt, depth: int = 4) -> list[ast.expr]:
        """Expressions a Name may stand for at `at`, following plain assignments along reaching definitions;
        a name with any other kind of definition (parameter, loop target, unpacking) stands for itself."""
        if not isinstance(e, ast.Name) or depth == 0:
            return [e]
        ds, entry = self.reaching(e.id, at)
        ds = [d for d in ds if d[1] != "weak"]
        if entry or not ds or any(k != "assign" for _, k, _ in ds):
            return [e]
        out: list[ast.expr] = []
        for s, k, p in ds:
            out += self.resolve(p, s, depth - 1)
        return out


def inline_statement_calls(meths: dict[str, ast.FunctionDef], want, rel: str, rounds: int = 2
                           ) -> tuple[dict[str, ast.FunctionDef], set[str]]:
    """Deep copies of the methods in which every *statement* call `self.<m>(...)` with want(m) true is replaced by
    m's body (parameters substituted, locals renamed).  Returns (methods, names that were inlined somewhere)."""
    import copy
    out = {n: copy.deepcopy(f) for n, f in meths.items()}
    inlined: set[str] = set()
    counter = [0]

    class Sub(ast.NodeTransformer):
        def __init__(self, mapping, rename):
            self.mapping, self.rename = mapping, rename

        def visit_Name(self, n):
            if n.id in self.rename:
                return ast.copy_location(ast.Name(id=self.rename[n.id], ctx=n.ctx), n)
            if n.id in self.mapping and isinstance(n.ctx, ast.Load):
                return ast.copy_location(copy.deepcopy(self.mapping[n.id]), n)
            return n

    def expand(owner: ast.FunctionDef, block: list[ast.stmt]) -> list[ast.stmt]:
        res: list[ast.stmt] = []
        for s in block:
            if not isinstance(s, (ast.FunctionDef, ast.ClassDef)):
                for fld in ("body", "orelse", "finalbody"):
                    b = getattr(s, fld, None)
                    if isinstance(b, list) and b and isinstance(b[0], ast.stmt):
                        setattr(s, fld, expand(owner, b))
                for h in getattr(s, "handlers", []):
                    h.body = expand(owner, h.body)
            c = s.value if isinstance(s, ast.Expr) else None
            if isinstance(c, ast.Call) and isinstance(c.func, ast.Attribute) and u(c.func.value) == "self" \
                    and c.func.attr in out and c.func.attr != owner.name and want(c.func.attr):
                callee = out[c.func.attr]
                body = [b for b in callee.body if not (isinstance(b, ast.Expr) and isinstance(b.value, ast.Constant))]
                if body and isinstance(body[-1], ast.Return) and body[-1].value is None:
                    body = body[:-1]
                bad = (callee.args.vararg or callee.args.kwarg or any(isinstance(a, ast.Starred) for a in c.args)
                       or any(k.arg is None for k in c.keywords)
                       or any(isinstance(n, ast.Return) for b in body for n in walk_local(b)))
                if bad:
                    res.append(s)
                    continue
                params = [a.arg for a in callee.args.args if a.arg != "self"]
                defaults = callee.args.defaults
                mapping: dict[str, ast.expr] = dict(zip(params[len(params) - len(defaults):], defaults)) if defaults else {}
                mapping.update(dict(zip(params, c.args)))
                mapping.update({k.arg: k.value for k in c.keywords})
                if set(params) - set(mapping):
                    res.append(s)
                    continue
                counter[0] += 1
                assigned = {t.id for b in body for st in [b] + list(stmts_local(b)) for t in assigned_targets(st)
                            if isinstance(t, ast.Name)}
                rename = {n: f"_inl{counter[0]}_{n}" for n in assigned}
                pre = []
                for pn in assigned & set(params):
                    pre.append(ast.Assign(targets=[ast.Name(id=rename[pn], ctx=ast.Store())], value=copy.deepcopy(mapping.pop(pn))))
                new = pre + [Sub(mapping, rename).visit(copy.deepcopy(b)) for b in body]
                for b in new:
                    for n in ast.walk(b):
                        for a in ("lineno", "end_lineno", "col_offset", "end_col_offset"):
                            setattr(n, a, getattr(s, a, 0))
                inlined.add(callee.name)
                res += new
                continue
            res.append(s)
        return res

    for _ in range(rounds):
        for f in out.values():
            f.body = expand(f, f.body)
            ast.fix_missing_locations(f)
    return out, inlined



def call_args(call: ast.Call, fdef: ast.FunctionDef, skip_self: bool = True) -> dict[str, ast.expr]:
    """Map a call's arguments to the callee's parameter names (positional + keyword)."""
    params = [a.arg for a in fdef.args.args]
    if skip_self and params and params[0] in ("self", "cls"):
        params = params[1:]
    out: dict[str, ast.expr] = {}
    for i, a in enumerate(call.args):
        if isinstance(a, ast.Starred):
            raise Undecided(f"starred argument in call {u(call)[:60]}")
        if i < len(params):
            out[params[i]] = a
    for k in call.keywords:
        if k.arg is None:
            raise Undecided(f"**kwargs in call {u(call)[:60]}")
        out[k.arg] = k.value
    return out


def param_default(fdef: ast.FunctionDef, name: str) -> Optional[ast.expr]:
    args = fdef.args.args
    defaults = fdef.args.defaults
    off = len(args) - len(defaults)
    for i, a in enumerate(args):
        if a.arg == name and i >= off:
            return defaults[i - off]
    for a, d in zip(fdef.args.kwonlyargs, fdef.args.kw_defaults):
        if a.arg == name:
            return d
    return None


def guard_polarity(f: Fn, node: ast.AST, flag: str) -> Optional[bool]:
    """True/False if `node` is only reached when the bare name (or self attribute) `flag` is true/false
    according to an enclosing `if flag:` / `if not flag:`; None if no such guard."""
    for par, child in f.enclosing(node, (ast.If, ast.IfExp)):
        t = par.test
        neg = False
        if isinstance(t, ast.UnaryOp) and isinstance(t.op, ast.Not):
            t, neg = t.operand, True
        if u(t) in (flag, f"self.{flag}"):
            if isinstance(par, ast.If):
                inb = f.in_body(par, child)
                ine = f.in_orelse(par, child)
            else:
                inb, ine = child is par.body, child is par.orelse
            if inb:
                return not neg
            if ine:
                return neg
    # an earlier sibling `if flag: ... return/raise/continue` (no else) puts everything after it under `not flag`
    cur = node
    while cur in f.pm:
        par = f.pm[cur]
        if isinstance(cur, ast.stmt):
            for fld in ("body", "orelse", "finalbody"):
                blk = getattr(par, fld, None)
                if isinstance(blk, list) and any(x is cur for x in blk):
                    for prev in blk[:next(i for i, x in enumerate(blk) if x is cur)]:
                        if isinstance(prev, ast.If) and not prev.orelse and prev.body and isinstance(
                                prev.body[-1], (ast.Return, ast.Raise, ast.Continue, ast.Break)):
                            t = prev.test
                            neg = False
                            if isinstance(t, ast.UnaryOp) and isinstance(t.op, ast.Not):
                                t, neg = t.operand, True
                            if u(t) in (flag, f"self.{flag}"):
                                return neg
        if isinstance(par, (ast.FunctionDef, ast.For, ast.While)) and isinstance(cur, ast.stmt):
            if isinstance(par, ast.FunctionDef):
                break
        cur = par
    return None


# ---------------------------------------------------------------------------------------
# kind/side taint
# ---------------------------------------------------------------------------------------

STRUCT_ATTRS = {"shape", "size", "ndim", "dtype", "num_cells", "num_faces", "num_nodes", "dim", "nnz"}
TRANSPARENT_METHODS = {"copy", "transpose", "tocsc", "tocsr", "tocoo", "tolil", "todia", "get", "astype", "multiply",
                       "dot", "values", "items", "ravel"}
TRANSPARENT_FUNCS = {"optimized_compressed_storage", "bmat", "csc_matrix", "csr_matrix", "coo_matrix", "block_diag",
                     "enumerate", "list", "tuple", "hstack", "vstack"}
NEUTRAL_FUNCS = {"identity", "eye", "ones", "zeros", "empty", "arange", "ones_like", "zeros_like", "len", "range",
                 "int", "float", "isin", "argsort", "num_sides"}
MATCH_FUNCS = {"match_1d": 3, "match_2d": 3, "match_grids_along_1d_mortar": 4}   # positional index of `scaling`
OPAQUE = ("opaque",)
# method name -> thunk giving the taint of what the method returns (list of per-position tag sets), or None
CALLEE_SUMMARIES: dict = {}


def _make_summary(fd: ast.FunctionDef, rel: str, qual: str):
    cache: list = []

    def thunk():
        if cache:
            return cache[0]
        cache.append(None)       # recursion guard
        rets = [r for r in stmts_local(fd) if isinstance(r, ast.Return) and r.value is not None]
        if not rets:
            return None
        ff = Fn(fd, rel, qual)
        tf = Taint(ff)
        per: Optional[list] = None
        for r in rets:
            vals = r.value.elts if isinstance(r.value, ast.Tuple) else [r.value]
            tags = [tf.tags(v, r) for v in vals]
            if per is None:
                per = tags
            elif len(per) == len(tags):
                per = [a | b for a, b in zip(per, tags)]
            else:
                per = [set().union(*per, *tags)]
        cache[0] = per
        return per
    return thunk



class Taint:
    def __init__(self, f: Fn):
        self.f = f
        self.memo: dict = {}
        self.busy: set = set()

    def tags(self, e: ast.AST, at: ast.stmt) -> set:
        f = self.f
        if e is None or isinstance(e, ast.Constant):
            return set()
        if isinstance(e, ast.Attribute):
            if u(e.value) == "self" and FIELD_RE.match(e.attr):
                return {("field", e.attr)}
            if e.attr in STRUCT_ATTRS:
                return set()
            return self.tags(e.value, at)
        if isinstance(e, ast.Name):
            return self.name_tags(e.id, at)
        if isinstance(e, ast.Call):
            cn = effective_call_name(f, e, at)
            if cn in MATCH_FUNCS:
                sc = kwarg(e, "scaling")
                if sc is None and len(e.args) > MATCH_FUNCS[cn]:
                    sc = e.args[MATCH_FUNCS[cn]]
                if sc is None:
                    return {("scaling", "none")}
                if isinstance(sc, ast.Constant) and sc.value in KIND_OF_SCALING:
                    return {("scaling", KIND_OF_SCALING[sc.value])}
                if isinstance(sc, ast.Constant) and sc.value is None:
                    return {("scaling", "none")}
                raise Undecided(f"{f.rel}:{f.qual}: non-literal scaling in {u(e)[:70]}")
            sck = kwarg(e, "scaling")
            if sck is not None and cn not in MATCH_FUNCS:
                # an alias of a matching function (f = match_1d; f(..., scaling="averaged"))
                if isinstance(sck, ast.Constant) and sck.value in KIND_OF_SCALING:
                    return {("scaling", KIND_OF_SCALING[sck.value])}
                raise Undecided(f"{f.rel}:{f.qual}: non-literal scaling in {u(e)[:70]}")
            if cn in NEUTRAL_FUNCS:
                return set()
            if isinstance(e.func, ast.Attribute) and u(e.func.value) == "self" and cn in CALLEE_SUMMARIES:
                summ = CALLEE_SUMMARIES[cn]()
                if summ is not None:
                    return set().union(*summ) if summ else set()
            if cn == "sparse_array_to_row_col_data":
                return set().union(*[self.tags(a, at) for a in e.args]) if e.args else set()
            parts = list(e.args) + [k.value for k in e.keywords]
            if isinstance(e.func, ast.Attribute):
                parts.append(e.func.value)
            t = set()
            for p in parts:
                t |= self.tags(p, at)
            if isinstance(e.func, ast.Attribute) and cn in TRANSPARENT_METHODS:
                return t
            if cn in TRANSPARENT_FUNCS:
                return t
            return (t | {OPAQUE}) if t else t
        if isinstance(e, ast.BinOp):
            return self.tags(e.left, at) | self.tags(e.right, at)
        if isinstance(e, ast.UnaryOp):
            return self.tags(e.operand, at)
        if isinstance(e, ast.Subscript):
            return self.tags(e.value, at)
        if isinstance(e, (ast.Tuple, ast.List, ast.Set)):
            t = set()
            for x in e.elts:
                t |= self.tags(x, at)
            return t
        if isinstance(e, ast.Dict):
            t = set()
            for x in e.values:
                t |= self.tags(x, at)
            return t
        if isinstance(e, ast.IfExp):
            return self.tags(e.body, at) | self.tags(e.orelse, at)
        if isinstance(e, ast.Starred):
            return self.tags(e.value, at)
        if isinstance(e, (ast.ListComp, ast.GeneratorExp, ast.SetComp)):
            t = self.tags(e.elt, at)
            for g in e.generators:
                t |= self.tags(g.iter, at)
            return t
        if isinstance(e, (ast.Compare, ast.BoolOp, ast.JoinedStr, ast.Lambda)):
            return set()
        raise Undecided(f"{self.f.rel}:{self.f.qual}: taint of {type(e).__name__} `{u(e)[:60]}` not modelled")

    def name_tags(self, name: str, at: ast.stmt) -> set:
        key = (name, id(at))
        if key in self.memo:
            return self.memo[key]
        if key in self.busy:
            return set()
        self.busy.add(key)
        t: set = set()
        ds, _entry = self.f.reaching(name, at)
        for s, k, p in ds:
            if k in ("assign", "weak", "for"):
                t |= self.tags(p, s)
            elif k == "aug":
                t |= self.tags(p, s) | self.name_tags(name, s)
            elif k == "tuple":
                val, i, n = p
                if isinstance(val, (ast.Tuple, ast.List)) and len(val.elts) == n:
                    t |= self.tags(val.elts[i], s)
                elif isinstance(val, ast.Call) and call_name(val) == "sparse_array_to_row_col_data":
                    if i == 2:
                        t |= self.tags(val, s)
                elif isinstance(val, ast.Call) and isinstance(val.func, ast.Attribute) and u(val.func.value) == "self" \
                        and call_name(val) in CALLEE_SUMMARIES and CALLEE_SUMMARIES[call_name(val)]() is not None \
                        and len(CALLEE_SUMMARIES[call_name(val)]()) == n:
                    t |= CALLEE_SUMMARIES[call_name(val)]()[i]
                else:
                    t |= self.tags(val, s)
        self.busy.discard(key)
        self.memo[key] = t
        return t


# ---------------------------------------------------------------------------------------
# rules
# ---------------------------------------------------------------------------------------

def _field_assigns(fn: ast.FunctionDef) -> list[tuple[ast.stmt, str, ast.expr]]:
    out = []
    for s in stmts_local(fn):
        if isinstance(s, (ast.Assign, ast.AnnAssign)) and s.value is not None:
            tg = s.targets if isinstance(s, ast.Assign) else [s.target]
            for t in tg:
                for tt in (t.elts if isinstance(t, (ast.Tuple, ast.List)) else [t]):
                    if isinstance(tt, ast.Attribute) and u(tt.value) == "self" and FIELD_RE.match(tt.attr):
                        if isinstance(t, (ast.Tuple, ast.List)):
                            raise Undecided(f"{MG}:{fn.name}: tuple assignment to projection fields")
                        out.append((s, tt.attr, s.value))
        elif isinstance(s, ast.AugAssign) and isinstance(s.target, ast.Attribute) and u(s.target.value) == "self" \
                and FIELD_RE.match(s.target.attr):
            raise Undecided(f"{MG}:{fn.name}: augmented assignment to projection field {s.target.attr}")
    return out


def _r1(ctx: Ctx, mod, meths: dict) -> None:
    for a in ("primary", "secondary"):
        for (x, y) in ((a, "mortar"), ("mortar", a)):
            for k in ("int", "avg"):
                name = f"{x}_to_{y}_{k}"
                fn = meths.get(name)
                if fn is None:
                    raise AnchorError(f"{MG}:MortarGrid.{name} missing")
                q = f"MortarGrid.{name}"
                rets = [s for s in stmts_local(fn) if isinstance(s, ast.Return) and s.value is not None]
                if not rets:
                    raise AnchorError(f"{MG}:{q}: no return")
                nd = [p.arg for p in fn.args.args if p.arg != "self"]
                reads = sorted({n.attr for r in rets for n in ast.walk(r.value)
                                if isinstance(n, ast.Attribute) and u(n.value) == "self" and FIELD_RE.match(n.attr)})
                if not reads:
                    raise Undecided(f"{MG}:{q}: returns no projection field directly")
                uses_nd = bool(nd) and all(nd[0] in names_in(r.value) for r in rets)
                ok = reads == [f"_{name}"] and uses_nd
                ctx.check("R1", ok, mod, q, rets[0],
                          f"{name}(nd) must return the nd-expansion of self._{name}; it reads {reads}"
                          + ("" if uses_nd else " and ignores nd"),
                          construct=f"{name} -> {', '.join(reads)}", facts={"fields": reads, "uses_nd": uses_nd})
                ctx.sample({"rule": "R1", "accessor": name, "field": reads})


TRANSPARENT_WRAP = {"optimized_compressed_storage", "csc_matrix", "csr_matrix"}
TRANSPARENT_CONV = {"copy", "tocsc", "tocsr", "tocoo"}


_SIMPLE_FUNCS: dict[str, ast.FunctionDef] = {}


def effective_call_name(f: Fn, call: ast.Call, at: ast.stmt) -> Optional[str]:
    """call_name, looking through a local alias of a function (compress = pp.matrix_operations.optimized_...)."""
    if isinstance(call.func, ast.Name):
        r = f.resolve(call.func, at)
        if len(r) == 1 and isinstance(r[0], (ast.Attribute, ast.Name)) and r[0] is not call.func:
            return r[0].attr if isinstance(r[0], ast.Attribute) else r[0].id
    return call_name(call)


def _simple_return(fd: ast.FunctionDef) -> Optional[tuple[list[str], ast.expr]]:
    body = [b for b in fd.body if not (isinstance(b, ast.Expr) and isinstance(b.value, ast.Constant))]
    if len(body) == 1 and isinstance(body[0], ast.Return) and body[0].value is not None:
        return [a.arg for a in fd.args.args if a.arg != "self"], body[0].value
    return None


def _single_source(f: Fn, e: ast.expr, at: ast.stmt, n: int = 0, depth: int = 6):
    """(field, number of transposes) if e is one projection field passed through storage wrappers /
    conversions / transposes only; None otherwise."""
    if depth == 0:
        return None
    if isinstance(e, ast.Attribute):
        if u(e.value) == "self" and FIELD_RE.match(e.attr):
            return e.attr, n
        if e.attr == "T":
            return _single_source(f, e.value, at, n + 1, depth - 1)
        return None
    if isinstance(e, ast.Call):
        cn = effective_call_name(f, e, at)
        if isinstance(e.func, ast.Attribute) and cn == "transpose" and not e.args:
            return _single_source(f, e.func.value, at, n + 1, depth - 1)
        if isinstance(e.func, ast.Attribute) and cn in TRANSPARENT_CONV:
            return _single_source(f, e.func.value, at, n, depth - 1)
        if cn in TRANSPARENT_WRAP and e.args:
            return _single_source(f, e.args[0], at, n, depth - 1)
        # a one-line helper (method of the class or nested def): look through it
        fd = None
        if isinstance(e.func, ast.Attribute) and u(e.func.value) == "self":
            fd = _SIMPLE_FUNCS.get(e.func.attr)
        elif isinstance(e.func, ast.Name):
            fd = next((x for x in ast.walk(f.fn) if isinstance(x, ast.FunctionDef) and x is not f.fn and x.name == e.func.id), None)
        sr = _simple_return(fd) if fd is not None else None
        if sr is not None and not e.keywords and len(e.args) == len(sr[0]):
            from ..core.astutil import subst
            return _single_source(f, subst(sr[1], dict(zip(sr[0], e.args))), at, n, depth - 1)
        return None
    if isinstance(e, ast.Name):
        r = f.resolve(e, at)
        if r and len(r) == 1 and not isinstance(r[0], ast.Name):
            ds, _ = f.reaching(e.id, at)
            return _single_source(f, r[0], ds[0][0], n, depth - 1)
    return None


def _r2(ctx: Ctx, mod, meths: dict) -> None:
    fn = meths.get("_set_projections")
    if fn is None:
        raise AnchorError(f"{MG}:MortarGrid._set_projections missing")
    f = Fn(fn, MG, "MortarGrid._set_projections")
    q = f.qual
    params = [a.arg for a in fn.args.args if a.arg != "self"]
    for s in SIDES:
        if s not in params:
            raise AnchorError(f"{MG}:{q}: flag parameter `{s}` missing")
    seen = set()
    for st, field, val in _field_assigns(fn):
        m = FIELD_RE.match(field)
        x, y, k = m.groups()
        if x != "mortar":
            raise Undecided(f"{MG}:{q}: assigns the primitive field {field}")
        seen.add(field)
        src = _single_source(f, val, st)
        if src is None:
            raise Undecided(f"{MG}:{q}: right-hand side of {field} is not a wrapped/transposed single field: {u(val)[:80]}")
        sfield, nT = src
        want = f"_{y}_to_mortar_{SWAP[k]}"
        ok = sfield == want and nT % 2 == 1
        ctx.check("R2", ok, mod, q, st,
                  f"self.{field} must be the transpose of self.{want} (integrated mortar->grid maps are the transposes of the "
                  f"averaged grid->mortar maps and vice versa); found self.{sfield} with {nT} transpose(s)",
                  construct=f"{field} := {sfield}{'.T' * nT}", facts={"source": sfield, "transposes": nT, "expected": want})
        ctx.sample({"rule": "R2", "field": field, "source": sfield, "transposes": nT})
        pol = {p: guard_polarity(f, st, p) for p in params}
        others = [p for p in params if p != y and pol[p] is not None]
        ok = pol.get(y) is True and not others
        if pol.get(y) is None and not others:
            # unguarded: always recomputed - harmless (costs time only)
            ok = True
        ctx.check("R2", ok, mod, q, st,
                  f"self.{field} must be recomputed exactly when the flag `{y}` is set; guards found: "
                  f"{ {p: v for p, v in pol.items() if v is not None} }",
                  construct=f"{field} gated by {[p for p, v in pol.items() if v is not None]}", facts={"guards": pol})
    for s in SIDES:
        for k in ("int", "avg"):
            if f"_mortar_to_{s}_{k}" not in seen:
                ctx.check("R2", False, mod, q, fn, f"_set_projections never derives self._mortar_to_{s}_{k}",
                          construct=f"missing _mortar_to_{s}_{k}")


def _set_proj_enabled(call: ast.Call, setp: ast.FunctionDef, side: str) -> Optional[bool]:
    a = call_args(call, setp)
    v = a.get(side, param_default(setp, side))
    if isinstance(v, ast.Constant) and isinstance(v.value, bool):
        return v.value
    return None


def _r3(ctx: Ctx, mod, meths: dict) -> dict:
    setp = meths["_set_projections"]
    direct: dict[str, list] = {}
    for name, fn in meths.items():
        fa = [(s, fld, v) for s, fld, v in _field_assigns(fn) if FIELD_RE.match(fld).group(2) == "mortar"]
        if fa:
            direct[name] = fa
    # public methods (and __init__) must restore the derived maps themselves; a private helper that assigns fields
    # without calling _set_projections hands that duty to each of its callers
    self_contained = set()
    for name in direct:
        public = not name.startswith("_") or name == "__init__"
        if public or any(isinstance(c, ast.Call) and u(c.func) == "self._set_projections" for c in walk_local(meths[name])):
            self_contained.add(name)
    n_sites = 0
    for name, fn in meths.items():
        if name == "_set_projections":
            continue
        f = Fn(fn, MG, f"MortarGrid.{name}")
        sites: list[tuple[ast.stmt, set, str]] = []
        for s, fld, _ in (direct.get(name, []) if name in self_contained else []):
            sites.append((s, {FIELD_RE.match(fld).group(1)}, f"self.{fld} = ..."))
        # calls to helper methods that assign fields but leave the derived maps to the caller
        for c in [n for n in walk_local(fn) if isinstance(n, ast.Call)]:
            if isinstance(c.func, ast.Attribute) and u(c.func.value) == "self" and c.func.attr in direct \
                    and c.func.attr not in self_contained and c.func.attr != name:
                sides = {FIELD_RE.match(fld).group(1) for _, fld, _ in direct[c.func.attr]}
                sites.append((f.stmt_of(c), sides, f"self.{c.func.attr}(...)"))
        if not sites:
            continue
        calls = [c for c in walk_local(fn) if isinstance(c, ast.Call) and u(c.func) == "self._set_projections"]
        for st, sides, what in sites:
            for side in sorted(sides):
                good = set()
                for c in calls:
                    en = _set_proj_enabled(c, setp, side)
                    if en is None:
                        raise Undecided(f"{MG}:{f.qual}: cannot decide whether `{u(c)}` enables side {side}")
                    if en:
                        good.add(f.node(f.stmt_of(c)))
                sn = f.node(st)
                ok = bool(good) and f.cfg.every_path_passes(sn, cfgmod.EXIT, good)
                n_sites += 1
                ctx.check("R3", ok, mod, f.qual, st,
                          f"after `{what}` every returning path must call self._set_projections with side `{side}` enabled, "
                          f"else _mortar_to_{side}_int/_avg keep the transposes of the old maps",
                          construct=f"{what} then _set_projections({side})",
                          facts={"set_projections_calls": [u(c) for c in calls]})
        # lock-step of the two kinds of a side
        for s, fld, _ in direct.get(name, []):
            x, y, k = FIELD_RE.match(fld).groups()
            twin = f"_{x}_to_{y}_{SWAP[k]}"
            tw = [s2 for s2, f2, _ in direct[name] if f2 == twin]
            ok = any(f.cooccur(s, s2) for s2 in tw)
            ctx.check("R3", ok, mod, f.qual, s,
                      f"self.{fld} is updated but self.{twin} is not updated on the same paths (the integrated and the "
                      f"averaged map of a side must describe the same pair of grids)",
                      construct=f"{fld} with {twin}", facts={"twin_assignments": len(tw)})
    if n_sites == 0:
        raise AnchorError(f"{MG}: no method assigns a grid-to-mortar field")
    helpers = sorted(set(direct) - self_contained)
    ctx.sample({"rule": "R3", "self_contained_updaters": sorted(self_contained), "helpers_leaving_derivation_to_caller": helpers})
    return direct


def _r4(ctx: Ctx, mod, meths: dict, direct: dict) -> None:
    for name, fa in direct.items():
        fn = meths[name]
        f = Fn(fn, MG, f"MortarGrid.{name}")
        tf = Taint(f)
        calls_set = any(isinstance(c, ast.Call) and u(c.func) == "self._set_projections" for c in walk_local(fn))
        for st, fld, val in fa:
            x, y, k = FIELD_RE.match(fld).groups()
            t = tf.tags(val, st)
            opaque = OPAQUE in t
            fields = sorted(v for tag, v in (z for z in t if z != OPAQUE) if tag == "field")
            scal = sorted(v for tag, v in (z for z in t if z != OPAQUE) if tag == "scaling")
            if name == "_init_projections":
                # initialisation on matching grids: int and avg coincide; each side's pair must stem from one matrix
                twin = f"_{x}_to_{y}_{SWAP[k]}"
                ok = set(fields) <= {twin} and not scal
                ctx.check("R4", ok, mod, f.qual, st,
                          f"on initialisation (matching grids) self.{fld} may only be built from the index data or copied from its "
                          f"own twin self.{twin}; it draws on {fields or scal}",
                          construct=f"init {fld} <- {fields}", facts={"fields": fields, "scalings": scal})
                continue
            bad_f = [v for v in fields if v != fld]
            bad_s = [v for v in scal if v != k]
            if (bad_f or bad_s) and opaque:
                raise Undecided(f"{MG}:{f.qual}: {fld} receives {bad_f + bad_s} through an unmodelled call")
            if not fields and not scal:
                raise Undecided(f"{MG}:{f.qual}: no kind information reaches {fld}")
            ctx.check("R4", not bad_f and not bad_s, mod, f.qual, st,
                      f"self.{fld} must be built only from itself and from `{k}`-scaled overlap matrices "
                      f"(scaling='{'integrated' if k == 'int' else 'averaged'}'); it also receives "
                      f"{['self.' + v for v in bad_f] + ['scaling kind ' + v for v in bad_s]} - the two kinds coincide on matching "
                      f"grids only",
                      construct=f"{fld} <- fields {fields} scalings {scal}",
                      facts={"fields": fields, "scalings": scal, "opaque": opaque})
            ctx.sample({"rule": "R4", "method": name, "field": fld, "from_fields": fields, "from_scalings": scal})
        # twin agreement of the match_* calls of one arm: same callee and positional arguments
        by_block: dict[int, list[ast.Call]] = {}
        for c in [n for n in walk_local(fn) if isinstance(n, ast.Call) and call_name(n) in MATCH_FUNCS]:
            by_block.setdefault(id(f.pm[f.stmt_of(c)]), []).append(c)
        for cs in by_block.values():
            if len(cs) != 2:
                continue
            a, b = cs
            pa = [u(x) for x in a.args[:MATCH_FUNCS[call_name(a)]]]
            pb = [u(x) for x in b.args[:MATCH_FUNCS[call_name(b)]]]
            ka = tf.tags(a, f.stmt_of(a))
            kb = tf.tags(b, f.stmt_of(b))
            ok = call_name(a) == call_name(b) and pa == pb and ka != kb
            ctx.check("R4", ok, mod, f.qual, a,
                      "the integrated and the averaged overlap matrix of one arm must come from the same matching function "
                      "with the same grids/tolerance and differ in scaling only",
                      construct=f"twin {call_name(a)}({', '.join(pa)}) / {call_name(b)}({', '.join(pb)})",
                      facts={"kinds": [sorted(map(str, ka)), sorted(map(str, kb))]})


def _r5(ctx: Ctx, meths: dict) -> None:
    md = ctx.repo.module(MD)
    q = "MixedDimensionalGrid.replace_subdomains_and_interfaces"
    md.func(q)  # anchor
    # helpers of the md-grid are inlined (C24's normaliser), so an extracted `_rekey_interfaces(...)` is seen in place
    from .c24 import _normalise_methods
    norm, _ = _normalise_methods(methods(md.cls("MixedDimensionalGrid")))
    upd = ("update_primary", "update_secondary", "update_mortar")
    callers = [n for n, f_ in norm.items() if any(isinstance(c, ast.Call) and isinstance(c.func, ast.Attribute)
                                                   and c.func.attr in upd for c in walk_local(f_))]
    if "replace_subdomains_and_interfaces" not in callers:
        raise AnchorError(f"{MD}:{q}: no mortar update is dispatched from here")
    fn = norm["replace_subdomains_and_interfaces"]
    f = Fn(fn, MD, q)
    params = [a.arg for a in fn.args.args if a.arg != "self"]
    found = set()
    for c in [n for n in walk_local(fn) if isinstance(n, ast.Call) and isinstance(n.func, ast.Attribute)
              and n.func.attr in ("update_primary", "update_secondary", "update_mortar")]:
        callee = meths.get(c.func.attr)
        if callee is None:
            raise AnchorError(f"{MG}:MortarGrid.{c.func.attr} missing")
        args = call_args(c, callee)
        recv = u(c.func.value)
        # the loop over <map>.items() binding (old, new)
        loop = None
        for par, child in f.enclosing(c, (ast.For,)):
            if isinstance(par.iter, ast.Call) and isinstance(par.iter.func, ast.Attribute) and par.iter.func.attr == "items" \
                    and isinstance(par.iter.func.value, ast.Name) and par.iter.func.value.id in params \
                    and isinstance(par.target, ast.Tuple) and len(par.target.elts) == 2:
                loop = par
                break
        if loop is None:
            raise Undecided(f"{MD}:{q}: `{u(c)[:60]}` is not inside a loop over a replacement map's items()")
        old, new = u(loop.target.elts[0]), u(loop.target.elts[1])
        found.add(c.func.attr)
        if c.func.attr == "update_mortar":
            v = args.get("new_side_grids")
            if v is None:
                raise Undecided(f"{MD}:{q}: update_mortar called without new_side_grids")
            vals = f.resolve(v, f.stmt_of(c))
            ok = recv == old and all(new in names_in(x) and old not in names_in(x) for x in vals)
            ctx.check("R5", ok, md, q, c,
                      f"the mortar grid stored in the md-grid (`{old}`, the map's key) must be updated in place with the side grids "
                      f"of the replacement (`{new}`)", construct=f"{recv}.update_mortar(<{', '.join(u(x) for x in vals)}>)",
                      facts={"receiver": recv, "side_grids": [u(x) for x in vals]})
            continue
        # position of the replaced subdomain in the interface's pair
        pos = pair = None
        for par, child in f.enclosing(c, (ast.If,)):
            t = par.test
            if f.in_body(par, child) and isinstance(t, ast.Compare) and len(t.ops) == 1 and isinstance(t.ops[0], (ast.Eq, ast.Is)):
                for a, b in ((t.left, t.comparators[0]), (t.comparators[0], t.left)):
                    if isinstance(a, ast.Subscript) and isinstance(a.slice, ast.Constant) and a.slice.value in (0, 1) \
                            and isinstance(a.value, ast.Name) and u(b) == old:
                        pos, pair = a.slice.value, a.value.id
            if pos is not None:
                break
        if pos is None:
            raise Undecided(f"{MD}:{q}: `{u(c)[:60]}` not guarded by `pair[i] == {old}`")
        pv = f.resolve(ast.Name(id=pair, ctx=ast.Load()), f.stmt_of(c))
        if not pv or not all(isinstance(x, ast.Call) and call_name(x) == "interface_to_subdomain_pair"
                             and [u(a) for a in x.args] == [recv] or
                             (isinstance(x, ast.Subscript) and u(x.slice) == recv) for x in pv):
            raise Undecided(f"{MD}:{q}: `{pair}` is not the subdomain pair of `{recv}`")
        want = "update_primary" if pos == 0 else "update_secondary"
        if c.func.attr == "update_primary":
            ok_args = u(args.get("g_new", ast.Constant(None))) == new and u(args.get("g_old", ast.Constant(None))) == old
        else:
            ok_args = u(args.get("new_g", ast.Constant(None))) == new
        ctx.check("R5", c.func.attr == want and ok_args, md, q, c,
                  f"the subdomain at pair position {pos} is the {'primary' if pos == 0 else 'secondary'} grid: the interface must "
                  f"get {want}({'g_new=' + new + ', g_old=' + old if pos == 0 else 'new_g=' + new}); found "
                  f"{c.func.attr}({', '.join(k + '=' + u(v) for k, v in args.items())})",
                  construct=f"position {pos}: {u(c)}", facts={"position": pos, "args": {k: u(v) for k, v in args.items()}})
    missing = {"update_primary", "update_secondary", "update_mortar"} - found
    if missing and not any(fd.rule == "R5" for fd in ctx.findings):
        raise AnchorError(f"{MD}:{q}: no call to {sorted(missing)}")


def _r6(ctx: Ctx) -> None:
    mm = ctx.repo.module(MATCH)
    for name in ("match_1d", "match_2d"):
        fn = mm.func(name)
        f = Fn(fn, MATCH, name)
        # returned matrix
        rets = [s for s in stmts_local(fn) if isinstance(s, ast.Return) and s.value is not None]
        if len(rets) != 1:
            raise Undecided(f"{MATCH}:{name}: expected one return")
        def one(e, at):
            r = f.resolve(e, at) if isinstance(e, ast.Name) else [e]
            return r[0] if len(r) == 1 else e

        v = rets[0].value
        for _ in range(4):
            if isinstance(v, ast.Call) and isinstance(v.func, ast.Attribute) and v.func.attr in TRANSPARENT_CONV:
                v = v.func.value
            elif isinstance(v, ast.Name):
                nv = one(v, rets[0])
                if nv is v:
                    break
                v = nv
            else:
                break
        if isinstance(v, ast.Call) and v.args and isinstance(v.args[0], ast.Name):
            v.args[0] = one(v.args[0], rets[0])
        if not (isinstance(v, ast.Call) and call_name(v) in ("coo_matrix", "csr_matrix", "csc_matrix") and v.args
                and isinstance(v.args[0], ast.Tuple) and len(v.args[0].elts) == 2 and isinstance(v.args[0].elts[1], ast.Tuple)
                and len(v.args[0].elts[1].elts) == 2):
            raise Undecided(f"{MATCH}:{name}: returned matrix is not sparse((w, (rows, cols)), shape=...)")
        w, (row, col) = u(v.args[0].elts[0]), [u(x) for x in v.args[0].elts[1].elts]
        shp = kwarg(v, "shape")
        if isinstance(shp, ast.Name):
            shp = one(shp, rets[0])
        if not (isinstance(shp, ast.Tuple) and len(shp.elts) == 2 and all(
                isinstance(x, ast.Attribute) and x.attr == "num_cells" for x in shp.elts)):
            raise Undecided(f"{MATCH}:{name}: shape is not (<grid>.num_cells, <grid>.num_cells)")
        rowg, colg = u(shp.elts[0].value), u(shp.elts[1].value)
        arms = {}
        for iff in [n for n in walk_local(fn) if isinstance(n, ast.If)]:
            t = iff.test
            if isinstance(t, ast.Compare) and len(t.ops) == 1 and isinstance(t.ops[0], ast.Eq) and u(t.left) == "scaling" \
                    and isinstance(t.comparators[0], ast.Constant) and t.comparators[0].value in KIND_OF_SCALING:
                arms[t.comparators[0].value] = iff
        if set(arms) != set(KIND_OF_SCALING):
            raise AnchorError(f"{MATCH}:{name}: scaling arms not found ({sorted(arms)})")
        for sc, iff in arms.items():
            norm = None
            for s in iff.body:
                tgt = val = None
                if isinstance(s, ast.AugAssign) and isinstance(s.op, ast.Div):
                    tgt, val = u(s.target), s.value
                elif isinstance(s, ast.Assign) and isinstance(s.value, ast.BinOp) and isinstance(s.value.op, ast.Div) \
                        and u(s.targets[0]) == u(s.value.left):
                    tgt, val = u(s.targets[0]), s.value.right
                if tgt == w and isinstance(val, ast.Name):
                    val = one(val, s)
                if tgt == w and isinstance(val, ast.Subscript) and isinstance(val.value, ast.Attribute) \
                        and val.value.attr == "cell_volumes":
                    norm = (s, u(val.value.value), u(val.slice))
            if norm is None:
                raise Undecided(f"{MATCH}:{name}: arm '{sc}' has no `{w} /= <grid>.cell_volumes[<ind>]`")
            s, g, idx = norm
            want = (rowg, row) if sc == "averaged" else (colg, col)
            ctx.check("R6", (g, idx) == want, mm, name, s,
                      f"scaling='{sc}': overlap weights must be divided by the volumes of the "
                      f"{'row (target)' if sc == 'averaged' else 'column (source)'} cells {want[0]}.cell_volumes[{want[1]}] so that "
                      f"{'row' if sc == 'averaged' else 'column'} sums are one; found {g}.cell_volumes[{idx}]",
                      construct=f"{name}[{sc}]: {w} /= {g}.cell_volumes[{idx}]",
                      facts={"rows": [rowg, row], "cols": [colg, col], "divides_by": [g, idx]})
            ctx.sample({"rule": "R6", "function": name, "scaling": sc, "divides_by": f"{g}.cell_volumes[{idx}]",
                        "matrix": f"rows {rowg}/{row}, cols {colg}/{col}"})
        # both tessellations are handed to the overlap routine in one common frame
        gnew, gold = [a.arg for a in fn.args.args[:2]]
        isects = [c for c in walk_local(fn) if isinstance(c, ast.Call) and ".intersections." in ("." + (u(c.func)))]
        if len(isects) != 1 or len(isects[0].args) < 2:
            raise Undecided(f"{MATCH}:{name}: expected one call into pp.intersections with two point sets")
        ic = isects[0]

        def one_level(e: ast.expr) -> ast.expr:
            r = f.resolve(e, f.stmt_of(ic), depth=1) if isinstance(e, ast.Name) else [e]
            return r[0] if len(r) == 1 else e

        p_new, p_old = one_level(ic.args[0]), one_level(ic.args[1])

        class _Ren(ast.NodeTransformer):
            def visit_Name(self, n):
                return ast.copy_location(ast.Name(id=gnew, ctx=n.ctx), n) if n.id == gold else n

        import copy as _copy
        renamed = u(_Ren().visit(_copy.deepcopy(p_old)))
        if gnew not in names_in(p_new) or gold not in names_in(p_old):
            raise Undecided(f"{MATCH}:{name}: point sets `{u(p_new)[:50]}` / `{u(p_old)[:50]}` do not name the two grids")
        ok = renamed == u(p_new) and gold not in names_in(p_new)
        ctx.check("R6", ok, mm, name, ic,
                  f"the point sets of `{gnew}` and `{gold}` must be brought to the common frame by the same mapping (same "
                  f"centre, same normal/rotation): `{u(p_new)}` vs `{u(p_old)}` differ in more than the grid - a normal computed "
                  f"per grid has an arbitrary sign, so the old grid may be mirrored before the overlaps are computed",
                  construct=f"{name}: frames {u(p_new)} | {u(p_old)}", facts={"new": u(p_new), "old": u(p_old)})
    # forwarding of scaling
    fn = mm.func("match_grids_along_1d_mortar")
    if "scaling" not in [a.arg for a in fn.args.args]:
        raise AnchorError(f"{MATCH}:match_grids_along_1d_mortar: parameter `scaling` missing")
    inner = [c for c in walk_local(fn) if isinstance(c, ast.Call) and call_name(c) in ("match_1d", "match_2d")]
    if not inner:
        raise AnchorError(f"{MATCH}:match_grids_along_1d_mortar: no call to match_1d")
    for c in inner:
        sc = kwarg(c, "scaling") or (c.args[3] if len(c.args) > 3 else None)
        ctx.check("R6", sc is not None and u(sc) == "scaling", mm, "match_grids_along_1d_mortar", c,
                  "the cell matching inside match_grids_along_1d_mortar must use the caller's scaling",
                  construct=f"inner {u(c)}", facts={"scaling_arg": u(sc) if sc is not None else None})


DEDUP_CALLS = {"unique", "intersect1d", "union1d", "setdiff1d", "set", "frozenset"}


def _index_sets(fn: ast.FunctionDef, rel: str, qual: str):
    """Row/column index arrays unpacked from sparse_array_to_row_col_data(<a grid-to-mortar projection>) and whether every
    use sees them de-duplicated.  Yields (statement, name, axis, matrix text, raw_uses)."""
    f = Fn(fn, rel, qual)

    def is_src(c: ast.AST) -> bool:
        return isinstance(c, ast.Call) and call_name(c) == "sparse_array_to_row_col_data" and bool(c.args) and any(
            isinstance(n, ast.Attribute) and FIELD_RE.match(n.attr) for n in ast.walk(c.args[0]))

    sites: list[tuple[ast.stmt, ast.Name, int, ast.expr]] = []
    for s in stmts_local(fn):
        if isinstance(s, ast.Assign) and is_src(s.value) and isinstance(s.targets[0], ast.Tuple) and len(s.targets[0].elts) == 3:
            for axis in (0, 1):
                t = s.targets[0].elts[axis]
                if isinstance(t, ast.Name) and t.id != "_":
                    sites.append((s, t, axis, s.value.args[0]))
    # sparse_array_to_row_col_data(M)[k] used inline
    for n in walk_local(fn):
        if isinstance(n, ast.Subscript) and is_src(n.value) and isinstance(n.slice, ast.Constant) and n.slice.value in (0, 1):
            par = f.pm.get(n)
            st = f.stmt_of(n)
            if isinstance(par, ast.Call) and call_name(par) in DEDUP_CALLS:
                yield st, f"<{u(n)[:40]}>", n.slice.value, u(n.value.args[0]), []
            elif isinstance(par, ast.Assign) and isinstance(par.targets[0], ast.Name):
                sites.append((par, par.targets[0], n.slice.value, n.value.args[0]))
            else:
                yield st, f"<{u(n)[:40]}>", n.slice.value, u(n.value.args[0]), [n]
    for s, t, axis, m in sites:
        if True:
            raw = []
            for n in walk_local(fn):
                if isinstance(n, ast.Name) and n.id == t.id and isinstance(n.ctx, ast.Load):
                    par = f.pm.get(n)
                    if isinstance(par, ast.Call) and call_name(par) in DEDUP_CALLS:
                        continue
                    st = f.stmt_of(n)
                    ds, _ = f.reaching(t.id, st)
                    if any(d[0] is s for d in ds):
                        raw.append(n)
            yield s, t.id, axis, u(m), raw


def _fields_in(text: str) -> list[str]:
    return sorted(set(re.findall(r"_(?:primary|secondary|mortar)_to_(?:primary|secondary|mortar)_(?:int|avg)", text)))


def _r7(ctx: Ctx) -> None:
    mm = ctx.repo.module(MATCH)
    fn = mm.func("match_grids_along_1d_mortar")
    n = 0
    for s, name, axis, mat, raw in _index_sets(fn, MATCH, "match_grids_along_1d_mortar"):
        n += 1
        ctx.check("R7", not raw, mm, "match_grids_along_1d_mortar", s,
                  f"`{name}` holds the {'row' if axis == 0 else 'column'} index of every stored entry of {mat} and is then used as "
                  f"the *set* of old boundary faces without np.unique: once a primary face overlaps more than one mortar cell "
                  f"(any non-matching primary grid) it is listed several times and its overlaps are counted several times",
                  construct=f"{'row' if axis == 0 else 'column'} indices of {'/'.join(_fields_in(mat))} used as an entity set without de-duplication",
                  facts={"raw_uses": len(raw)})
    if n == 0:
        raise AnchorError(f"{MATCH}:match_grids_along_1d_mortar: old boundary faces are no longer read from the projection matrix")


def run(ctx: Ctx) -> None:
    mod = ctx.repo.module(MG)
    cls = mod.cls("MortarGrid")
    meths = methods(cls)
    for need in ("_init_projections", "_set_projections", "update_mortar", "update_secondary", "update_primary", "__init__"):
        if need not in meths:
            raise AnchorError(f"{MG}:MortarGrid.{need} missing")
    keep = {"_init_projections", "_set_projections", "_check_mappings"}
    meths, inlined = inline_statement_calls(
        meths, lambda m: m.startswith("_") and not m.startswith("__") and m not in keep, MG)
    for n in sorted(inlined):
        ctx.note(f"helper MortarGrid.{n} is analysed inlined into its callers")
        meths.pop(n)
    CALLEE_SUMMARIES.clear()
    for n_, fd_ in meths.items():
        if n_.startswith("_") and not n_.startswith("__") and n_ not in keep:
            CALLEE_SUMMARIES[n_] = _make_summary(fd_, MG, f"MortarGrid.{n_}")
    _SIMPLE_FUNCS.clear()
    _SIMPLE_FUNCS.update({n: fd for n, fd in meths.items() if _simple_return(fd) is not None})
    _r1(ctx, mod, meths)
    _r2(ctx, mod, meths)
    direct = _r3(ctx, mod, meths)
    _r4(ctx, mod, meths, direct)
    _r5(ctx, meths)
    _r6(ctx)
    _r7(ctx)
    if ctx.tier == "thorough":
        for qn, fdef in mod.functions():
            for s_, nm, axis, mat, raw in _index_sets(fdef, MG, qn):
                if raw:
                    ctx.note(f"sweep: {MG}:{qn}: `{nm}` (entries of {mat}) is used without de-duplication ({len(raw)} uses) - "
                             f"same multiset hazard as C26-R7, not confirmed with an input here")
        n = 0
        for m in ctx.repo.modules("src/porepy"):
            if m.rel == MG:
                continue
            for qn, fdef in m.functions():
                writes = []
                for node in walk_local(fdef):
                    if isinstance(node, (ast.Assign, ast.AugAssign, ast.AnnAssign)):
                        for t in assigned_targets(node):
                            if isinstance(t, ast.Attribute) and FIELD_RE.match(t.attr) and u(t.value) != "self":
                                writes.append((node, t))
                if not writes:
                    continue
                ff = Fn(fdef, m.rel, qn)
                for node, t in writes:
                    n += 1
                    recv = u(t.value)
                    calls = {ff.node(ff.stmt_of(c)) for c in walk_local(fdef) if isinstance(c, ast.Call)
                             and u(c.func) == f"{recv}._set_projections"}
                    ok = bool(calls) and ff.cfg.every_path_passes(ff.node(node), cfgmod.EXIT, calls)
                    ctx.note(f"sweep: {m.rel}:{node.lineno} {qn}: writes {u(t)} outside MortarGrid; "
                             + ("followed by _set_projections() on every path" if ok else
                                "NOT followed by _set_projections(): the derived mortar_to_* maps and the twin field keep "
                                "their previous value (reported, not armed)"))
        ctx.note(f"sweep: {n} writes to _X_to_Y_k fields outside mortar_grid.py (R3/R4 are decided for MortarGrid's own methods)")
        ctx.note("observation: sparse_kronecker_product(matrix, 1) returns `matrix` itself, so accessors with nd=1 hand out the "
                 "stored field (aliasing) - callers must not modify it in place")


# ---------------------------------------------------------------------------------------

def _m(name, old, new, rule, file=MG, control=False, count=1):
    return dict(name=name, file=file, old=old, new=new, rule=rule, control=control, count=count)


MUTANTS = [
    # accessors
    _m("accessor-avg-returns-int", "return sparse_kronecker_product(self._mortar_to_primary_avg, nd)",
       "return sparse_kronecker_product(self._mortar_to_primary_int, nd)", "R1"),
    _m("accessor-secondary-returns-primary", "return sparse_kronecker_product(self._secondary_to_mortar_int, nd)",
       "return sparse_kronecker_product(self._primary_to_mortar_int, nd)", "R1"),
    _m("accessor-ignores-nd", "return sparse_kronecker_product(self._mortar_to_secondary_avg, nd)",
       "return sparse_kronecker_product(self._mortar_to_secondary_avg, 1)", "R1"),
    # _set_projections
    _m("set-projections-int-from-int", "                    self._primary_to_mortar_avg.T\n",
       "                    self._primary_to_mortar_int.T\n", "R2", control=True),
    _m("set-projections-secondary-from-primary", "                    self._secondary_to_mortar_int.T\n",
       "                    self._primary_to_mortar_int.T\n", "R2"),
    _m("set-projections-no-transpose", "                    self._secondary_to_mortar_avg.T\n",
       "                    self._secondary_to_mortar_avg\n", "R2"),
    _m("set-projections-wrong-flag", "        if secondary:\n            self._mortar_to_secondary_int",
       "        if primary:\n            self._mortar_to_secondary_int", "R2"),
    # protocol
    _m("update-secondary-without-set-projections",
       "        # Update other mappings to and from secondary\n        self._set_projections(primary=False)\n",
       "        # Update other mappings to and from secondary\n", "R3", control=True),
    _m("update-secondary-disables-own-side", "        self._set_projections(primary=False)\n",
       "        self._set_projections(secondary=False)\n", "R3"),
    _m("update-primary-forgets-avg",
       "        self._primary_to_mortar_avg = self._primary_to_mortar_avg * split_matrix_avg\n", "", "R3"),
    dict(name="update-mortar-set-projections-before-assign", rule="R3", control=False, edits=[
        dict(file=MG, old="        # Also update the other mappings\n        self._set_projections()\n", new="", count=1),
        dict(file=MG, old="        # We need to update mappings from both primary and secondary.\n",
             new="        self._set_projections()\n", count=1)]),
    # taint
    _m("update-mortar-int-from-averaged",
       "                mat_int = pp.match_grids.match_1d(new_g, g, tol, scaling=\"integrated\")",
       "                mat_int = pp.match_grids.match_1d(new_g, g, tol, scaling=\"averaged\")", "R4"),
    _m("update-mortar-swapped-store", "            split_matrix_avg[side] = mat_avg\n            split_matrix_int[side] = mat_int\n\n        # In the case of different side ordering between the input data and the stored\n        # we need to remap it. The resulting matrix will be a block diagonal",
       "            split_matrix_avg[side] = mat_int\n            split_matrix_int[side] = mat_avg\n\n        # In the case of different side ordering between the input data and the stored\n        # we need to remap it. The resulting matrix will be a block diagonal", "R4"),
    _m("update-mortar-avg-times-int-field", "                matrix_avg * self._secondary_to_mortar_avg\n",
       "                matrix_avg * self._secondary_to_mortar_int\n", "R4"),
    _m("update-secondary-int-from-avg-blocks", "        self._secondary_to_mortar_int = sps.bmat(matrix_int, format=\"csc\")",
       "        self._secondary_to_mortar_int = sps.bmat(matrix_avg, format=\"csc\")", "R4"),
    _m("update-primary-int-times-avg", "self._primary_to_mortar_int = self._primary_to_mortar_int * split_matrix_int",
       "self._primary_to_mortar_int = self._primary_to_mortar_int * split_matrix_avg", "R4"),
    _m("update-primary-2d-averaged-twice",
       "                self, g_new, g_old, tol, scaling=\"integrated\"\n", "                self, g_new, g_old, tol, scaling=\"averaged\"\n", "R4"),
    # md-grid dispatch
    _m("replace-update-primary-args-swapped", "intf.update_primary(sd_new, sd_old, tol)", "intf.update_primary(sd_old, sd_new, tol)",
       "R5", file=MD),
    _m("replace-secondary-arm-updates-primary", "intf.update_secondary(sd_new, tol)", "intf.update_primary(sd_new, sd_old, tol)",
       "R5", file=MD),
    # overlap weights
    _m("match-1d-averaged-by-old-volumes",
       "    if scaling == \"averaged\":\n        weights /= new_g.cell_volumes[new_g_ind]\n    elif scaling == \"integrated\":\n        weights /= old_g.cell_volumes[old_g_ind]\n    elif scaling is None:\n        mask = weights > tol\n        new_g_ind = new_g_ind[mask]\n        old_g_ind = old_g_ind[mask]\n        weights = np.ones_like(new_g_ind)\n\n",
       "    if scaling == \"averaged\":\n        weights /= old_g.cell_volumes[old_g_ind]\n    elif scaling == \"integrated\":\n        weights /= old_g.cell_volumes[old_g_ind]\n    elif scaling is None:\n        mask = weights > tol\n        new_g_ind = new_g_ind[mask]\n        old_g_ind = old_g_ind[mask]\n        weights = np.ones_like(new_g_ind)\n\n",
       "R6", file=MATCH),
    _m("match-2d-integrated-by-new-volumes",
       "        weights /= old_g.cell_volumes[old_g_ind]\n    elif scaling is None:\n        mask = weights > tol\n        new_g_ind = new_g_ind[mask]\n        old_g_ind = old_g_ind[mask]\n        weights = np.ones_like(new_g_ind)\n    else:",
       "        weights /= new_g.cell_volumes[new_g_ind]\n    elif scaling is None:\n        mask = weights > tol\n        new_g_ind = new_g_ind[mask]\n        old_g_ind = old_g_ind[mask]\n        weights = np.ones_like(new_g_ind)\n    else:",
       "R6", file=MATCH),
    _m("seed-match2d-projects-old-grid-with-own-normal", "        proj_pts(old_g.nodes, cc, n),\n",
       "        proj_pts(old_g.nodes, cc, n_old),\n", "R6", file=MATCH),
    _m("along-1d-mortar-hardcodes-scaling", "between_cells = match_1d(g_aux_old, g_aux_new, tol, scaling)",
       "between_cells = match_1d(g_aux_old, g_aux_new, tol, \"averaged\")", "R6", file=MATCH),
]
