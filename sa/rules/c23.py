"""C23 - refinement and extrusion: structural clauses of the index bookkeeping (parent maps, layer numbering).

Nothing is executed.  The anchored functions are interpreted with the index-space interpreter of C22 (class KI):
arrays are typed by the entity kind their values point at, by the space (and flattening layout) their axes live on, and
integer expressions are polynomials in the entity counts and the number of layers.  Offsets added to index arrays must
be multiples of the count of the SAME entity kind (or the documented block base), parent maps must have the layout in
which the children are stacked, and the arrays paired in a sparse-matrix constructor must be flattened the same way.
"""
from __future__ import annotations

import ast
from dataclasses import replace
from typing import Any, Optional

import sympy as sp

from ..core.astutil import u, call_name, kwarg, walk_local
from ..core.loader import AnchorError, Undecided
from ..core.report import Ctx
from .c22 import (KI, Arr, Int, Mat, Mask, Tup, GridV, Opaque, ListV, DictV, E, S, n_of, size_of, fmt_space, fmt_val, fmt_ident,
                  canon_space, count_atoms, view_of, _reporter, guarded, MODS, _z, flat_prod, SPACE_SIZES, BOT, _plain_defs, _resolve, _to_sym)

REF = "src/porepy/grids/refinement.py"
EXT = "src/porepy/grids/grid_extrusion.py"

META = {
    "explanation": (
        "R1 refine_triangle_grid: the corner table of the children holds indices into the stacked node array [old nodes ; face "
        "centres]: old node numbers, or face numbers shifted by exactly the number of old nodes; every row written into the per-cell "
        "table is ordered by CELL (np.argwhere of a (k x cells) condition enumerates row-major, i.e. by k first - such a selection is "
        "not cell-ordered unless the condition is transposed); the child axis produced by reshaping the (corner, cell, child) table "
        "has the layout (cell slow, child fast), and the returned parent map must have exactly that layout with the cell as value: "
        "np.repeat(arange(n), 4), whereas np.tile(arange(n), 4) has layout (copy slow, cell fast). "
        "R2 extrusion (_extrude_1d, _extrude_2d with _create_mappings/_define_tags inlined, and those helpers on their own): with L cell "
        "layers the new numbering is node = k*nn + n, cell = k*nc + c, vertical face = k*nf + f, horizontal face = L*nf + k*nc + c. Every "
        "`index array + offset` is typed: the offset must be (layer expression) x (count of the SAME entity kind) or that block base - "
        "an offset in nodes added to face numbers is a contradiction even though nn == nf for every 1-d grid whose nodes were split "
        "together with its faces; row/column arrays handed to a sparse constructor index the space whose size is in the matching shape "
        "slot (nn*(L+1), nf*L + nc*(L+1), nc*L) and are flattened in the same layout; gathers of the old grid's arrays use indices of the "
        "gathered entity kind; the node array is stacked layer-major; cell_map[c] / face_map[f] are arange(entity, count*L, count) of the "
        "same entity kind (layer-major, L entries); tag arrays are L copies of the old face tags first, then the horizontal faces, with "
        "total length nf*L + nc*(L+1), node tags (L+1) copies; the signs stored in the new cell-face matrix depend on the old grid's "
        "cell_faces signs (sibling agreement with _extrude_2d), not on constants only. "
        "R3 refine_grid_1d / remesh_1d: new node coordinates are combinations of the two end nodes of one cell (one pointer window) / of "
        "the two boundary nodes whose weights sum to one identically and stay in [0, 1] (sympy on the extracted formula); the number of "
        "inserted nodes per cell, the node counter increment and the slice width all equal ratio-1; role agreement: the test on entry k of "
        "the window's first-occurrence flags guards (adds / looks up) the window's node k only. "
        "R4 structured_refinement: the points tested against a coarse cell and the ids recorded for it are selected from the same pointer "
        "array with the same mask; the pointer array is then restricted with the complement of that mask (each fine cell is recorded "
        "at most once); exactly one column pointer is appended per coarse cell, advanced by the number of ids appended; the matrix is "
        "compressed by columns with (indices = fine ids, pointer per coarse cell), i.e. rows fine x columns coarse as documented; ids and counts "
        "may be collected in arrays (np.append, running sum) or lists (joined / np.cumsum from [0]); frame typing: within each pre-processing "
        "arm the coarse nodes and the fine cell centres are re-assigned with the SAME map and slice (R vs R.T are different frames). "
        "Not decided: measures, containment and validity of the produced grids (values of recomputed geometry), orientation/sign "
        "conventions of the extruded faces, point-in-cell tests, tolerance-based tag transfer of remesh_1d, extrude_mdg."),
    "rule_text": "one obligation per typed offset / gather / constructor slot / pairing / stacked row / map store / tag array / extracted identity",
    "trusted_base": ["python ast", "sa.core", "sa.rules.c22.KI (index-space interpreter)", "sa.rules.c34.normalise (helper inlining)",
                     "sympy as term normaliser", "Grid conventions as in C22; csc indices are grouped by column",
                     "numpy: reshape/ravel order, tile/repeat, argwhere enumerates in row-major order, meshgrid axis order",
                     "TriangleGrid / Grid keep the column order of the tables they are given"],
    "assumptions": ["each triangle shares exactly one node between two of its faces (one hit per cell in the duplicate search)",
                    "z has one entry per node layer (L+1 entries)"],
    "technique": "index-space / layout type inference with contradiction detection + polynomial count identities + sympy identities "
                 "on extracted formulas",
}
MIN_INSTANCES = {"R1": 14, "R2": 85, "R3": 10, "R4": 10}

L = S("L")   # number of cell layers


def _set_new_sizes(g: str) -> None:
    SPACE_SIZES[("X", "N")] = n_of(g, "N") * (L + 1)
    SPACE_SIZES[("X", "C")] = n_of(g, "C") * L
    SPACE_SIZES[("X", "F")] = n_of(g, "F") * L + n_of(g, "C") * (L + 1)


def _layer_coeff(off, cnt) -> Optional[Any]:
    """t with off == t * cnt, t free of entity counts; None otherwise"""
    off = sp.expand(off)
    if off == 0:
        return sp.Integer(0)
    t = sp.expand(sp.cancel(off / cnt))
    if count_atoms(t) or not _z(t * cnt - off) or t.has(sp.Pow) and any(a.exp.is_negative for a in t.atoms(sp.Pow) if a.exp.is_number):
        return None
    return t


def extrusion_hook(g: str):
    def hook(ki: KI, node: ast.AST, a: Arr, off) -> Optional[Arr]:
        vk = a.vk
        K = None
        if isinstance(vk, tuple) and vk[0] == "E" and vk[1] == g:
            K = vk[2]
        elif isinstance(vk, tuple) and vk[0] == "X":
            K = vk[1]
        if K is None:
            return None
        atoms = count_atoms(off)
        if not atoms:
            return None
        names = {"N": "nodes", "F": "faces", "C": "cells"}
        t = _layer_coeff(off, n_of(g, K))
        if t is not None:
            ki.need("offset", True, node, f"`{u(node)[:80]}`: {names[K]} indices shifted by ({t}) x number of {names[K]}")
            return Arr(("X", K), a.axes, None, frozenset(), None)
        if K == "C" or (vk == ("X", "F")):
            rest = sp.expand(off - L * n_of(g, "F"))
            t2 = _layer_coeff(rest, n_of(g, "C"))
            if t2 is not None and K == "C":
                ki.need("offset", True, node, f"`{u(node)[:80]}`: cell numbers become horizontal-face numbers: all L*nf vertical faces first, then ({t2}) x nc")
                return Arr(("X", "F"), a.axes, None, frozenset(), None)
        other = sorted({s_.name[1] for s_ in atoms} - {K})
        ki.need("offset", False, node,
                f"`{u(node)[:90]}`: an array of {names[K]} numbers is shifted by {sp.expand(off)}, a multiple of the number of "
                f"{' / '.join(names[o] for o in other) or names[K]}; layer k of the {names[K]} starts at k x (number of {names[K]})"
                + (" (horizontal faces: L x nf + k x nc)" if K == "C" else "")
                + " - the two counts coincide only for special grids", entity=names[K], offset=str(sp.expand(off)),
                construct=f"{names[K]} numbers shifted by a multiple of the number of {' / '.join(names[o] for o in other) or names[K]}")
        return Arr(("X", K), a.axes, None)   # keep the intended kind: one contradiction is reported once
    return hook


def layout_equiv(a, b) -> Optional[bool]:
    """are two flattened axes the same mixed-radix layout (adjacent components may be merged on either side)?"""
    if a is None or b is None:
        return None
    A = list(a[1]) if isinstance(a, tuple) and a[0] == "prod" else [a]
    B = list(b[1]) if isinstance(b, tuple) and b[0] == "prod" else [b]
    i, j = len(A) - 1, len(B) - 1
    while i >= 0 and j >= 0:
        sa, sb = size_of(A[i]), size_of(B[j])
        if sa is None or sb is None:
            return None
        if _z(sa - sb):
            i, j = i - 1, j - 1
            continue
        if any(x.name.startswith("|") for x in sp.expand(sa - sb).free_symbols):
            return None   # a data-dependent length is involved: nothing can be said
        merged = False
        acc, k = sa, i
        while k > 0 and not merged:
            k -= 1
            z = size_of(A[k])
            if z is None:
                return None
            acc = acc * z
            if _z(acc - sb):
                i, j, merged = k - 1, j - 1, True
        acc, k = sb, j
        while k > 0 and not merged:
            k -= 1
            z = size_of(B[k])
            if z is None:
                return None
            acc = acc * z
            if _z(acc - sa):
                i, j, merged = i - 1, k - 1, True
        if not merged:
            return False
    return i < 0 and j < 0


# =====================================================================================
#  R2 extrusion
# =====================================================================================

def _spec_space(K: str):
    return ("X", K)


def _kind_of(vk) -> Optional[str]:
    """new-grid entity kind an index space denotes under the layer-major numbering"""
    if isinstance(vk, tuple) and vk[0] == "X":
        return vk[1]
    if isinstance(vk, tuple) and vk[0] == "pos":
        for K in "NFC":
            if _z(vk[1] - SPACE_SIZES[("X", K)]):
                return K
    return None


def _check_ctors(ctx: Ctx, mod, q: str, ki: KI) -> int:
    n = 0
    for c, fmt, m, facts in ki.ctors:
        shp = facts.get("shape")
        if not (isinstance(shp, Tup) and len(shp.items) == 2 and all(isinstance(x, Int) for x in shp.items)):
            continue
        if facts.get("kind") == "triplet":
            rows, cols, data = facts["rows"], facts["cols"], facts["data"]
        elif facts.get("kind") == "compressed":
            rows, cols, data = (facts["indices"], None, facts["data"]) if fmt == "csc" else (None, facts["indices"], facts["data"])
        else:
            continue
        n += 1
        slot_kind = []
        for k, x in enumerate(shp.items):
            kk = [K for K in "NFC" if _z(x.p - SPACE_SIZES[("X", K)])]
            slot_kind.append(kk[0] if len(kk) == 1 else None)
            ctx.check("R2", len(kk) == 1, mod, q, c,
                      f"shape slot {k} of `{u(c)[:60]}` is {x.p}; the extruded grid has nn*(L+1) nodes, nf*L + nc*(L+1) faces and nc*L cells",
                      construct=f"constructor {n}: shape slot {k} is the count of one new entity kind", facts={"slot": str(x.p)})
        typed = 0
        for what, arr, k in (("row", rows, 0), ("column", cols, 1)):
            if not isinstance(arr, Arr) or arr.vk is None:
                continue
            kk = _kind_of(arr.vk)
            if kk is None:
                continue
            typed += 1
            names = {"N": "nodes", "F": "faces", "C": "cells"}
            ctx.check("R2", slot_kind[k] == kk, mod, q, c,
                      f"the {what} indices of `{u(c)[:50]}` are new {names[kk]} numbers but shape slot {k} counts "
                      f"{names.get(slot_kind[k], 'something else')}", construct=f"constructor {n}: {what} indices agree with shape slot {k}")
        if typed == 0:
            raise Undecided(f"{mod.rel}:{q}: neither index array of `{u(c)[:70]}` could be typed")
        if facts.get("kind") == "triplet" and isinstance(rows, Arr) and isinstance(cols, Arr) and rows.axes and cols.axes:
            eq = layout_equiv(rows.axes[-1], cols.axes[-1]) if len(rows.axes) == 1 and len(cols.axes) == 1 else None
            if eq is not None:
                ctx.check("R2", eq, mod, q, c,
                          f"row and column arrays of `{u(c)[:50]}` are paired entry by entry but are flattened differently: rows "
                          f"{fmt_space(rows.axes[-1])}, columns {fmt_space(cols.axes[-1])} (slowest..fastest)",
                          construct=f"constructor {n}: row and column arrays have the same flattening layout")
            if isinstance(data, Arr) and data.axes and len(data.axes) == 1 and len(rows.axes) == 1:
                eq2 = layout_equiv(rows.axes[-1], data.axes[-1])
                if eq2 is not None:
                    ctx.check("R2", eq2, mod, q, c,
                              f"data and row arrays of `{u(c)[:50]}` are flattened differently: rows {fmt_space(rows.axes[-1])}, data {fmt_space(data.axes[-1])}",
                              construct=f"constructor {n}: data and row arrays have the same flattening layout")
    return n


def _check_maps(ctx: Ctx, mod, q: str, ki: KI, g: str) -> int:
    n = 0
    for s, base, bval, ivals, v, aug in ki.sub_stores:
        if not (isinstance(v, Arr) and isinstance(v.ident, tuple) and v.ident and v.ident[0] == "arange3"):
            continue
        if not (isinstance(bval, Arr) and bval.axes and len(bval.axes) == 1 and isinstance(bval.axes[0], tuple) and bval.axes[0][0] == "E"
                and len(ivals) == 1 and isinstance(ivals[0], Int)):
            continue
        K = bval.axes[0][2]
        names = {"N": "nodes", "F": "faces", "C": "cells"}
        args = v.ident[1:]
        n += 1
        start, stop = args[0], args[1]
        step = args[2] if len(args) == 3 else Int(sp.Integer(1))
        cnt = n_of(g, K)
        ok = _z(start.p - ivals[0].p) and _z(step.p - cnt) and _z(stop.p - cnt * L)
        ctx.check("R2", ok, mod, q, s,
                  f"entry e of the {names[K]} map must list the copies of {names[K][:-1]} e in the layer-major numbering e + k x (number of {names[K]}), "
                  f"k < L: arange(e, L x count, count); found arange({start.p}, {stop.p}, {step.p})",
                  construct=f"{names[K]} map: entry e = arange(e, L * n_{names[K]}, n_{names[K]})",
                  facts={"start": str(start.p), "stop": str(stop.p), "step": str(step.p)})
    return n


def _blocks(space) -> list:
    """flatten a concatenation into its blocks"""
    if isinstance(space, tuple) and space and space[0] == "cat":
        out = []
        for x in space[1]:
            out.extend(_blocks(x))
        return out
    return [space]


def _check_tags(ctx: Ctx, mod, q: str, tags: DictV, g: str) -> int:
    n = 0
    for key, v in tags.items:
        K = "F" if str(key).endswith("_faces") else ("N" if str(key).endswith("_nodes") else None)
        if K is None:
            continue
        if not isinstance(v, Arr) or v.axes is None or len(v.axes) != 1:
            raise Undecided(f"{mod.rel}:{q}: tag array '{key}' could not be typed ({fmt_val(v)})")
        n += 1
        tot = size_of(v.axes[0])
        if tot is None or any(x.name.startswith("|") for x in tot.free_symbols):
            raise Undecided(f"{mod.rel}:{q}: length of tag array '{key}' unknown ({fmt_space(v.axes[0])})")
        ctx.check("R2", _z(tot - SPACE_SIZES[("X", K)]), mod, q, None,
                  f"tag '{key}' has {tot} entries; the extruded grid has {SPACE_SIZES[('X', K)]} {'faces' if K == 'F' else 'nodes'}",
                  construct=f"tag '{key}': one entry per new {'face' if K == 'F' else 'node'}", facts={"length": str(tot)})
        bl = _blocks(v.axes[0])
        if K == "F":
            head = bl[0]
            want = flat_prod([("pos", L), E(g, "F")])
            if layout_equiv(head, want) is None:
                raise Undecided(f"{mod.rel}:{q}: leading block of tag '{key}' not comparable ({fmt_space(head)})")
            ctx.check("R2", layout_equiv(head, want) is True and all(E(g, "F") not in (list(b[1]) if isinstance(b, tuple) and b[0] == "prod" else [b])
                                                                       for b in bl[1:]), mod, q, None,
                      f"tag '{key}': the vertical faces come first (L copies of the old face tags, layer by layer), the horizontal faces after "
                      f"them; found blocks {[fmt_space(b) for b in bl]}", construct=f"tag '{key}': L layers of old face tags first, horizontal faces last")
        else:
            ents = []
            for b in bl:
                ents.extend(list(b[1]) if isinstance(b, tuple) and b[0] == "prod" else [b])
            ok = all((isinstance(x, tuple) and x[0] == "pos") or x == E(g, "N") for x in ents) and any(x == E(g, "N") for x in ents)
            ctx.check("R2", ok, mod, q, None, f"tag '{key}': blocks must be copies of old node arrays, layer by layer; found {[fmt_space(b) for b in bl]}",
                      construct=f"tag '{key}': stacked copies of old node arrays")
    return n


def _vk_join(g: str):
    def join(vks: list):
        ks = set()
        for v in vks:
            if isinstance(v, tuple) and v[0] == "E" and v[1] == g:
                ks.add(v[2])
            elif isinstance(v, tuple) and v[0] == "X":
                ks.add(v[1])
            elif _kind_of(v) is not None:
                ks.add(_kind_of(v))
            else:
                return None
        return ("X", ks.pop()) if len(ks) == 1 else None
    return join


COUNT_ATTRS = {"size", "shape", "nnz", "num_cells", "num_faces", "num_nodes", "dim", "ndim"}


def _value_slice(fn: ast.AST, expr: ast.expr) -> list:
    """AST nodes the VALUES of expr may depend on (flow-insensitive backward slice over the assignments of the function;
    sub-expressions that only contribute a count - x.size, x.shape, len(x), g.num_cells - are not followed)"""
    out, seen, todo = [], set(), [expr]

    def walk_values(e):
        stack = [e]
        while stack:
            n = stack.pop()
            if isinstance(n, ast.Attribute) and n.attr in COUNT_ATTRS:
                continue
            if isinstance(n, ast.Call) and call_name(n) == "len":
                continue
            yield n
            stack.extend(ast.iter_child_nodes(n))
    while todo:
        e = todo.pop()
        for n in walk_values(e):
            out.append(n)
            if isinstance(n, ast.Name) and n.id not in seen:
                seen.add(n.id)
                for st in ast.walk(fn):
                    if isinstance(st, ast.Assign):
                        for t in st.targets:
                            names = [x for x in ast.walk(t) if isinstance(x, ast.Name)]
                            base = t
                            while isinstance(base, ast.Subscript):
                                base = base.value
                            if (isinstance(base, ast.Name) and base.id == n.id) or (isinstance(t, (ast.Tuple, ast.List)) and any(x.id == n.id for x in names)):
                                todo.append(st.value)
                    elif isinstance(st, ast.AugAssign):
                        base = st.target
                        while isinstance(base, ast.Subscript):
                            base = base.value
                        if isinstance(base, ast.Name) and base.id == n.id:
                            todo.append(st.value)
    return out


def _check_inherited_orientation(ctx: Ctx, mod, q: str, fn: ast.FunctionDef, ki: KI, g: str, cf_mat) -> None:
    """the signs stored in the new cell-face matrix must depend on the old grid (its cell_faces signs or its geometry)"""
    data_expr = None
    for c, fmt, m, facts in ki.ctors:
        if m is not None and cf_mat is not None and (m.mid == cf_mat.mid or ("conv", m.mid, "csc") == cf_mat.mid or ("conv", m.mid, "csr") == cf_mat.mid):
            a0 = c.args[0] if c.args else None
            if isinstance(a0, ast.Tuple) and a0.elts:
                data_expr = a0.elts[0]
    if data_expr is None:
        raise Undecided(f"{EXT}:{q}: the data argument of the new cell-face matrix was not found")
    nodes = _value_slice(fn, data_expr)
    attrs = {n.attr for n in nodes if isinstance(n, ast.Attribute) and isinstance(n.value, ast.Name) and n.value.id == g}
    reads_signs = any(isinstance(n, ast.Attribute) and n.attr == "data" and isinstance(n.value, ast.Attribute) and n.value.attr == "cell_faces"
                      and isinstance(n.value.value, ast.Name) and n.value.value.id == g for n in nodes) or \
        any(isinstance(n, ast.Call) and call_name(n) in ("sparse_array_to_row_col_data", "find") and n.args
            and u(n.args[0]) == f"{g}.cell_faces" for n in nodes)
    if not reads_signs and attrs - COUNT_ATTRS:
        raise Undecided(f"{EXT}:{q}: the signs of the new cell-face matrix depend on {sorted(attrs - COUNT_ATTRS)} of the old grid in a way that is not interpreted")
    ctx.check("R2", reads_signs, mod, q, data_expr,
              f"the signs of the new cell-face matrix (`{u(data_expr)[:50]}`) are built from constants only: they depend on neither the signs of {g}.cell_faces nor "
              f"the geometry of {g}, i.e. the orientation of the vertical faces is fixed by their storage position in the old cell; for an old grid whose cells "
              f"list their faces in another order the copies of one face get the same sign in both neighbours (nodes x=[0,2,1], cells (n0,n2),(n2,n1), "
              f"cell_faces -1 left/+1 right, z=[0,1,3]: ValueError 'Cell faces are not consistently oriented'); the 2-d sibling copies {g}.cell_faces.data",
              construct="signs of the extruded vertical faces are inherited from the old cell_faces")


def _extrude_ki(ctx: Ctx, mod, q: str, fn: ast.FunctionDef, g: str) -> KI:
    _set_new_sizes(g)
    ki = KI(fn, f"{EXT}:{q}", _reporter(ctx, "R2", mod, q), offset_hook=extrusion_hook(g))
    ki.vk_join = _vk_join(g)
    ki.env[g] = GridV(g)
    return ki


def rule_extrusion(ctx: Ctx, mod) -> None:
    for q in ("_extrude_1d", "_extrude_2d"):
        fn = view_of(mod, q)
        params = [a.arg for a in fn.args.args]
        g, zname = params[0], params[1]
        ki = _extrude_ki(ctx, mod, q, fn, g)
        ki.env[zname] = Arr(None, (("pos", L + 1),), ("param", zname))
        ki.run(fn.body)
        n = _check_ctors(ctx, mod, q, ki)
        if n < 2:
            raise Undecided(f"{EXT}:{q}: expected the face-node and the cell-face constructor, typed {n}")
        # the new grid
        grids = [(c, gv, b) for c, gv, b, kind in ki.grids if kind == "Grid"]
        if len(grids) != 1:
            raise Undecided(f"{EXT}:{q}: expected one pp.Grid(...) construction")
        c, gv, bound = grids[0]
        nodes = bound.get("nodes", (None, None))[1]
        if not isinstance(nodes, Arr) or nodes.axes is None:
            raise Undecided(f"{EXT}:{q}: cannot type the node array of the new grid")
        want = flat_prod([("pos", L + 1), E(g, "N")])
        if layout_equiv(nodes.axes[-1], want) is None:
            raise Undecided(f"{EXT}:{q}: layout of the node array ({fmt_space(nodes.axes[-1])}) not comparable")
        ctx.check("R2", layout_equiv(nodes.axes[-1], want) is True, mod, q, c,
                  f"the new nodes must be stacked layer by layer (layer k holds the old nodes at z[k]): layout {fmt_space(want)}; found {fmt_space(nodes.axes[-1])}",
                  construct="new nodes stacked layer-major")
        fnm, cfm = bound.get("face_nodes", (None, None))[1], bound.get("cell_faces", (None, None))[1]
        for slot, m, rk, ck in (("face_nodes", fnm, "N", "F"), ("cell_faces", cfm, "F", "C")):
            if not isinstance(m, Mat):
                raise Undecided(f"{EXT}:{q}: cannot type the {slot} argument of pp.Grid")
            got = (_kind_of(m.rk), _kind_of(m.ck))
            if got == (None, None):
                raise Undecided(f"{EXT}:{q}: the {slot} argument of pp.Grid is typed {fmt_val(m)}")
            ctx.check("R2", got[0] in (rk, None) and got[1] in (ck, None), mod, q, c,
                      f"the {slot} slot of pp.Grid receives a matrix typed {got}", construct=f"Grid({slot}=...) is the {rk} x {ck} incidence")
        _check_inherited_orientation(ctx, mod, q, fn, ki, g, cfm)
        nm = _check_maps(ctx, mod, q, ki, g)
        if nm < 2:
            raise Undecided(f"{EXT}:{q}: cell and face maps not found after inlining _create_mappings ({nm})")
        tg = bound.get("external_tags", (None, None))[1]
        if isinstance(tg, DictV):
            _check_tags(ctx, mod, q, tg, g)
        rets = [(s, v) for s, v in ki.returns if isinstance(v, Tup) and len(v.items) == 3]
        if len(rets) != 1:
            raise Undecided(f"{EXT}:{q}: expected one `return grid, cell_map, face_map`")
        rs, rv = rets[0]
        doms = [x.axes[0] if isinstance(x, Arr) and x.axes else None for x in rv.items[1:]]
        if None in doms:
            raise Undecided(f"{EXT}:{q}: the returned maps could not be typed")
        ctx.check("R2", rv.items[0] == gv and doms == [E(g, "C"), E(g, "F")], mod, q, rs,
                  f"the function returns (new grid, map indexed by old cells, map indexed by old faces); found maps over {[fmt_space(d) for d in doms]}",
                  construct="returned (grid, cell map, face map)")
    # helpers on their own (their callers may stop inlining them)
    q = "_create_mappings"
    fn = view_of(mod, q)
    params = [a.arg for a in fn.args.args]
    g, gnew, lname = params[:3]
    ki = _extrude_ki(ctx, mod, q, fn, g)
    ki.env[gnew] = GridV(gnew)
    ki.grid_spaces[gnew] = {K: ("X", K) for K in "NFC"}
    ki.env[lname] = Int(L)
    ki.run(fn.body)
    if _check_maps(ctx, mod, q, ki, g) != 2:
        raise Undecided(f"{EXT}:{q}: expected the cell map and the face map")
    q = "_define_tags"
    fn = view_of(mod, q)
    params = [a.arg for a in fn.args.args]
    g, lname = params[:2]
    ki = _extrude_ki(ctx, mod, q, fn, g)
    ki.env[lname] = Int(L)
    ki.run(fn.body)
    rets = [(s, v) for s, v in ki.returns if isinstance(v, DictV)]
    if len(rets) != 1 or _check_tags(ctx, mod, q, rets[0][1], g) < 6:
        raise Undecided(f"{EXT}:{q}: the returned tag dictionary could not be typed")


# =====================================================================================
#  R1 refine_triangle_grid
# =====================================================================================

def refine_hook(g: str):
    NF = ("cat", (E(g, "N"), E(g, "F")))

    def hook(ki: KI, node: ast.AST, a: Arr, off) -> Optional[Arr]:
        if not (isinstance(a.vk, tuple) and a.vk[0] == "E" and a.vk[1] == g) or not count_atoms(off):
            return None
        K = a.vk[2]
        if K == "F" and _z(off - n_of(g, "N")):
            ki.need("offset", True, node, f"`{u(node)[:70]}`: face numbers shifted by the number of old nodes = positions of the face centres in the stacked node array")
            return Arr(NF, a.axes, None)
        ki.need("offset", False, node,
                f"`{u(node)[:80]}`: the new nodes are [old nodes ; face centres]; the node of face f is number (number of old nodes) + f, but "
                f"{'face' if K == 'F' else 'node' if K == 'N' else 'cell'} numbers are shifted by {sp.expand(off)}",
                construct="face-centre nodes are numbered (number of old nodes) + face", offset=str(sp.expand(off)))
        return Arr(NF, a.axes, None)
    return hook


def _hit_order(idn):
    """(mask axes, mask axis of each column, mask axis the rows are ordered by, transposed?) of an array derived from
    np.argwhere(mask) by column reversal, row re-ordering with argsort/lexsort of its own columns, and transposition"""
    ops, a = [], idn
    while True:
        if not (isinstance(a, tuple) and a):
            return None
        if a[0] == "T":
            ops.append(("T",))
            a = a[1]
        elif a[0] == "gather" and len(a) == 3:
            parts = a[2]
            if parts == ("all", "::-1"):
                ops.append(("rev",))
            elif isinstance(parts, tuple) and len(parts) == 1 and isinstance(parts[0], tuple) and parts[0] and parts[0][0] in ("argsort", "lexsort"):
                ops.append(("reorder", parts[0]))
            else:
                return None
            a = a[1]
        elif a[0] == "argwhere":
            break
        else:
            return None
    aw = a
    cols, order, transposed = [0, 1], 0, False
    if len(aw[2]) != 2:
        return None

    def column_of(key):
        # key ident: ("gather", X, ("all", ("at", "j"))) with X derived from the same argwhere
        if not (isinstance(key, tuple) and len(key) == 3 and key[0] == "gather" and isinstance(key[2], tuple) and len(key[2]) == 2
                and key[2][0] == "all" and isinstance(key[2][1], tuple) and key[2][1][0] == "at"):
            return None
        inner = key[1]
        while isinstance(inner, tuple) and inner and inner[0] in ("gather", "T"):
            inner = inner[1]
        if inner != aw:
            return None
        try:
            return int(key[2][1][1]) % 2
        except ValueError:
            return None
    for op in reversed(ops):
        if op[0] == "T":
            transposed = not transposed
        elif op[0] == "rev":
            cols = cols[::-1]
        else:
            k_ = op[1]
            key = k_[1] if k_[0] == "argsort" else (k_[1][-1] if k_[1] else None)   # lexsort: the LAST key is the primary one
            j = column_of(key)
            if j is None:
                return None
            order = cols[j]
    return aw[2], cols, order, transposed


def rule_refine_triangle(ctx: Ctx, mod) -> None:
    q = "refine_triangle_grid"
    fn = view_of(mod, q)
    g = fn.args.args[0].arg
    ki = KI(fn, f"{REF}:{q}", _reporter(ctx, "R1", mod, q), offset_hook=refine_hook(g))
    ki.env[g] = GridV(g)
    n0 = len(ctx.findings)
    ki.run(fn.body)

    def und(msg: str) -> None:
        """an untypable site downstream of a contradiction already reported by this rule is a note, not a refusal"""
        if len(ctx.findings) > n0:
            ctx.note("not typed (downstream of a reported contradiction): " + msg)
            return
        raise Undecided(f"{REF}:{q}: {msg}")
    C, N, F = E(g, "C"), E(g, "N"), E(g, "F")
    NF = ("cat", (N, F))
    chk = lambda ok, node, msg, cons, **f: ctx.check("R1", bool(ok), mod, q, node, msg, construct=cons, facts={k: str(v) for k, v in f.items()} or None)
    rets = [(s, v) for s, v in ki.returns if isinstance(v, Tup) and len(v.items) == 2 and isinstance(v.items[0], GridV)]
    if len(rets) != 1:
        raise Undecided(f"{REF}:{q}: expected one `return new_grid, parent`")
    rs, rv = rets[0]
    ctor = [(c, b) for c, gv, b, kind in ki.grids if gv == rv.items[0]]
    if not ctor:
        raise Undecided(f"{REF}:{q}: constructor of the returned grid not found")
    cnode, bound = ctor[0]
    tri = bound.get("tri", (None, None))[1]
    pts = bound.get("p", (None, None))[1]
    if not (isinstance(tri, Arr) and tri.axes is not None and len(tri.axes) == 2 and isinstance(pts, Arr) and pts.axes is not None):
        raise Undecided(f"{REF}:{q}: cannot type the node array / corner table given to TriangleGrid ({fmt_val(pts)}, {fmt_val(tri)})")
    if not (isinstance(pts.axes[-1], tuple) and pts.axes[-1][0] == "cat" and set(pts.axes[-1][1]) == {N, F}):
        raise Undecided(f"{REF}:{q}: the node array is not a stack of the old nodes and the face centres ({fmt_space(pts.axes[-1])})")
    chk(pts.axes[-1] == NF, cnode, f"the new node array must be [old nodes ; face centres] (found {fmt_space(pts.axes[-1])}): the corner table numbers "
        f"face-centre nodes after the old nodes", "new nodes = old nodes followed by face centres")
    # rows written into the per-cell table
    nrows = nstore = 0
    for s, base, bval, ivals, v, aug in ki.sub_stores:
        if not (isinstance(bval, Arr) and bval.axes is not None and len(bval.axes) == 3 and bval.axes[1] == C):
            continue
        if not isinstance(v, Arr):
            und(f"cannot type the value stored by `{u(s)[:70]}`")
            continue
        rows = list(v.ident[1]) if isinstance(v.ident, tuple) and v.ident and v.ident[0] == "rows" else [v]
        nstore += 1
        for k, r_ in enumerate(rows):
            nrows += 1
            where = f"child table store {nstore} row {k}"
            if r_.vk is None:
                raise Undecided(f"{REF}:{q}: value kind of {where} unknown")
            chk(r_.vk in (N, NF), s, f"{where}: corner entries must be node numbers of the stacked node array; found indices into {fmt_space(r_.vk)}",
                f"{where}: entries are nodes of the stacked node array", kind=fmt_space(r_.vk))
            if r_.axes is not None and r_.axes[-1] == C:
                chk(True, s, f"{where}: ordered by cell", f"{where}: ordered by cell")
                continue
            idn = r_.ident
            ho = None
            if isinstance(idn, tuple) and idn and idn[0] == "picked" and isinstance(idn[2], tuple) and idn[2][0] == "rmi":
                ho = _hit_order(idn[2][1])
            elif isinstance(idn, tuple) and idn and idn[0] == "paired" and len(idn[2]) == 2:
                # table[hits[:, a], hits[:, b]]: both index arrays are columns of one (re-ordered) argwhere result
                comp = []
                for key in idn[2]:
                    if isinstance(key, tuple) and len(key) == 3 and key[0] == "gather" and isinstance(key[2], tuple) and len(key[2]) == 2 \
                            and key[2][0] == "all" and isinstance(key[2][1], tuple) and key[2][1][0] == "at":
                        comp.append((key[1], key[2][1][1]))
                if len(comp) == 2 and comp[0][0] == comp[1][0]:
                    h0 = _hit_order(comp[0][0])
                    if h0 is not None and not h0[3]:
                        try:
                            ho = (h0[0], [h0[1][int(comp[0][1]) % 2], h0[1][int(comp[1][1]) % 2]], h0[2], True)
                        except ValueError:
                            ho = None
            if ho is None or not ho[3]:
                raise Undecided(f"{REF}:{q}: ordering of {where} ({fmt_val(r_)}) not recognised")
            axes, cols, order, _t = ho
            chk(axes[cols[-1]] == C, s,
                f"{where}: the multi-index handed to ravel_multi_index lists {[fmt_space(axes[c_]) for c_ in cols]} but the table it indexes is (rows, cells): "
                f"the cell number must be the second component", f"{where}: multi-index components match the (row, cell) table")
            chk(axes[order] == C, s,
                f"{where}: the picked entries come from np.argwhere over a condition with axes {[fmt_space(a) for a in axes]} and are enumerated by "
                f"{fmt_space(axes[order])} first (argwhere is row-major; no re-ordering by the cell column follows); entry i is then not the hit of cell i "
                f"whenever the hits of different cells lie in different rows (transpose the condition, or sort the hits by their cell column)",
                f"{where}: ordered by cell", axes=[fmt_space(a) for a in axes])
    if nrows < 4:
        und(f"expected the corner rows of the 4 children, found {nrows}")
    # parent map
    par = rv.items[1]
    if not (isinstance(par, Arr) and par.axes is not None and len(par.axes) == 1):
        raise Undecided(f"{REF}:{q}: cannot type the returned parent map ({fmt_val(par)})")
    if par.vk is None or (par.vk == C and "idmap" not in par.flags):
        raise Undecided(f"{REF}:{q}: the values of the returned parent map could not be traced ({fmt_val(par)})")
    chk(par.vk == C and "idmap" in par.flags, rs, f"the parent map must hold old cell numbers (found {fmt_val(par)})", "parent map values are old cells")
    cell_axis = tri.axes[-1]
    eq = layout_equiv(par.axes[0], cell_axis)
    if eq is None:
        raise Undecided(f"{REF}:{q}: layouts of the parent map / child axis not comparable")
    comps = lambda a: [fmt_space(x) for x in (a[1] if a[0] == "prod" else [a])]
    chk(eq, rs,
        f"children are numbered {comps(cell_axis)} (slowest..fastest) by the reshape of the (corner, cell, child) table, i.e. child j of cell c is new cell "
        f"c*k + j; the parent map has layout {comps(par.axes[0])}: entry i names cell i mod n instead of i div k - use np.repeat(arange(n), k) "
        f"(np.tile matches a table stacked child-major)", "parent map has the layout of the stacked children",
        children=comps(cell_axis), parent=comps(par.axes[0]))


# =====================================================================================
#  R3 convex combinations in refine_grid_1d / remesh_1d
# =====================================================================================

def _node_sym(e: ast.expr, atoms: dict):
    """<grid>.nodes[:, P(, np.newaxis)](.reshape(..)) -> symbol X_P"""
    while isinstance(e, ast.Call) and call_name(e) == "reshape" and isinstance(e.func, ast.Attribute):
        e = e.func.value
    if isinstance(e, ast.Subscript) and isinstance(e.value, ast.Attribute) and e.value.attr == "nodes" and isinstance(e.slice, ast.Tuple) \
            and len(e.slice.elts) in (2, 3) and isinstance(e.slice.elts[0], ast.Slice) and isinstance(e.slice.elts[1], ast.Name):
        return atoms.setdefault("X_" + e.slice.elts[1].id, sp.Symbol("X_" + e.slice.elts[1].id))
    return None


def _comb_sym(e: ast.expr, fn: ast.AST, atoms: dict, keep: set):
    x = _node_sym(e, atoms)
    if x is not None:
        return x
    if isinstance(e, ast.BinOp) and isinstance(e.op, (ast.Add, ast.Sub, ast.Mult)):
        a, b = _comb_sym(e.left, fn, atoms, keep), _comb_sym(e.right, fn, atoms, keep)
        if a is None or b is None:
            return None
        return a + b if isinstance(e.op, ast.Add) else (a - b if isinstance(e.op, ast.Sub) else a * b)
    return _to_sym(e, fn, atoms, keep)


def _theta_range(fn: ast.AST, name: str) -> Optional[tuple[str, Any]]:
    """('unit', count expression) if `name` is defined as arange(1, r)/r or linspace(0, 1, n): values in [0, 1]"""
    d = _plain_defs(fn, name)
    if len(d) != 1:
        return None
    v = d[0].value
    if isinstance(v, ast.Call) and call_name(v) == "linspace" and len(v.args) >= 3 and all(isinstance(a, ast.Constant) for a in v.args[:2]) \
            and (v.args[0].value, v.args[1].value) == (0, 1):
        return ("unit", v.args[2])
    if isinstance(v, ast.BinOp) and isinstance(v.op, ast.Div) and isinstance(v.left, ast.Call) and call_name(v.left) == "arange" \
            and len(v.left.args) == 2 and isinstance(v.left.args[0], ast.Constant) and v.left.args[0].value == 1:
        den = v.right
        if isinstance(den, ast.Call) and call_name(den) == "float" and den.args:
            den = den.args[0]
        if u(den) == u(v.left.args[1]):
            return ("unit", ast.BinOp(left=v.left.args[1], op=ast.Sub(), right=ast.Constant(value=1)))
    return None


def _check_combination(ctx: Ctx, mod, q: str, fn: ast.AST, expr: ast.expr, node: ast.AST, what: str) -> Optional[str]:
    atoms: dict = {}
    thetas = {n.id for n in ast.walk(expr) if isinstance(n, ast.Name) and _theta_range(fn, n.id) is not None}
    e = _comb_sym(expr, fn, atoms, set(thetas))
    X = [s_ for k, s_ in atoms.items() if k.startswith("X_")]
    if e is None or len(X) != 2 or len(thetas) != 1:
        raise Undecided(f"{REF}:{q}: `{u(expr)[:90]}` is not a recognised combination of two node coordinates with one weight array")
    e = sp.expand(e)
    w = [e.coeff(x) for x in X]
    rest = sp.expand(e - sum(wi * x for wi, x in zip(w, X)))
    ctx.check("R3", _z(rest) and _z(w[0] + w[1] - 1), mod, q, node,
              f"{what}: the weights of the two end points must sum to one identically (extracted weights {w[0]} and {w[1]}, remainder {rest}); otherwise the "
              f"new nodes leave the segment", construct=f"{what}: weights sum to one", facts={"weights": [str(x) for x in w]})
    t = atoms[next(iter(thetas))]
    ctx.check("R3", {sp.expand(w[0]), sp.expand(w[1])} == {t, sp.expand(1 - t)}, mod, q, node,
              f"{what}: with the weight array in [0, 1] both weights t and 1-t stay in [0, 1] (extracted {w[0]}, {w[1]})",
              construct=f"{what}: weights are t and 1 - t with t in [0, 1]")
    return next(iter(thetas))


def _alias_root(fn: ast.AST, name: str, depth: int = 4) -> str:
    """follow `a = b` aliases (single plain definitions) to the underlying name"""
    while depth > 0:
        d = _plain_defs(fn, name)
        if len(d) == 1 and isinstance(d[0].value, ast.Name):
            name, depth = d[0].value.id, depth - 1
        else:
            break
    return name


def rule_convex(ctx: Ctx, mod) -> None:
    # ---- refine_grid_1d
    q = "refine_grid_1d"
    fn = view_of(mod, q)
    params = [a.arg for a in fn.args.args]
    rname = params[1] if len(params) > 1 else None
    stores = [s for s in ast.walk(fn) if isinstance(s, ast.Assign) and isinstance(s.targets[0], ast.Subscript)
              and sum(1 for n in ast.walk(s.value) if isinstance(n, ast.Attribute) and n.attr == "nodes") == 2]
    if len(stores) != 1 or rname is None:
        raise Undecided(f"{REF}:{q}: the store of the interpolated nodes was not found")
    st = stores[0]
    th = _check_combination(ctx, mod, q, fn, st.value, st, "inserted nodes")
    # the two end points belong to one cell: one pointer window of one matrix
    ends = [n.slice.elts[1].id for n in ast.walk(st.value) if isinstance(n, ast.Subscript) and isinstance(n.value, ast.Attribute)
            and n.value.attr == "nodes" and isinstance(n.slice, ast.Tuple)]
    pair = [s for s in ast.walk(fn) if isinstance(s, ast.Assign) and isinstance(s.targets[0], ast.Tuple)
            and sorted(getattr(t, "id", "") for t in s.targets[0].elts) == sorted(ends)]
    if len(pair) != 1 or not isinstance(pair[0].value, ast.Subscript):
        raise Undecided(f"{REF}:{q}: definition of the end nodes {ends} not recognised")
    src, win = pair[0].value.value, _resolve(fn, pair[0].value.slice)
    if isinstance(win, ast.Call) and call_name(win) == "slice" and len(win.args) == 2:
        lo, hi = win.args
    elif isinstance(win, ast.Slice) and win.lower is not None and win.upper is not None and win.step is None:
        lo, hi = win.lower, win.upper
    else:
        raise Undecided(f"{REF}:{q}: window `{u(pair[0].value)[:80]}` not recognised")
    if not (isinstance(src, ast.Attribute) and src.attr == "indices" and isinstance(lo, ast.Subscript) and isinstance(hi, ast.Subscript)
            and isinstance(lo.value, ast.Attribute) and isinstance(hi.value, ast.Attribute) and lo.value.attr == hi.value.attr == "indptr"):
        raise Undecided(f"{REF}:{q}: end nodes are not read from a pointer window of a compressed matrix (`{u(pair[0])[:80]}`)")
    atoms: dict = {}
    keep = {n.id for n in ast.walk(lo.slice) if isinstance(n, ast.Name)} | {n.id for n in ast.walk(hi.slice) if isinstance(n, ast.Name)}
    d = None
    a_, b_ = _to_sym(lo.slice, fn, atoms, keep), _to_sym(hi.slice, fn, atoms, keep)
    if a_ is not None and b_ is not None:
        d = sp.expand(b_ - a_)
    if d is None:
        raise Undecided(f"{REF}:{q}: window bounds `{u(lo)}`, `{u(hi)}` not comparable")
    same = u(lo.value.value) == u(hi.value.value) == u(src.value)
    ctx.check("R3", same and d == 1, mod, q, pair[0],
              f"the two end nodes must be the entries of ONE cell's window M.indices[M.indptr[c]:M.indptr[c+1]] of one matrix (found indices of `{u(src.value)}`, "
              f"bounds `{u(lo)}` .. `{u(hi)}`)", construct="end nodes come from one cell's pointer window")
    # role agreement: a test on entry k of the first-occurrence flags of this window guards the window's node k only
    roles = [getattr(t, "id", None) for t in pair[0].targets[0].elts]
    win_txt = u(pair[0].value.slice)
    flags = {d.targets[0].id for d in ast.walk(fn) if isinstance(d, ast.Assign) and isinstance(d.targets[0], ast.Name)
             and isinstance(d.value, ast.Subscript) and u(d.value.slice) == win_txt and d is not pair[0]
             and not (isinstance(d.value.value, ast.Attribute) and d.value.value.attr == "indices")}
    unpacked = {}
    for d in ast.walk(fn):
        if isinstance(d, ast.Assign) and isinstance(d.targets[0], ast.Tuple) and len(d.targets[0].elts) == 2 and d is not pair[0] \
                and isinstance(d.value, ast.Subscript) and u(d.value.slice) == win_txt and all(isinstance(t, ast.Name) for t in d.targets[0].elts):
            unpacked[d.targets[0].elts[0].id], unpacked[d.targets[0].elts[1].id] = 0, 1

    def role_index(test: ast.expr) -> Optional[int]:
        while isinstance(test, ast.UnaryOp) and isinstance(test.op, ast.Not):
            test = test.operand
        if isinstance(test, ast.Name) and test.id in unpacked:
            return unpacked[test.id]
        if isinstance(test, ast.Subscript) and isinstance(test.value, ast.Name) and test.value.id in flags:
            k = test.slice
            kv = k.value if isinstance(k, ast.Constant) else (-k.operand.value if isinstance(k, ast.UnaryOp) and isinstance(k.op, ast.USub)
                                                              and isinstance(k.operand, ast.Constant) else None)
            if kv not in (0, 1, -1, -2):
                raise Undecided(f"{REF}:{q}: flag test `{u(test)}` does not address one end of the window")
            return 0 if kv in (0, -2) else 1
        return None
    n_role = 0
    for iff in ast.walk(fn):
        if not isinstance(iff, ast.If):
            continue
        ri = role_index(iff.test)
        if ri is None:
            continue
        role, other = roles[ri], roles[1 - ri]
        used = [n for blk in (iff.body, iff.orelse) for st_ in blk for n in ast.walk(st_) if isinstance(n, ast.Name) and n.id in roles]
        if not used:
            continue
        n_role += 1
        wrong = [n for n in used if n.id == other]
        ctx.check("R3", not wrong, mod, q, iff,
                  f"`if {u(iff.test)}` decides whether node `{role}` of the cell (entry {ri} of its window) is new or already present; both arms must add / look up "
                  f"`{role}`, but `{other}` is used" + (f" (line {wrong[0].lineno})" if wrong else "") + ": the refined cell is then closed with the wrong old node "
                  f"whenever that node was created by an earlier cell (e.g. nodes x=[0,2,1], cells (0,2),(2,1))",
                  construct=f"first-occurrence test of window entry {ri} guards that node only")
    if n_role < 2:
        raise Undecided(f"{REF}:{q}: the first-occurrence tests of the two end nodes were not recognised ({n_role})")
    # counts: all equal ratio - 1
    R = sp.Symbol(rname)
    atoms = {rname: R}
    tr = _theta_range(fn, th)
    n_theta = _to_sym(tr[1], fn, atoms, {rname}) if tr else None
    if n_theta is None:
        raise Undecided(f"{REF}:{q}: number of weights not extractable")
    ctx.check("R3", _z(n_theta - (R - 1)), mod, q, st, f"number of weights per cell must be {rname}-1 (found {n_theta})",
              construct="ratio-1 inserted nodes per cell: number of weights")
    sl = st.targets[0].slice
    if not (isinstance(sl, ast.Tuple) and len(sl.elts) == 2 and isinstance(sl.elts[1], ast.Slice) and sl.elts[1].lower is not None
            and sl.elts[1].upper is not None and sl.elts[1].step is None):
        raise Undecided(f"{REF}:{q}: target slice of the interpolated nodes not recognised")
    lo_names = {n.id for n in ast.walk(sl.elts[1].lower) if isinstance(n, ast.Name)}
    a_, b_ = _to_sym(sl.elts[1].lower, fn, atoms, {rname} | lo_names), _to_sym(sl.elts[1].upper, fn, atoms, {rname} | lo_names)
    if a_ is None or b_ is None or not isinstance(sl.elts[1].lower, ast.Name):
        raise Undecided(f"{REF}:{q}: bounds of the target slice not extractable")
    width = sp.expand(b_ - a_)
    ctx.check("R3", _z(width - (R - 1)), mod, q, st, f"the slice that receives the inserted nodes must be {rname}-1 wide (found {width})",
              construct="ratio-1 inserted nodes per cell: slice width")
    counter = _alias_root(fn, sl.elts[1].lower.id)
    loop = None
    for lp in ast.walk(fn):
        if isinstance(lp, ast.For) and any(x is st for x in ast.walk(lp)):
            loop = lp
    if loop is None:
        raise Undecided(f"{REF}:{q}: the interpolation is not inside the loop over the cells")
    order = {id(x): i for i, x in enumerate(n for n in ast.walk(loop) if isinstance(n, ast.stmt))}
    incs = [s for s in loop.body if isinstance(s, ast.AugAssign) and isinstance(s.target, ast.Name) and s.target.id == counter
            and isinstance(s.op, ast.Add) and order[id(s)] > order[id(st)]]
    inc = _to_sym(incs[0].value, fn, atoms, {rname}) if incs else None
    if inc is None:
        raise Undecided(f"{REF}:{q}: the advance of the node counter `{counter}` after the interpolation was not found")
    ctx.check("R3", _z(inc - (R - 1)), mod, q, incs[0],
              f"after the inserted nodes the node counter must advance by {rname}-1 (found {inc})", construct="ratio-1 inserted nodes per cell: counter increment")
    # ---- remesh_1d
    q = "remesh_1d"
    fn = view_of(mod, q)
    params = [a.arg for a in fn.args.args]
    cands = [s for s in ast.walk(fn) if isinstance(s, ast.Assign) and sum(1 for n in ast.walk(s.value) if isinstance(n, ast.Attribute) and n.attr == "nodes") == 2]
    if len(cands) != 1:
        raise Undecided(f"{REF}:{q}: the node interpolation was not found")
    st = cands[0]
    th = _check_combination(ctx, mod, q, fn, st.value, st, "equispaced nodes")
    tr = _theta_range(fn, th)
    cnt = _to_sym(tr[1], fn, {}, {params[1]}) if tr else None
    if cnt is None:
        raise Undecided(f"{REF}:{q}: number of weights not extractable")
    ctx.check("R3", _z(cnt - sp.Symbol(params[1])), mod, q, st,
              f"the weight array must have {params[1]} entries between 0 and 1 inclusive (found {cnt})", construct="number of new nodes = requested number")
    ends = [n.slice.elts[1].id for n in ast.walk(st.value) if isinstance(n, ast.Subscript) and isinstance(n.value, ast.Attribute)
            and n.value.attr == "nodes" and isinstance(n.slice, ast.Tuple)]
    pair = [s for s in ast.walk(fn) if isinstance(s, ast.Assign) and isinstance(s.targets[0], ast.Tuple)
            and sorted(getattr(t, "id", "") for t in s.targets[0].elts) == sorted(ends)]
    if len(pair) == 1 and isinstance(pair[0].value, ast.Call) and call_name(pair[0].value) == "get_all_boundary_nodes":
        ctx.check("R3", True, mod, q, pair[0], "end points are the old boundary nodes", construct="end points are the old boundary nodes")
    else:
        raise Undecided(f"{REF}:{q}: origin of the end points {ends} not recognised")


# =====================================================================================
#  R4 structured_refinement
# =====================================================================================

def _is_not(e: ast.expr, name: str) -> bool:
    if isinstance(e, ast.UnaryOp) and isinstance(e.op, ast.Invert) and isinstance(e.operand, ast.Name) and e.operand.id == name:
        return True
    return isinstance(e, ast.Call) and call_name(e) == "logical_not" and len(e.args) == 1 and isinstance(e.args[0], ast.Name) and e.args[0].id == name


def _loop_defs(loop: ast.AST, name: str) -> list:
    return [s for s in ast.walk(loop) if isinstance(s, ast.Assign) and len(s.targets) == 1 and isinstance(s.targets[0], ast.Name) and s.targets[0].id == name]


def rule_structured_refinement(ctx: Ctx, mod) -> None:
    q = "structured_refinement"
    fn = view_of(mod, q)
    params = [a.arg for a in fn.args.args]
    coarse, fine = params[0], params[1]
    chk = lambda ok, node, msg, cons: ctx.check("R4", bool(ok), mod, q, node, msg, construct=cons)
    und = lambda msg: Undecided(f"{REF}:{q}: {msg}")
    # restriction  P = P[sel]  inside a loop
    restr = [(lp, s) for lp in ast.walk(fn) if isinstance(lp, ast.For) for s in ast.walk(lp)
             if isinstance(s, ast.Assign) and isinstance(s.targets[0], ast.Name) and isinstance(s.value, ast.Subscript)
             and isinstance(s.value.value, ast.Name) and s.value.value.id == s.targets[0].id and not isinstance(s.value.slice, (ast.Slice, ast.Tuple))]
    if len(restr) != 1:
        raise und("the restriction of the untested-cell pointer (`P = P[~mask]`) was not found")
    loop, rs = restr[0]
    P = rs.targets[0].id
    sel = rs.value.slice
    if isinstance(sel, ast.Name) and len(_loop_defs(loop, sel.id)) == 1 and not (isinstance(_loop_defs(loop, sel.id)[0].value, ast.Call)
                                                                                 and call_name(_loop_defs(loop, sel.id)[0].value) not in ("logical_not", "invert")):
        d0 = _loop_defs(loop, sel.id)[0].value
        if isinstance(d0, (ast.UnaryOp, ast.Call)):
            sel = d0
    mnames = [n.id for n in ast.walk(sel) if isinstance(n, ast.Name) and n.id not in ("np", "numpy")]
    if len(mnames) != 1:
        raise und(f"selector of `{u(rs)}` not recognised")
    M = mnames[0]
    if _is_not(sel, M) or (isinstance(sel, ast.Call) and call_name(sel) == "invert" and len(sel.args) == 1):
        comp = True
    elif isinstance(sel, ast.Name):
        comp = False
    else:
        raise und(f"selector of `{u(rs)}` not recognised")
    mdefs = _loop_defs(loop, M)
    if not mdefs:
        raise und(f"no definition of the mask `{M}` in the loop")
    chk(comp, rs,
        f"after a coarse cell has been tested, the pointer must keep the cells NOT inside it (`{P}[~{M}]`); `{u(rs)}` keeps the cells that were just recorded, "
        f"so they are recorded again and the others are lost", "pointer restricted with the complement of the mask")
    order = {id(s): i for i, s in enumerate(n for n in ast.walk(loop) if isinstance(n, ast.stmt))}
    pdef = [s for s in _plain_defs(fn, P) if s is not rs]
    if not (len(pdef) == 1 and isinstance(pdef[0].value, ast.Call) and call_name(pdef[0].value) == "arange" and len(pdef[0].value.args) == 1):
        raise und(f"initial value of the pointer `{P}` not recognised")
    n0 = u(_resolve(fn, pdef[0].value.args[0]))
    if n0 not in (f"{fine}.num_cells", f"{coarse}.num_cells"):
        raise und(f"initial pointer arange({n0}) not recognised")
    chk(n0 == f"{fine}.num_cells", pdef[0], f"the pointer of untested cells must start as arange({fine}.num_cells) - the cells of the FINE grid; found arange({n0})",
        "untested pointer starts with all fine cells")
    # collectors: arrays grown by np.append/hstack/concatenate, or lists grown by .append (joined after the loop)
    pm = {}
    for par in ast.walk(fn):
        for fld in ("body", "orelse", "finalbody"):
            blk = getattr(par, fld, None)
            if isinstance(blk, list):
                for st in blk:
                    pm[id(st)] = (id(par), fld)
    coll: dict[str, tuple] = {}          # name -> (statement, appended expression, kind)
    for st in ast.walk(loop):
        if isinstance(st, ast.Assign) and isinstance(st.targets[0], ast.Name) and isinstance(st.value, ast.Call) \
                and call_name(st.value) in ("append", "hstack", "concatenate") and st.targets[0].id in {n.id for n in ast.walk(st.value) if isinstance(n, ast.Name)}:
            v = st.value
            parts = list(v.args[0].elts) if v.args and isinstance(v.args[0], (ast.Tuple, ast.List)) else list(v.args[:2])
            rest = [x for x in parts if not (isinstance(x, ast.Name) and x.id == st.targets[0].id)]
            if len(rest) != 1 or st.targets[0].id in coll:
                raise und(f"append `{u(st)[:70]}` not recognised")
            coll[st.targets[0].id] = (st, rest[0], "array")
        elif isinstance(st, ast.Expr) and isinstance(st.value, ast.Call) and isinstance(st.value.func, ast.Attribute) and st.value.func.attr == "append" \
                and isinstance(st.value.func.value, ast.Name) and len(st.value.args) == 1:
            nm = st.value.func.value.id
            if nm in coll:
                raise und(f"list `{nm}` is appended more than once per iteration")
            coll[nm] = (st, st.value.args[0], "list")
    ctors = [c for c in ast.walk(fn) if isinstance(c, ast.Call) and call_name(c) in ("csc_matrix", "csr_matrix") and c.args
             and isinstance(_resolve(fn, c.args[0]), ast.Tuple) and len(_resolve(fn, c.args[0]).elts) == 3]
    if len(ctors) != 1:
        raise und("constructor of the mapping not found")
    c = ctors[0]
    _d, i_, p_ = _resolve(fn, c.args[0]).elts

    def collector_of(e: ast.expr):
        """(collector name, how it is turned into the array): the array itself, concatenation of a list, running sum of a list"""
        e = _resolve(fn, e) if not (isinstance(e, ast.Name) and e.id in coll) else e
        if isinstance(e, ast.Name) and e.id in coll and coll[e.id][2] == "array":
            return e.id, "self"
        if isinstance(e, ast.Call) and e.args and isinstance(e.args[0], ast.Name) and e.args[0].id in coll and coll[e.args[0].id][2] == "list":
            if call_name(e) in ("concatenate", "hstack"):
                return e.args[0].id, "joined"
            if call_name(e) == "cumsum":
                return e.args[0].id, "cumsum"
        return None, None
    ci_, cp_ = collector_of(i_), collector_of(p_)
    if ci_[0] is None or cp_[0] is None:
        raise und("the arrays given to the constructor could not be traced to what is collected in the loop")

    def size_target(o: ast.expr) -> Optional[str]:
        if isinstance(o, ast.Attribute) and o.attr == "size" and isinstance(o.value, ast.Name):
            return o.value.id
        if isinstance(o, ast.Call) and call_name(o) == "len" and o.args and isinstance(o.args[0], ast.Name):
            return o.args[0].id
        if isinstance(o, ast.Subscript) and isinstance(o.value, ast.Attribute) and o.value.attr == "shape" and isinstance(o.value.value, ast.Name):
            return o.value.value.id
        return None
    # role of each collector: "ids" (a name derived from the mask) or "count" (a size, possibly added to the last pointer entry)
    role = {}
    sized_of = {}
    for nm, (st, ap, kind) in coll.items():
        if isinstance(ap, ast.BinOp) and isinstance(ap.op, ast.Add):
            terms = [ap.left, ap.right]
            last = [t for t in terms if u(t) == f"{nm}[-1]"]
            oth = [t for t in terms if u(t) != f"{nm}[-1]"]
            if len(last) == 1 and len(oth) == 1 and size_target(oth[0]) is not None:
                role[nm], sized_of[nm] = "running", size_target(oth[0])
                continue
            raise und(f"pointer increment `{u(ap)}` not recognised")
        if size_target(ap) is not None:
            role[nm], sized_of[nm] = "count", size_target(ap)
        elif isinstance(ap, ast.Name):
            role[nm] = "ids"
    ids_c = [nm for nm, r_ in role.items() if r_ == "ids" and nm in (ci_[0], cp_[0])]
    cnt_c = [nm for nm, r_ in role.items() if r_ in ("running", "count") and nm in (ci_[0], cp_[0])]
    if len(ids_c) != 1 or len(cnt_c) != 1:
        raise und("expected one collector of ids and one of counts among the arrays given to the constructor")
    IND, PTR = ids_c[0], cnt_c[0]
    ok_ptr_form = (role[PTR] == "running" and cp_ == (PTR, "self")) or (role[PTR] == "count" and cp_ == (PTR, "cumsum")) or ci_[0] == PTR
    if not ok_ptr_form and cp_[0] == PTR:
        raise und(f"the counts in `{PTR}` are neither a running sum nor summed with np.cumsum")
    if role[PTR] == "count" and cp_ == (PTR, "cumsum"):
        init = [d for d in _plain_defs(fn, PTR) + [x for x in ast.walk(fn) if isinstance(x, ast.AnnAssign) and isinstance(x.target, ast.Name)
                                                   and x.target.id == PTR and x.value is not None]]
        iv0 = init[0].value if len(init) == 1 else None
        if not (isinstance(iv0, ast.List) and len(iv0.elts) == 1 and isinstance(iv0.elts[0], ast.Constant)):
            raise und(f"initial value of the count list `{PTR}` not recognised")
        chk(iv0.elts[0].value == 0, init[0], f"the column pointer np.cumsum({PTR}) must start with 0: the list must be initialised as [0] (found `{u(iv0)}`)",
            "column pointer starts at zero")
    chk(call_name(c) == "csc_matrix" and ci_[0] == IND and cp_[0] == PTR, c,
        f"the mapping is documented as rows = fine cells, columns = coarse cells: column-compressed with indices = the collected fine ids `{IND}` and one pointer "
        f"entry per coarse cell from `{PTR}` (found {call_name(c)}(( ., {u(i_)[:30]}, {u(p_)[:30]})))", "mapping is csc(data, fine ids, pointer per coarse cell)")
    chk(pm.get(id(coll[IND][0])) == pm.get(id(coll[PTR][0])), coll[PTR][0],
        "ids and count are collected together, once per coarse cell (same block of the loop, not inside different dimension arms)",
        "one pointer entry per coarse cell")
    xa = coll[IND][1]
    X = xa.id
    ids = _loop_defs(loop, X)
    if len(ids) != 1:
        raise und(f"`{X}` has {len(ids)} definitions in the loop")
    iv = ids[0].value
    if isinstance(iv, ast.Subscript) and isinstance(iv.value, ast.Name) and isinstance(iv.slice, ast.Name):
        ok_ids = iv.value.id == P and iv.slice.id == M
    elif M in {n.id for n in ast.walk(iv) if isinstance(n, ast.Name)} and P not in {n.id for n in ast.walk(iv) if isinstance(n, ast.Name)} \
            and any(isinstance(n, ast.Call) and call_name(n) in ("where", "nonzero", "flatnonzero", "argwhere") for n in ast.walk(iv)):
        ok_ids = False   # positions of the mask, not mapped through the pointer
    else:
        raise und(f"definition of the recorded ids `{u(ids[0])[:70]}` not recognised")
    chk(ok_ids, ids[0],
        f"the mask `{M}` lives on the current pointer array `{P}`: the recorded ids must be `{P}[{M}]` (global fine-cell numbers); `{u(iv)[:60]}` yields "
        f"positions within the not-yet-assigned cells (or a different selection), correct only for the first coarse cell", "recorded ids = pointer[mask]")
    chk(order[id(ids[0])] < order[id(rs)], rs,
        f"the ids must be read before the pointer is restricted (afterwards `{M}` no longer matches `{P}`)", "ids read before the pointer is restricted")
    chk(sized_of[PTR] == X, coll[PTR][0],
        f"per coarse cell the column pointer must grow by the number of ids collected ({X}); it grows by the size of `{sized_of[PTR]}`",
        "column pointer advances by the number of appended ids")
    # tested points gathered with the pointer
    n_arm = 0
    for md in mdefs:
        n_arm += 1
        subs = [n for n in ast.walk(md.value) if isinstance(n, ast.Subscript) and isinstance(n.value, ast.Name)]
        for nm in {n.id for n in ast.walk(md.value) if isinstance(n, ast.Name)}:
            for d in _loop_defs(loop, nm):
                if isinstance(d.value, ast.Subscript) and isinstance(d.value.value, ast.Name):
                    subs.append(d.value)
        if not subs:
            raise und(f"the points tested by `{u(md)[:60]}` could not be traced to a gather")
        with_p = [d for d in subs if P in {n.id for n in ast.walk(d.slice) if isinstance(n, ast.Name)}]
        chk(bool(with_p), md,
            f"the mask `{M}` must be computed from points gathered with the current pointer `{P}` (so that it can select from `{P}`); "
            f"`{u(md)[:70]}` tests points gathered without it", f"mask arm {n_arm}: tested points are gathered with the pointer array")
    # both point sets of a point-in-cell test live in one frame
    CA = {d.targets[0].id for d in ast.walk(fn) if isinstance(d, ast.Assign) and isinstance(d.targets[0], ast.Name)
          and any(isinstance(n, ast.Attribute) and n.attr == "nodes" and u(n.value) == coarse for n in ast.walk(d.value))
          and not any(isinstance(n, ast.Call) and call_name(n) not in ("copy", "asarray", "array") for n in ast.walk(d.value))}
    FA = {d.targets[0].id for d in ast.walk(fn) if isinstance(d, ast.Assign) and isinstance(d.targets[0], ast.Name)
          and any(isinstance(n, ast.Attribute) and n.attr == "cell_centers" and u(n.value) == fine for n in ast.walk(d.value))
          and not any(isinstance(n, ast.Call) and call_name(n) not in ("copy", "asarray", "array") for n in ast.walk(d.value))}

    def frame_of(v: ast.expr, tgt: str):
        """(matrix name, transposed?, trailing slice text) when v is `M applied to tgt` (np.dot(M, tgt) | M.dot(tgt) | M @ tgt)[slice]"""
        sl = ""
        if isinstance(v, ast.Subscript):
            v, sl = v.value, u(v.slice)
        Mx = None
        if isinstance(v, ast.Call) and call_name(v) in ("dot", "matmul") and len(v.args) == 2 and isinstance(v.func, ast.Attribute) \
                and isinstance(v.func.value, ast.Name) and v.func.value.id in ("np", "numpy"):
            Mx, X_ = v.args
        elif isinstance(v, ast.Call) and call_name(v) == "dot" and len(v.args) == 1 and isinstance(v.func, ast.Attribute):
            Mx, X_ = v.func.value, v.args[0]
        elif isinstance(v, ast.BinOp) and isinstance(v.op, ast.MatMult):
            Mx, X_ = v.left, v.right
        else:
            return None
        if not (isinstance(X_, ast.Name) and X_.id == tgt):
            return None
        tr = False
        while True:
            if isinstance(Mx, ast.Attribute) and Mx.attr == "T":
                Mx, tr = Mx.value, not tr
            elif isinstance(Mx, ast.Call) and call_name(Mx) == "transpose" and isinstance(Mx.func, ast.Attribute) and not Mx.args:
                Mx, tr = Mx.func.value, not tr
            else:
                break
        return (u(Mx), tr, sl) if isinstance(Mx, ast.Name) else None
    n_frames = 0
    blocks = []
    for iff in ast.walk(fn):
        if isinstance(iff, ast.If) and not any(iff is x for x in ast.walk(loop)):
            blocks.append(iff.body)
            if iff.orelse and not (len(iff.orelse) == 1 and isinstance(iff.orelse[0], ast.If)):
                blocks.append(iff.orelse)
    for blk in blocks:
        tr_c = [(st, frame_of(st.value, st.targets[0].id)) for st in blk if isinstance(st, ast.Assign) and isinstance(st.targets[0], ast.Name) and st.targets[0].id in CA]
        tr_f = [(st, frame_of(st.value, st.targets[0].id)) for st in blk if isinstance(st, ast.Assign) and isinstance(st.targets[0], ast.Name) and st.targets[0].id in FA]
        if not tr_c and not tr_f:
            continue
        if len(tr_c) > 1 or len(tr_f) > 1 or any(fr is None for _s, fr in tr_c + tr_f):
            raise und("a re-assignment of the coarse nodes / fine centres is not a recognised change of frame")
        n_frames += 1
        if not tr_c or not tr_f:
            st0 = (tr_c or tr_f)[0][0]
            chk(False, st0, f"`{u(st0)[:70]}` moves one of the two point sets to a local frame, the other one stays in the global frame: the point-in-cell "
                f"test then compares coordinates of different frames", f"frame arm {n_frames}: both point sets are transformed")
            continue
        (sc, fc), (sf, ff) = tr_c[0], tr_f[0]
        chk(fc == ff, sf,
            f"the coarse nodes are mapped with {fc[0]}{'.T' if fc[1] else ''}[{fc[2]}] but the fine cell centres with {ff[0]}{'.T' if ff[1] else ''}[{ff[2]}]: "
            f"the point-in-cell test compares coordinates of different frames (identical only when the map is symmetric, e.g. the identity for a grid already "
            f"in its local plane)", f"frame arm {n_frames}: coarse nodes and fine centres use the same map", )
    # loop runs over the coarse cells
    it_src = _resolve(fn, loop.iter)
    if not (isinstance(it_src, ast.Call) and call_name(it_src) == "zip" and len(it_src.args) == 2
            and all(isinstance(a_, ast.Subscript) and isinstance(a_.value, ast.Attribute) and a_.value.attr == "indptr" for a_ in it_src.args)):
        raise und("iteration over the coarse cells not recognised")
    cn = _resolve(fn, it_src.args[0].value.value)
    if not (isinstance(cn, ast.Call) and call_name(cn) == "cell_nodes" and isinstance(cn.func, ast.Attribute) and u(cn.func.value) in (coarse, fine)):
        raise und("the pointer windows iterated over are not those of a grid's cell_nodes()")
    chk(u(cn.func.value) == coarse, loop,
        f"the loop must visit the cells of the COARSE grid `{coarse}` (pointer windows of {coarse}.cell_nodes()); it visits those of `{u(cn.func.value)}`",
        "loop over the coarse cells")


def run(ctx: Ctx) -> None:
    rmod = ctx.repo.module(REF)
    emod = ctx.repo.module(EXT)
    MODS[rmod.rel], MODS[emod.rel] = rmod, emod
    guarded(ctx, rule_refine_triangle, rmod)
    guarded(ctx, rule_extrusion, emod)
    guarded(ctx, rule_convex, rmod)
    guarded(ctx, rule_structured_refinement, rmod)


def _m(name, old, new, rule, file=REF, control=False, count=1):
    return dict(name=name, file=file, old=old, new=new, rule=rule, control=control, count=count)


MUTANTS = [
    # independently seeded changes (campaign of the coordinator)
    _m("seed-refine1d-end-arm-looks-up-start-node", "            loc_new_ind.append(old_2_new_nodes[end])\n", "            loc_new_ind.append(old_2_new_nodes[start])\n", "R3"),
    _m("seed-coarse-fine-centres-rotated-with-transpose", "        cells_ref = np.dot(R, cells_ref)[:2, :]", "        cells_ref = np.dot(R.T, cells_ref)[:2, :]", "R4"),
    _m("seed-ext1d-node-layers-counted-in-cells", "fn_this = k * nn_old + np.vstack((fn_old, nn_old + fn_old))", "fn_this = k * nc_old + np.vstack((fn_old, nn_old + fn_old))",
       "R2", file=EXT),
    _m("coarse-fine-only-centres-rotated", "        nodes = np.dot(R, nodes)[:2, :]\n", "", "R4"),
    _m("coarse-fine-count-list-style-wrong-size", "indptr = np.append(indptr, indptr[-1] + in_poly_ids.size)", "indptr = np.append(indptr, indptr[-1] + test_cells_ptr.size)", "R4"),
    _m("refine1d-start-arm-registers-end-node", "            old_2_new_nodes[start] = node_counter\n", "            old_2_new_nodes[end] = node_counter\n", "R3"),
    _m("ext2d-vertical-signs-from-constants", "cf_data_vertical = np.hstack((cf_data_vertical, cf_data_2d))", "cf_data_vertical = np.hstack((cf_data_vertical, np.ones(cf_rows_2d.size)))",
       "R2", file=EXT),
    # reverted forms of the applied fixes
    _m("revert-fix-ccc664e71-vertical-signs-from-constants", "    cf_data = np.vstack((cf_sgn_vert, -tmp, tmp)).ravel(\"F\")", "    cf_data = np.vstack((-tmp, tmp, -tmp, tmp)).ravel(\"F\")",
       "R2", file=EXT),
    _m("ext1d-vertical-signs-interleaved", "    cf_sgn_vert = np.tile(\n        g.cell_faces.data.reshape((2, -1), order=\"F\"), num_cell_layers\n    )",
       "    cf_sgn_vert = np.repeat(\n        g.cell_faces.data.reshape((2, -1), order=\"F\"), num_cell_layers, axis=1\n    )", "R2", file=EXT),
    _m("revert-fix-7d04e5f0c-hits-not-reordered-by-cell", "        equal = equal[np.argsort(equal[:, 1])]\n", "", "R1", control=True),
    _m("revert-fix-35a12ad03-parent-tile", "    parent = np.repeat(np.arange(g.num_cells), g.dim + 2)", "    parent = np.tile(np.arange(g.num_cells), g.dim + 2)", "R1", control=True),
    _m("revert-fix-2a10c3b19-face-layers-counted-in-nodes", "        cf_vert_this = nf_old * k + cf_old", "        cf_vert_this = nn_old * k + cf_old", "R2", file=EXT, control=True),
    _m("tri-hits-reordered-by-row-column", "equal = equal[np.argsort(equal[:, 1])]", "equal = equal[np.argsort(equal[:, 0])]", "R1"),
    # R1
    _m("tri-face-centre-without-shift", "np.vstack((equal_n, offset + cf[b[0]], offset + cf[b[1]]))", "np.vstack((equal_n, cf[b[0]], offset + cf[b[1]]))", "R1"),
    _m("tri-shift-by-number-of-faces", "    offset = g.num_nodes\n", "    offset = g.num_faces\n", "R1"),
    _m("tri-nodes-stacked-faces-first", "new_nodes = np.hstack((g.nodes, g.face_centers))", "new_nodes = np.hstack((g.face_centers, g.nodes))", "R1"),
    _m("tri-centre-child-without-shift", "    new_tri[:, :, -1] = offset + cf\n", "    new_tri[:, :, -1] = cf\n", "R1"),
    _m("tri-face-node-roles-swapped", "loc_n = np.vstack((fn[:, cf[b[0]]], fn[:, cf[b[1]]]))", "loc_n = np.vstack((cf[:, fn[b[0]]], fn[:, cf[b[1]]]))", "R1"),
    # R2
    _m("ext1d-node-layers-counted-in-faces", "fn_this = k * nn_old + np.vstack((fn_old, nn_old + fn_old))", "fn_this = k * nf_old + np.vstack((fn_old, nn_old + fn_old))",
       "R2", file=EXT),
    _m("ext1d-horizontal-base-in-nodes", "cf_hor_this += nf_old * num_cell_layers + k * nc_old", "cf_hor_this += nn_old * num_cell_layers + k * nc_old", "R2", file=EXT),
    _m("ext2d-vertical-faces-counted-in-nodes", "np.hstack((cf_rows_vertical, cf_rows_2d + k * nf_2d))", "np.hstack((cf_rows_vertical, cf_rows_2d + k * nn_2d))", "R2", file=EXT),
    _m("ext2d-horizontal-layer-counted-in-faces", "            + k * nc_2d\n            + np.hstack((np.arange(nc_2d), np.arange(nc_2d)))", "            + k * nf_2d\n            + np.hstack((np.arange(nc_2d), np.arange(nc_2d)))", "R2", file=EXT),
    _m("ext2d-upper-cells-counted-in-faces", "((k - 1) * nc_2d + np.arange(nc_2d), k * nc_2d + np.arange(nc_2d))", "((k - 1) * nc_2d + np.arange(nc_2d), k * nf_2d + np.arange(nc_2d))", "R2", file=EXT),
    _m("maps-face-map-steps-by-cells", "np.arange(f, g.num_faces * num_cell_layers, g.num_faces)", "np.arange(f, g.num_faces * num_cell_layers, g.num_cells)", "R2", file=EXT),
    _m("maps-cell-major-numbering", "cell_map[c] = np.arange(c, g_new.num_cells, g.num_cells)", "cell_map[c] = np.arange(c * num_cell_layers, (c + 1) * num_cell_layers)", "R2", file=EXT),
    _m("tags-one-face-layer-too-many", "    for _ in range(num_cell_layers):\n        fracture_face_tag = np.hstack", "    for _ in range(num_cell_layers + 1):\n        fracture_face_tag = np.hstack", "R2", file=EXT),
    _m("tags-horizontal-faces-first", "        (tip_face_tag, np.zeros(nc_old * (num_cell_layers + 1), dtype=bool))", "        (np.zeros(nc_old * (num_cell_layers + 1), dtype=bool), tip_face_tag)", "R2", file=EXT),
    _m("tags-node-layers-one-short", "tip_node_tag = np.tile(g.tags[\"tip_nodes\"], (num_cell_layers + 1, 1)).ravel()", "tip_node_tag = np.tile(g.tags[\"tip_nodes\"], (num_cell_layers, 1)).ravel()", "R2", file=EXT),
    _m("ext1d-columns-flattened-c-order", "cf_cols = np.tile(np.arange(nc_new), (4, 1)).ravel(\"F\")", "cf_cols = np.tile(np.arange(nc_new), (4, 1)).ravel(\"C\")", "R2", file=EXT),
    _m("ext1d-face-count", "nf_new = g.num_faces * num_cell_layers + g.num_cells * (num_cell_layers + 1)", "nf_new = g.num_faces * num_cell_layers + g.num_cells * num_cell_layers", "R2", file=EXT),
    _m("ext2d-node-of-face-by-cell-index", "p0 = g.nodes[:, fn_2d[0, fi[idx]]]", "p0 = g.nodes[:, fn_2d[0, ci[idx]]]", "R2", file=EXT),
    _m("ext2d-cell-centre-by-face-index", "pc = g.cell_centers[:, ci[idx]]", "pc = g.cell_centers[:, fi[idx]]", "R2", file=EXT),
    # R3
    _m("refine1d-weights-not-convex", "g.nodes[:, start].reshape((-1, 1)) * (1 - theta)", "g.nodes[:, start].reshape((-1, 1)) * (1 + theta)", "R3"),
    _m("refine1d-counter-increment", "        node_counter += ratio - 1\n", "        node_counter += ratio\n", "R3"),
    _m("refine1d-window-spans-two-cells", "loc = slice(cell_nodes.indptr[c], cell_nodes.indptr[c + 1])", "loc = slice(cell_nodes.indptr[c], cell_nodes.indptr[c + 2])", "R3"),
    _m("remesh-weights-not-convex", "    ] * (1.0 - theta)", "    ] * (1.0 + theta)", "R3"),
    _m("remesh-one-node-too-many", "theta = np.linspace(0, 1, num_nodes)", "theta = np.linspace(0, 1, num_nodes + 1)", "R3"),
    # R4
    _m("coarse-fine-ids-are-positions", "in_poly_ids = test_cells_ptr[in_poly]", "in_poly_ids = np.where(in_poly)[0]", "R4"),
    _m("coarse-fine-keeps-recorded-cells", "test_cells_ptr = test_cells_ptr[~in_poly]", "test_cells_ptr = test_cells_ptr[in_poly]", "R4"),
    _m("coarse-fine-pointer-by-mask-length", "indptr = np.append(indptr, indptr[-1] + in_poly_ids.size)", "indptr = np.append(indptr, indptr[-1] + in_poly.size)", "R4"),
    _m("coarse-fine-transposed-format", "coarse_fine = sps.csc_matrix((data, indices, indptr))", "coarse_fine = sps.csr_matrix((data, indices, indptr))", "R4"),
    _m("coarse-fine-pointer-over-coarse-cells", "test_cells_ptr = np.arange(g_ref.num_cells)", "test_cells_ptr = np.arange(g.num_cells)", "R4"),
    dict(name="coarse-fine-restrict-before-read", rule="R4", file=REF, edits=[dict(file=REF,
         old="        in_poly_ids = test_cells_ptr[in_poly]  # id of cells inside this polyhedron\n        # Keep only cells not inside this polyhedron\n        test_cells_ptr = test_cells_ptr[~in_poly]\n",
         new="        all_ptr = test_cells_ptr\n        test_cells_ptr = test_cells_ptr[~in_poly]\n        in_poly_ids = test_cells_ptr[in_poly]\n")]),
    _m("coarse-fine-loop-over-fine-cells", "    cell_nodes = g.cell_nodes()\n    # start/end row pointers for each column", "    cell_nodes = g_ref.cell_nodes()\n    # start/end row pointers for each column", "R4"),
]
